"""C30 -- locale qualifiers round-trip through the configuration encoding.

Rule: ARSCResTableConfig.set_language_and_region / get_language_and_region and
their helpers _pack_/_unpack_language_or_region are abstractly interpreted on
symbolic locale strings and symbolic locale words.  Character codes are kept
as bit-provenance values (two-letter codes: class bits + 5 symbolic bits) or as
`base + x` linear forms over a 5-bit symbolic x (packed three-letter codes), so
the composition get(set(s)) is compared with s character by character and
set(get(w)) with w bit by bit -- for all codes of each shape at once.  The
reader's packed form is additionally compared with AOSP's
unpackLanguageOrRegion layout.
"""
from __future__ import annotations

import itertools

from ..absint import has_opaque, Interp, Sym, Lin, Obj, StrV, Raised, explore, show
from ..bits import Bits, bits_relation
from ..consts import Folder
from ..model import AXML, AnalysisError


def sym5(tag):
    return Bits.source([("s", tag, i) for i in range(5)], False)


def cls_char(tag, high, nbits=5):
    """a character whose code is `high` (constant upper bits) | nbits symbolic low bits"""
    low = [("s", tag, i) for i in range(nbits)]
    hb = [(high >> i) & 1 for i in range(nbits, 8)]
    return Bits.source(low + hb, False)


def lang_shapes():
    # two lowercase letters (0x60|x covers a..z), three letters packed with base 'a'
    yield "ll", [cls_char("l0", 0x60), cls_char("l1", 0x60)]
    yield "lll", [Lin({sym5("l0"): 1}, ord("a")), Lin({sym5("l1"): 1}, ord("a")), Lin({sym5("l2"): 1}, ord("a"))]


def region_shapes():
    yield "none", None
    yield "RR", [cls_char("r0", 0x40), cls_char("r1", 0x40)]
    yield "DD", [cls_char("r0", 0x30, 4), cls_char("r1", 0x30, 4)]
    yield "ddd", [Lin({sym5("r0"): 1}, ord("0")), Lin({sym5("r1"): 1}, ord("0")), Lin({sym5("r2"): 1}, ord("0"))]


def norm_code(c, asg):
    if isinstance(c, Bits):
        c = c.subst(asg)
        return c.value() if c.is_const() else c
    if isinstance(c, Lin):
        terms = {}
        const = c.const
        for a, k in c.terms.items():
            if isinstance(a, Bits):
                a = a.subst(asg)
                if a.is_const():
                    const += k * a.value()
                    continue
            terms[a] = terms.get(a, 0) + k
        return Lin(terms, const).simplify()
    return c


_ARITH = {"BitAnd": lambda x, y: x & y, "BitOr": lambda x, y: x | y, "BitXor": lambda x, y: x ^ y, "LShift": lambda x, y: x << y,
          "RShift": lambda x, y: x >> y, "Add": lambda x, y: x + y, "Sub": lambda x, y: x - y, "Mult": lambda x, y: x * y,
          "FloorDiv": lambda x, y: x // y, "Mod": lambda x, y: x % y}


def _sources(c):
    """source bits a character code depends on; None when it has a part that cannot be evaluated on concrete bits.
    Integer arithmetic the bit domain cannot represent exactly (e.g. (x - 49) & 31) is kept by the interpreter as a term over
    exact leaves; such terms ARE evaluable."""
    if isinstance(c, bool):
        return None
    if isinstance(c, int):
        return set()
    if isinstance(c, Bits):
        return None if c.has_top() else set(c.sources())
    if isinstance(c, Lin):
        out = set()
        for a in c.terms:
            sa = _sources(a)
            if sa is None:
                return None
            out |= sa
        return out
    if isinstance(c, Sym) and c.op in _ARITH and len(c.args) == 2:
        out = set()
        for a in c.args:
            sa = _sources(a)
            if sa is None:
                return None
            out |= sa
        return out
    return None


def _conc(c, env):
    if isinstance(c, int):
        return c
    if isinstance(c, Bits):
        return c.subst(env).value()
    if isinstance(c, Sym):
        x, y = _conc(c.args[0], env), _conc(c.args[1], env)
        if c.op in ("LShift", "RShift") and not 0 <= y < 256:
            raise ValueError("shift count")
        return _ARITH[c.op](x, y)
    return c.const + sum(k * _conc(a, env) for a, k in c.terms.items())


def code_relation(a, b, asg):
    """'equal' | 'different' | 'unknown' -- decided semantically: two exact forms over <= 12 source bits are compared on
    every assignment of those bits, larger ones on 64 fixed patterns (a difference found is a witness; none found = unknown)"""
    a, b = norm_code(a, asg), norm_code(b, asg)
    if isinstance(a, bool) or isinstance(b, bool):
        return "unknown"
    if type(a) is type(b) and a == b:
        return "equal"
    sa, sb = _sources(a), _sources(b)
    if sa is None or sb is None:
        return "unknown"
    srcs = sorted(sa | sb, key=repr)
    if len(srcs) <= 12:
        for n in range(1 << len(srcs)):
            env = {k: (n >> i) & 1 for i, k in enumerate(srcs)}
            if _conc(a, env) != _conc(b, env):
                return "different"
        return "equal"
    x = 0x9E3779B97F4A7C15
    for _ in range(64):
        x = (x * 6364136223846793005 + 1442695040888963407) & (2 ** 64 - 1)
        env = {k: (x >> (i % 61)) & 1 for i, k in enumerate(srcs)}
        if _conc(a, env) != _conc(b, env):
            return "different"
    return "unknown"


def chars_relation(got, exp, asg):
    """relation of an abstract string with the expected character list"""
    if not isinstance(got, StrV):
        return "unknown"
    rels = [code_relation(x, y, asg) for x, y in zip(got.chars, exp)]
    if "different" in rels:
        return "different"
    if "unknown" in rels or any(_sources(norm_code(c, asg)) is None for c in got.chars):
        return "unknown"
    return "equal" if len(got.chars) == len(exp) else "different"


def decide(ctx, rule, inst, rel, func, construct, message, detail):
    if rel == "unknown":
        # remembered, raised at the end of the run: a later shape may still establish a violation positively
        ctx.extra.setdefault("_undecided", []).append("C30 %s [%s]: cannot decide -- %s" % (rule, inst, message[:600]))
        return
    ctx.check(rule, inst, rel == "equal", func, construct, message, detail=detail)


def show_chars(chars):
    return show(StrV(chars))


def run(ctx):
    ctx.explanation = __doc__
    repo = ctx.repo
    m = ctx.mod(AXML)
    folder = Folder(repo)
    cls = m.cls("ARSCResTableConfig")
    fset = cls.lookup("set_language_and_region")
    fget = cls.lookup("get_language_and_region")
    fpack = cls.lookup("_pack_language_or_region")
    funpack = cls.lookup("_unpack_language_or_region")
    for f, n in ((fset, "set_language_and_region"), (fget, "get_language_and_region"), (fpack, "_pack_language_or_region"), (funpack, "_unpack_language_or_region")):
        ctx.require(f is not None, "ARSCResTableConfig.%s vanished" % n)
        ctx.analysed(f)

    # ---- string -> word -> string ------------------------------------------
    for (ln, lang), (rn, region) in itertools.product(lang_shapes(), region_shapes()):
        chars = list(lang) + ([ord("-"), ord("r")] + list(region) if region else [])
        inst = "language %s region %s" % (ln, rn)
        ctx.count("string_shapes")

        def run1(asg, chars=chars):
            a = dict(asg)
            it = Interp(repo, folder, asg=a, hooks={"inline_funcs": {"*module*"}})
            it.max_split = 4
            o = Obj(cls, "config")
            it.call_function(fset, [StrV(chars)], recv=o)
            word = o.attrs.get("locale")
            back = it.call_function(fget, [], recv=o)
            return a, word, back

        for asg0, r in explore(run1):
            if isinstance(r, Raised):
                ctx.check("encode-decode", inst, False, fset, "%s-r%s" % (ln, rn), "set/get_language_and_region raises %s for a %s locale" % (r, inst), node=r.node)
                continue
            asg, word, back = r
            if any(k[0] == "c" for k in asg):
                # a branch was taken on a condition the interpreter could not evaluate: the path may be infeasible, nothing is established on it
                decide(ctx, "encode-decode", inst, "unknown", fset, "", "path through an unevaluated condition / opaque word %s" % show(word)[:120], "")
                continue
            decide(ctx, "encode-decode", inst, chars_relation(back, chars, asg), fpack if ln == "lll" or rn == "ddd" else fset, "%s-r%s" % (ln, rn),
                      "a %s locale string does not survive set_language_and_region/get_language_and_region: encoded %s as word %s, decoded %s" % (
                          inst, show_chars(chars), show(word)[:160], show(back)[:200]),
                      detail="get(set(s)) == s for every %s" % inst)
    ctx.floor("string_shapes", 8)

    # ---- word -> string -> word ---------------------------------------------
    def packed(tag):
        # AOSP packed form: byte0 = 1 ttttt ss, byte1 = sss fffff  (all 15 payload bits symbolic)
        b0 = [("s", tag + "0", i) for i in range(7)] + [1]
        b1 = [("s", tag + "1", i) for i in range(8)]
        return b0, b1

    def plain(tag, high, nbits):
        a = cls_char(tag + "0", high, nbits).b[:8]
        b = cls_char(tag + "1", high, nbits).b[:8]
        return list(a), list(b)

    lang_words = {"plain": plain("L", 0x60, 5), "packed": packed("L")}
    region_words = {"zero": ([0] * 8, [0] * 8), "plainU": plain("R", 0x40, 5), "plainD": plain("R", 0x30, 4), "packed": packed("R")}
    shapes = list(itertools.product(lang_words.items(), region_words.items()))
    # the same two packed bytes in the language and in the region half (e.g. 'bcd' and '123'): the halves are decoded one after the
    # other in one call, so a decoder that remembers what two bytes meant the last time answers the region with the language's letters
    shapes.append((("packed", lang_words["packed"]), ("packed-same-bytes", lang_words["packed"])))
    for (ln, (l0, l1)), (rn, (r0, r1)) in shapes:
        inst = "word language=%s region=%s" % (ln, rn)
        ctx.count("word_shapes")

        def run2(asg, bits=l0 + l1 + r0 + r1):
            a = dict(asg)
            it = Interp(repo, folder, asg=a, hooks={"inline_funcs": {"*module*"}})
            it.max_split = 4
            w = Bits.source([a.get(b, b) if isinstance(b, tuple) else b for b in bits], False)
            o = Obj(cls, "config")
            o.attrs["locale"] = w
            s = it.call_function(fget, [], recv=o)
            o2 = Obj(cls, "config2")
            it.call_function(fset, [s], recv=o2)
            return a, w, s, o2.attrs.get("locale")

        for asg0, r in explore(run2):
            if isinstance(r, Raised):
                ctx.check("decode-encode", inst, False, fget, inst, "get/set_language_and_region raises %s for a %s" % (r, inst), node=r.node)
                continue
            asg, w, s, w2 = r
            if any(k[0] == "c" for k in asg) or not isinstance(s, StrV) or any(_sources(norm_code(c, asg)) is None for c in s.chars):
                decide(ctx, "decode-encode", inst, "unknown", fget, "", "path through an unevaluated condition / opaque decoded text %s" % show(s)[:120], "")
                continue
            w2b = Bits.const(w2) if isinstance(w2, int) and not isinstance(w2, bool) else w2
            rel = bits_relation(w2b.subst(asg), w.subst(asg)) if isinstance(w2b, Bits) else code_relation(w2b, w, asg)
            decide(ctx, "decode-encode", inst, rel, fpack if "packed" in (ln, rn[:6]) else fset, inst,
                      "configuration word %s decodes to %s but encoding that string gives %s" % (w.subst(asg).describe(), show(s)[:160], show(w2b)[:200]),
                      detail="set(get(w)) == w for every %s" % inst)
            # AOSP layout of the decoded text
            if isinstance(s, StrV):
                _check_layout(ctx, funpack, inst, ln, rn, l0, l1, r0, r1, s, asg)
    ctx.floor("word_shapes", 9)

    # ---- default locale -------------------------------------------------------------
    def run3(asg):
        it = Interp(repo, folder, asg=dict(asg), hooks={"inline_funcs": {"*module*"}})
        o = Obj(cls, "config")
        o.attrs["locale"] = 0
        s = it.call_function(fget, [], recv=o)
        o2 = Obj(cls, "config2")
        it.call_function(fset, [s], recv=o2)
        return s, o2.attrs.get("locale")

    for asg0, r in explore(run3):
        ok = not isinstance(r, Raised) and (r[1] == 0 or (isinstance(r[1], Bits) and r[1].is_const() and r[1].value() == 0))
        ctx.check("default-locale", "locale 0", ok, fget, "default locale", "the default locale (0) does not round-trip: %s" % (show(r) if not isinstance(r, Raised) else r))
    und = ctx.extra.pop("_undecided", None)
    if und:
        raise AnalysisError(und[0] + (" (and %d more undecided instances)" % (len(und) - 1) if len(und) > 1 else ""))
    ctx.assume("two-letter language letters lie in 0x60..0x7f, upper-case region letters in 0x40..0x5f, digits in 0x30..0x3f; packed codes are base + 5-bit value")


def _check_layout(ctx, funpack, inst, ln, rn, l0, l1, r0, r1, s, asg):
    """AOSP ResTable_config::unpackLanguageOrRegion: first = in[1][0:5], second = in[1][5:8] ++ in[0][0:2], third = in[0][2:7]"""
    def sub(bl):
        return [asg.get(b, b) if isinstance(b, tuple) else b for b in bl]

    def packed_chars(b0, b1, base):
        b0, b1 = sub(b0), sub(b1)
        first = Bits.source(b1[0:5], False)
        second = Bits.source(b1[5:8] + b0[0:2], False)
        third = Bits.source(b0[2:7], False)
        return [Lin({first: 1}, base), Lin({second: 1}, base), Lin({third: 1}, base)]

    def plain_chars(b0, b1):
        return [Bits.source(sub(b0), False), Bits.source(sub(b1), False)]

    exp = packed_chars(l0, l1, ord("a")) if ln == "packed" else plain_chars(l0, l1)
    if rn != "zero":
        exp += [ord("-"), ord("r")]
        exp += packed_chars(r0, r1, ord("0")) if rn.startswith("packed") else plain_chars(r0, r1)
    decide(ctx, "decode-layout", inst, chars_relation(s, exp, asg), funpack, inst,
              "%s decodes to %s; AOSP unpackLanguageOrRegion gives %s" % (inst, show(s)[:200], show_chars([norm_code(c, asg) for c in exp])[:200]),
              detail="decoded text = AOSP layout")


MUTATION_TARGETS = [(AXML, "ARSCResTableConfig._unpack_language_or_region"), (AXML, "ARSCResTableConfig._pack_language_or_region"),
                    (AXML, "ARSCResTableConfig.set_language_and_region"), (AXML, "ARSCResTableConfig.get_language_and_region")]
