"""L1 constant folder for module/class level tables."""
from __future__ import annotations

import ast
import operator
import struct

from .model import AnalysisError, Module, Cls, Func


class Unknown:
    def __init__(self, why=""):
        self.why = why

    def __repr__(self):
        return "Unknown(%s)" % self.why


class Ref:
    """symbolic reference to a repository class or function"""

    def __init__(self, kind, obj):
        self.kind = kind  # 'class' | 'func'
        self.obj = obj

    @property
    def name(self):
        return self.obj.name if self.kind == "class" else self.obj.qualname

    def __repr__(self):
        return "Ref(%s %s)" % (self.kind, self.name)

    def __eq__(self, o):
        return isinstance(o, Ref) and o.kind == self.kind and o.obj is self.obj

    def __hash__(self):
        return hash((self.kind, id(self.obj)))


class EnumVal(int):
    """an IntEnum member: behaves as its int, remembers its name"""

    def __new__(cls, value, enum, member):
        o = int.__new__(cls, value)
        o.enum = enum
        o.member = member
        return o

    def __repr__(self):
        return "%s.%s(%d)" % (self.enum, self.member, int(self))


_BIN = {
    ast.Add: operator.add, ast.Sub: operator.sub, ast.Mult: operator.mul,
    ast.FloorDiv: operator.floordiv, ast.Mod: operator.mod, ast.BitAnd: operator.and_,
    ast.BitOr: operator.or_, ast.BitXor: operator.xor, ast.LShift: operator.lshift,
    ast.RShift: operator.rshift, ast.Div: operator.truediv, ast.Pow: operator.pow,
}


def is_unknown(v):
    if isinstance(v, Unknown):
        return True
    if isinstance(v, (list, tuple, set, frozenset)):
        return any(is_unknown(x) for x in v)
    if isinstance(v, dict):
        return any(is_unknown(k) or is_unknown(x) for k, x in v.items())
    return False


class Folder:
    def __init__(self, repo):
        self.repo = repo
        self._cache = {}
        self._enum_cache = {}

    def enum_members(self, cls: Cls):
        """IntEnum/Enum body -> {name: EnumVal}"""
        key = id(cls)
        if key in self._enum_cache:
            return self._enum_cache[key]
        out = {}
        self._enum_cache[key] = out
        for n in cls.node.body:
            if isinstance(n, ast.Assign) and len(n.targets) == 1 and isinstance(n.targets[0], ast.Name):
                v = self.fold(n.value, cls.module, _locals=dict(out))
                if isinstance(v, int) and not isinstance(v, bool):
                    out[n.targets[0].id] = EnumVal(v, cls.name, n.targets[0].id)
                elif not isinstance(v, Unknown):
                    out[n.targets[0].id] = v
        return out

    def is_enum(self, cls: Cls):
        return any(b in ("IntEnum", "Enum", "IntFlag") for c in cls.mro() for b in c.base_names)

    def global_(self, module: Module, name):
        key = (module.relpath, name)
        if key in self._cache:
            return self._cache[key]
        self._cache[key] = Unknown("recursive %s" % name)
        r = module.resolve_name(name)
        if r is None:
            v = Unknown("unresolved name %s" % name)
        elif r[0] == "class":
            v = Ref("class", r[1])
        elif r[0] == "func":
            v = Ref("func", r[1])
        elif r[0] == "const":
            v = self.fold(r[2], r[1])
        else:
            v = Unknown("module %s" % name)
        self._cache[key] = v
        return v

    def fold(self, e, module: Module, _locals=None):
        L = _locals or {}
        f = lambda x: self.fold(x, module, L)
        if isinstance(e, ast.Constant):
            return e.value
        if isinstance(e, ast.Name):
            if e.id in L:
                return L[e.id]
            if e.id in ("True", "False", "None"):
                return {"True": True, "False": False, "None": None}[e.id]
            return self.global_(module, e.id)
        if isinstance(e, ast.Attribute):
            if isinstance(e.value, ast.Name):
                r = module.resolve_name(e.value.id) if e.value.id not in L else None
                if r and r[0] == "class" and self.is_enum(r[1]):
                    m = self.enum_members(r[1])
                    if e.attr in m:
                        return m[e.attr]
                    return Unknown("no enum member %s.%s" % (e.value.id, e.attr))
                if r and r[0] == "class":
                    a = r[1].lookup_attr(e.attr)
                    if a is not None:
                        return self.fold(a, r[1].module)
                if r and r[0] == "module" and r[1] is not None:
                    return self.global_(r[1], e.attr)
            base = f(e.value)
            if isinstance(base, EnumVal) and e.attr == "value":
                return int(base)
            return Unknown("attribute %s" % ast.unparse(e))
        if isinstance(e, (ast.Tuple, ast.List, ast.Set)):
            vals = []
            for x in e.elts:
                if isinstance(x, ast.Starred):
                    sub = f(x.value)
                    if is_unknown(sub) or not isinstance(sub, (list, tuple, set, frozenset, range, dict, str, bytes)):
                        return Unknown("starred element %s" % ast.unparse(x)[:40])
                    vals.extend(sub)
                else:
                    vals.append(f(x))
            if isinstance(e, ast.Tuple):
                return tuple(vals)
            if isinstance(e, ast.Set):
                try:
                    return set(vals)
                except TypeError:
                    return Unknown("unhashable set element")
            return vals
        if isinstance(e, ast.Dict):
            d = {}
            for k, v in zip(e.keys, e.values):
                if k is None:
                    sub = f(v)
                    if isinstance(sub, dict):
                        d.update(sub)
                    else:
                        return Unknown("dict splat")
                    continue
                kk = f(k)
                if isinstance(kk, Unknown):
                    return Unknown("dict key %s" % ast.unparse(k))
                try:
                    d[kk] = f(v)
                except TypeError:
                    return Unknown("unhashable key")
            return d
        if isinstance(e, ast.UnaryOp):
            v = f(e.operand)
            if isinstance(v, Unknown):
                return v
            try:
                if isinstance(e.op, ast.USub):
                    return -v
                if isinstance(e.op, ast.UAdd):
                    return +v
                if isinstance(e.op, ast.Invert):
                    return ~v
                if isinstance(e.op, ast.Not):
                    return not v
            except Exception as ex:
                return Unknown(str(ex))
        if isinstance(e, ast.BinOp):
            a, b = f(e.left), f(e.right)
            if is_unknown(a) or is_unknown(b):
                return Unknown("binop operand: %s" % ast.unparse(e)[:60])
            if isinstance(a, Ref) or isinstance(b, Ref):
                return Unknown("binop on ref")
            try:
                return _BIN[type(e.op)](a, b)
            except Exception as ex:
                return Unknown(str(ex))
        if isinstance(e, ast.Subscript):
            base = f(e.value)
            if isinstance(base, Unknown):
                return base
            if isinstance(e.slice, ast.Slice):
                lo = f(e.slice.lower) if e.slice.lower else None
                hi = f(e.slice.upper) if e.slice.upper else None
                st = f(e.slice.step) if e.slice.step else None
                try:
                    return base[lo:hi:st]
                except Exception as ex:
                    return Unknown(str(ex))
            k = f(e.slice)
            try:
                return base[k]
            except Exception as ex:
                return Unknown("subscript: %s" % ex)
        if isinstance(e, ast.Call):
            fn = e.func
            name = fn.id if isinstance(fn, ast.Name) else None
            args = [f(a) for a in e.args]
            if name == "calcsize" or (isinstance(fn, ast.Attribute) and fn.attr == "calcsize"):
                if args and isinstance(args[0], str):
                    try:
                        return struct.calcsize(args[0])
                    except struct.error as ex:
                        return Unknown(str(ex))
            if name in ("len", "tuple", "list", "set", "frozenset", "dict", "int", "str", "bytes", "sorted", "min", "max", "abs", "range", "float", "bool", "sum") and not any(is_unknown(a) for a in args) and not e.keywords:
                try:
                    r = __builtins__[name](*args) if isinstance(__builtins__, dict) else getattr(__builtins__, name)(*args)
                    return list(r) if name == "range" else r
                except Exception as ex:
                    return Unknown(str(ex))
            if isinstance(fn, ast.Attribute) and fn.attr in ("items", "keys", "values", "copy") and not e.keywords and not args:
                base = f(fn.value)
                if isinstance(base, dict) and not isinstance(base, Unknown):
                    return dict(base) if fn.attr == "copy" else list(getattr(base, fn.attr)())
            if isinstance(fn, ast.Attribute) and fn.attr in ("format", "join", "lower", "upper", "encode", "split", "replace", "strip") and not e.keywords:
                base = f(fn.value)
                if isinstance(base, (str, bytes)) and not any(is_unknown(a) for a in args):
                    try:
                        return getattr(base, fn.attr)(*args)
                    except Exception as ex:
                        return Unknown(str(ex))
            r = None
            if name:
                r = module.resolve_name(name)
            if r and r[0] == "class" and self.is_enum(r[1]) and len(args) == 1:
                for m in self.enum_members(r[1]).values():
                    if m == args[0]:
                        return m
            return Unknown("call %s" % ast.unparse(e)[:60])
        if isinstance(e, ast.IfExp):
            t = f(e.test)
            if isinstance(t, Unknown):
                return t
            return f(e.body) if t else f(e.orelse)
        if isinstance(e, ast.Compare) and len(e.ops) == 1:
            a, b = f(e.left), f(e.comparators[0])
            if is_unknown(a) or is_unknown(b):
                return Unknown("compare")
            try:
                op = e.ops[0]
                return {ast.Eq: operator.eq, ast.NotEq: operator.ne, ast.Lt: operator.lt, ast.LtE: operator.le,
                        ast.Gt: operator.gt, ast.GtE: operator.ge, ast.In: lambda x, y: x in y,
                        ast.NotIn: lambda x, y: x not in y, ast.Is: operator.is_, ast.IsNot: operator.is_not}[type(op)](a, b)
            except Exception as ex:
                return Unknown(str(ex))
        if isinstance(e, ast.JoinedStr):
            parts = []
            for v in e.values:
                if isinstance(v, ast.Constant):
                    parts.append(str(v.value))
                else:
                    return Unknown("f-string")
            return "".join(parts)
        if isinstance(e, (ast.ListComp, ast.SetComp, ast.GeneratorExp, ast.DictComp)) and len(e.generators) == 1:
            g = e.generators[0]
            it = f(g.iter)
            if is_unknown(it) or not isinstance(it, (list, tuple, set, dict, range, str, bytes)):
                return Unknown("comprehension iter")
            out = []
            for item in it:
                L2 = dict(L)
                if not _bind(g.target, item, L2):
                    return Unknown("comprehension target")
                ok = True
                for c in g.ifs:
                    cv = self.fold(c, module, L2)
                    if isinstance(cv, Unknown):
                        return cv
                    ok = ok and bool(cv)
                if not ok:
                    continue
                if isinstance(e, ast.DictComp):
                    out.append((self.fold(e.key, module, L2), self.fold(e.value, module, L2)))
                else:
                    out.append(self.fold(e.elt, module, L2))
            if isinstance(e, ast.DictComp):
                try:
                    return dict(out)
                except TypeError:
                    return Unknown("dictcomp key")
            if isinstance(e, ast.SetComp):
                try:
                    return set(out)
                except TypeError:
                    return Unknown("setcomp elt")
            return out
        if isinstance(e, ast.Lambda):
            return Unknown("lambda")
        return Unknown("expr %s" % type(e).__name__)


def _bind(target, value, env):
    if isinstance(target, ast.Name):
        env[target.id] = value
        return True
    if isinstance(target, (ast.Tuple, ast.List)):
        try:
            vals = list(value)
        except TypeError:
            return False
        if len(vals) != len(target.elts):
            return False
        return all(_bind(t, v, env) for t, v in zip(target.elts, vals))
    return False
