"""C38 -- cleaned file names are portable.

Fact-preservation analysis of `androguard.misc.clean_file_name` by a small
path-sensitive abstract interpreter over its body (no execution).  A string
value is abstracted by

    may   : set of code points that can occur in it      (regex classes via regexlang)
    last  : set of code points its last character can be
    nonempty, and an upper bound of its length as a max of linear forms over
    symbolic lengths (len(ext), ...)

Transfer functions are derived from the *meaning* of each statement:
`re.sub(P, r, x)` is a character cleaner when every match of P is exactly one
character (set taken from the regex AST), a tail cleaner when P is such a set
followed by `$`/`\\Z`; `x[:N]` is a cut (length <= N only if N is provably >= 0;
the last character becomes arbitrary); `format`/`+`/`%` concatenate;
`rsplit`/`split`/`splitext` produce sub-strings; `if len(x) > N` refines the
bound on the else branch; `if re.match(P, replace): raise` refines the
replacement; `while os.path.isfile(os.path.join(d, f))` establishes
"join(d, f) is not an existing file" on exit, killed by any later assignment.

At every `return` the five facts of the property must hold:
  chars  -- no character of  < > : " / \\ | ? *  or 0x00-0x1f in the name
  tail   -- the name does not end with space or dot
  len    -- at most 230 characters
  dir    -- the result is os.path.join(<directory part of the input>, name), name has no separator
  unique -- if `unique` is truthy the result was tested not to be an existing file after its last change
A failing fact is reported at the statement that destroys it (or at the last
statement that attempts to establish it).
"""
from __future__ import annotations

import ast
from dataclasses import dataclass, field, replace as dc_replace

from ..model import AnalysisError, norm, dotted, walk_no_nested
from .. import regexlang as RL
from ..regexlang import CharSet

MISC = "androguard/misc.py"
OWN_MUTATION_ADEQUACY = True  # the thorough tier runs its own in-memory mutants
RESERVED = CharSet.of('<>:"/\\|?*') | CharSet.range(0, 0x1F)
TAIL_BAD = CharSet.of(" .")
SEPS = CharSet.of("/\\")
MAXLEN = 230
FULL = CharSet.full()
FACTS = ("chars", "tail", "len", "dir", "unique")


def _err(msg):
    raise AnalysisError("clean_file_name: " + msg)


# ---------------------------------------------------------------------------
# linear forms over symbolic lengths; a bound is the max of a set of forms
# ---------------------------------------------------------------------------
class Atoms:
    def __init__(self):
        self.hi = {}
        self.names = {}

        self.by_key = {}

    def new(self, name, hi=None, key=None):
        """one atom per (program site, role, bound): re-evaluating a site yields the same symbol"""
        k = (key, name, hi)
        if key is not None and k in self.by_key:
            return self.by_key[k]
        i = len(self.hi) + 1
        self.hi[i] = hi
        self.names[i] = name
        if key is not None:
            self.by_key[k] = i
        return i


def lin(const=0, **kw):
    return (const, ())


def lin_atom(a):
    return (0, ((a, 1),))


def lin_add(x, y, sign=1):
    d = dict(x[1])
    for a, c in y[1]:
        d[a] = d.get(a, 0) + sign * c
    return (x[0] + sign * y[0], tuple(sorted((a, c) for a, c in d.items() if c)))


def lin_scale(x, k):
    return (x[0] * k, tuple((a, c * k) for a, c in x[1] if c * k))


def lin_max(x, atoms):
    v = x[0]
    for a, c in x[1]:
        if c > 0:
            if atoms.hi[a] is None:
                return None
            v += c * atoms.hi[a]
    return v


def lin_min(x, atoms):
    v = x[0]
    for a, c in x[1]:
        if c < 0:
            if atoms.hi[a] is None:
                return None  # -inf
            v += c * atoms.hi[a]
    return v


def mx_add(A, B, sign=1):
    if sign == 1:
        return frozenset(lin_add(a, b) for a in A for b in B)
    if len(B) != 1:
        return None
    b = next(iter(B))
    return frozenset(lin_add(a, b, -1) for a in A)


def mx_max(A, atoms):
    """max value of max(A) -> int or None (unbounded)"""
    out = None
    for a in A:
        v = lin_max(a, atoms)
        if v is None:
            return None
        out = v if out is None else max(out, v)
    return out


def mx_nonneg(A, atoms):
    for a in A:
        v = lin_min(a, atoms)
        if v is not None and v >= 0:
            return True
    return False


def mx_show(A, atoms):
    def one(l):
        parts = [str(l[0])] if l[0] or not l[1] else []
        for a, c in l[1]:
            parts.append(("%+d*" % c if abs(c) != 1 else ("+" if c > 0 else "-")) + atoms.names[a])
        return " ".join(parts).lstrip("+")
    xs = sorted(one(l) for l in A)
    return xs[0] if len(xs) == 1 else "max(%s)" % ", ".join(xs)


# ---------------------------------------------------------------------------
# abstract values
# ---------------------------------------------------------------------------
@dataclass(frozen=True)
class S:
    """a string"""
    may: CharSet = FULL
    last: CharSet = FULL
    nonempty: bool = False
    ub: frozenset | None = None       # len <= max(ub)
    exact: frozenset | None = None    # len == max(exact)   (a single form unless built with max())
    tag: str | None = None            # 'param0' for the untouched input path
    hist: tuple = field(default=(), compare=False)


@dataclass(frozen=True)
class I:
    """an int; val = max of linear forms, or None when unknown"""
    val: frozenset | None = None


@dataclass(frozen=True)
class PathDir:
    """directory component of the input path"""
    pass


@dataclass(frozen=True)
class Tup:
    items: tuple


@dataclass(frozen=True)
class JoinV:
    """os.path.join(d, name)"""
    d: object
    name: object
    dvar: str | None
    nvar: str | None


@dataclass(frozen=True)
class Top:
    what: str = "?"


def const_str(s):
    cs = CharSet.of(s)
    n = frozenset([(len(s), ())])
    return S(cs, CharSet.of(s[-1:]) if s else CharSet.EMPTY, bool(s), n, n)


def digits_str():
    return S(CharSet.of("0123456789-"), CharSet.of("0123456789"), True, None, None)


def concat(a: S, b: S):
    may = a.may | b.may
    last = b.last if b.nonempty else (b.last | a.last)
    ub = mx_add(a.ub, b.ub) if a.ub is not None and b.ub is not None else None
    exact = mx_add(a.exact, b.exact) if a.exact is not None and b.exact is not None else None
    if ub is not None and len(ub) > 16:
        ub = None
    return S(may, last, a.nonempty or b.nonempty, ub, exact)


@dataclass
class State:
    env: dict
    falsy: frozenset = frozenset()          # names known to be falsy on this path
    notexist: frozenset = frozenset()       # (dvar, nvar): join(dvar, nvar) tested not to be an existing file
    killed_by: object = None                # statement that invalidated the last uniqueness test

    def key(self):
        return (tuple(sorted(self.env.items(), key=lambda kv: kv[0])), self.falsy, self.notexist)

    def copy(self):
        return State(dict(self.env), self.falsy, self.notexist, self.killed_by)


# ---------------------------------------------------------------------------
class Opaque(Exception):
    """the value of an unknown call is used as (part of) a string: the whole expression is unknown"""

    def __init__(self, top):
        self.top = top


class Interp:
    def __init__(self, fnode, sink, helpers=None):
        self.helpers = helpers or {}
        self.inlining = 0
        self.fn = fnode
        self.sink = sink
        self.atoms = Atoms()
        self.returns = []  # (state, node, value)
        self.in_loop = 0
        self.stats = dict(char_cleaners=0, tail_cleaners=0, cuts=0, refinements=0, uniq_loops=0, guards=0, concat=0, splits=0)
        self.seen_sites = {k: set() for k in self.stats}
        self.notes = []
        a = fnode.args
        self.params = [x.arg for x in a.posonlyargs + a.args]
        if not self.params:
            _err("no parameters")
        self.p0 = self.params[0]
        allp = self.params + [x.arg for x in a.kwonlyargs]
        for need in ("unique", "replace"):
            if need not in allp:
                _err("parameter %r vanished" % need)
        # default of `replace` must itself satisfy the single-character assumption
        defaults = dict(zip(reversed(self.params), reversed(a.defaults)))
        d = defaults.get("replace")
        if d is not None and not (isinstance(d, ast.Constant) and isinstance(d.value, str) and len(d.value) == 1):
            _err("default of `replace` is not a one-character literal")

    def site(self, kind, node):
        if id(node) not in self.seen_sites[kind]:
            self.seen_sites[kind].add(id(node))
            self.stats[kind] += 1

    # ---- initial state ---------------------------------------------------
    def initial(self):
        env = {}
        one = frozenset([(1, ())])
        for p in self.params + [x.arg for x in self.fn.args.kwonlyargs]:
            if p == self.p0:
                env[p] = S(tag="param0")
            elif p == "replace":
                env[p] = S(FULL, FULL, True, one, one)
            else:
                env[p] = Top("param " + p)
        return State(env)

    # ---- expressions -----------------------------------------------------
    def ev(self, e, st, stmt):
        try:
            return self.ev1(e, st, stmt)
        except Opaque as o:
            return o.top

    def ev1(self, e, st, stmt):
        if isinstance(e, ast.Constant):
            if isinstance(e.value, str):
                return const_str(e.value)
            if type(e.value) is int:
                return I(frozenset([(e.value, ())]))
            return Top("const")
        if isinstance(e, ast.Name):
            if e.id in st.env:
                return st.env[e.id]
            return Top("global " + e.id)
        if isinstance(e, ast.JoinedStr):
            acc = const_str("")
            for v in e.values:
                if isinstance(v, ast.Constant):
                    acc = concat(acc, const_str(v.value))
                elif isinstance(v, ast.FormattedValue) and v.format_spec is None and v.conversion == -1:
                    acc = concat(acc, self.as_str(self.ev(v.value, st, stmt)))
                else:
                    acc = concat(acc, S())
            return self.derived(acc, stmt, [], None)
        if isinstance(e, ast.BinOp):
            l, r = self.ev(e.left, st, stmt), self.ev(e.right, st, stmt)
            if isinstance(e.op, ast.Add):
                if isinstance(l, S) and isinstance(r, S):
                    self.site("concat", e)
                    return self.derived(concat(l, r), stmt, [l, r], None)
                if isinstance(l, I) and isinstance(r, I) and l.val is not None and r.val is not None:
                    return I(mx_add(l.val, r.val))
                if isinstance(l, S) or isinstance(r, S):
                    return self.derived(concat(self.as_str(l, strict=False), self.as_str(r, strict=False)), stmt, [l, r], None)
                return I()
            if isinstance(e.op, ast.Sub) and isinstance(l, I) and isinstance(r, I):
                if l.val is not None and r.val is not None:
                    v = mx_add(l.val, r.val, -1)
                    return I(v)
                return I()
            if isinstance(e.op, ast.Mod) and isinstance(l, S) and isinstance(e.left, ast.Constant):
                return self.percent(e.left.value, e.right, st, stmt)
            if isinstance(l, I) or isinstance(r, I):
                return I()
            return Top("binop")
        if isinstance(e, ast.IfExp):
            a, b = self.ev(e.body, st, stmt), self.ev(e.orelse, st, stmt)
            if isinstance(a, S) and isinstance(b, S):
                ub = (a.ub | b.ub) if a.ub is not None and b.ub is not None else None
                return self.derived(S(a.may | b.may, a.last | b.last, a.nonempty and b.nonempty, ub, None), stmt, [a, b], None)
            return Top("ifexp")
        if isinstance(e, ast.Subscript):
            return self.subscript(e, st, stmt)
        if isinstance(e, ast.Call):
            return self.call(e, st, stmt)
        if isinstance(e, ast.Tuple):
            return Tup(tuple(self.ev(x, st, stmt) for x in e.elts))
        if isinstance(e, ast.Attribute):
            return Top(dotted(e) or "attr")
        if isinstance(e, (ast.Compare, ast.BoolOp, ast.UnaryOp)):
            return Top("bool")
        return Top(type(e).__name__)

    def as_str(self, v, strict=True):
        if isinstance(v, S):
            return v
        if isinstance(v, I):
            return digits_str()
        if isinstance(v, Top) and v.what.startswith("call "):
            raise Opaque(v)
        return S()

    def derived(self, new: S, stmt, inputs, attempt):
        """attach provenance: history of the primary string input + this step"""
        hist = ()
        for i in inputs:
            if isinstance(i, S) and i.hist:
                hist = i.hist
                break
        att = frozenset([attempt]) if attempt else frozenset()
        if hist and hist[-1][0] is stmt:
            att = att | hist[-1][2]
            hist = hist[:-1]
        return dc_replace(new, hist=hist + ((stmt, self.facts(new), att),))

    def facts(self, v: S):
        ln = v.ub is not None and mx_max(v.ub, self.atoms) is not None and mx_max(v.ub, self.atoms) <= MAXLEN
        return dict(chars=not (v.may & RESERVED), tail=not (v.last & TAIL_BAD), len=ln)

    # ---- string formatting ---------------------------------------------------
    def format_pieces(self, fmt, args, kwargs, stmt):
        import string
        acc = const_str("")
        auto = 0
        try:
            parsed = list(string.Formatter().parse(fmt))
        except ValueError:
            return S()
        for lit, fieldname, spec, conv in parsed:
            if lit:
                acc = concat(acc, const_str(lit))
            if fieldname is None:
                continue
            if spec or conv:
                acc = concat(acc, S())
                continue
            if fieldname == "":
                idx = auto
                auto += 1
                v = args[idx] if idx < len(args) else Top()
            elif fieldname.isdigit():
                v = args[int(fieldname)] if int(fieldname) < len(args) else Top()
            elif fieldname in kwargs:
                v = kwargs[fieldname]
            else:
                v = Top()
            acc = concat(acc, self.as_str(v))
        return acc

    def percent(self, fmt, right, st, stmt):
        vals = [self.ev(x, st, stmt) for x in right.elts] if isinstance(right, ast.Tuple) else [self.ev(right, st, stmt)]
        acc = const_str("")
        i = 0
        k = 0
        while i < len(fmt):
            if fmt[i] == "%" and i + 1 < len(fmt):
                c = fmt[i + 1]
                if c == "%":
                    acc = concat(acc, const_str("%"))
                elif c in "sd" and k < len(vals):
                    acc = concat(acc, self.as_str(vals[k]))
                    k += 1
                else:
                    return self.derived(S(), stmt, vals, None)
                i += 2
            else:
                acc = concat(acc, const_str(fmt[i]))
                i += 1
        return self.derived(acc, stmt, vals, None)

    # ---- subscripts ---------------------------------------------------------
    def fresh_exact(self, name, ub, site=None):
        hi = mx_max(ub, self.atoms) if ub is not None else None
        a = self.atoms.new(name, hi, id(site) if site is not None else None)
        return frozenset([lin_atom(a)])

    def subscript(self, e, st, stmt):
        x = self.ev(e.value, st, stmt)
        if isinstance(x, Tup) and isinstance(e.slice, ast.Constant) and type(e.slice.value) is int and -len(x.items) <= e.slice.value < len(x.items):
            return x.items[e.slice.value]
        if not isinstance(x, S):
            return x if isinstance(x, Top) and x.what.startswith("call ") else Top("subscript")
        sl = e.slice
        if not isinstance(sl, ast.Slice):
            one = frozenset([(1, ())])
            return self.derived(S(x.may, x.may, True, one, one), stmt, [x], None)
        if sl.step is not None:
            return self.derived(S(x.may, x.may, False, x.ub, None), stmt, [x], "len")
        if sl.upper is None:
            # suffix x[k:]: the last character is kept when anything is left
            return self.derived(S(x.may, x.last, False, x.ub, None), stmt, [x], None)
        self.site("cuts", e)
        n = self.ev(sl.upper, st, stmt)
        ub = x.ub
        why = None
        if isinstance(n, I) and n.val is not None:
            if mx_nonneg(n.val, self.atoms):
                cand = n.val
                if ub is None:
                    ub = cand
                else:
                    a, b = mx_max(cand, self.atoms), mx_max(ub, self.atoms)
                    if b is None or (a is not None and a <= b):
                        ub = cand
            else:
                why = "the bound %s can be negative, so the slice only removes characters from the end and guarantees no length" % mx_show(n.val, self.atoms)
        else:
            why = "the bound %s is not a known non-negative quantity" % norm(sl.upper)
        lower_free = sl.lower is None or (isinstance(sl.lower, ast.Constant) and sl.lower.value in (0, None))
        new = S(x.may, x.may, False, ub, None)
        new = dc_replace(new, exact=self.fresh_exact("len(%s)" % norm(e)[:30], ub, e))
        out = self.derived(new, stmt, [x], "len")
        if why:
            self.notes.append((stmt, why))
        return out

    # ---- calls ---------------------------------------------------------------
    def regex_of(self, parg, st):
        if isinstance(parg, ast.Name):
            v = None
            for n in walk_no_nested(self.fn):
                if isinstance(n, ast.Assign) and len(n.targets) == 1 and isinstance(n.targets[0], ast.Name) and n.targets[0].id == parg.id:
                    v = n.value if v is None else False
            parg = v if v not in (None, False) else parg
        if isinstance(parg, ast.Constant) and isinstance(parg.value, str):
            try:
                return RL.Regex(parg.value)
            except RL.Unsupported:
                return None
        return None

    def call(self, e, st, stmt):
        d = dotted(e.func)
        args = e.args
        if d == "len" and len(args) == 1:
            v = self.ev(args[0], st, stmt)
            if isinstance(v, S) and v.exact is not None:
                return I(v.exact)
            return I()
        if d == "str" and len(args) == 1:
            v = self.ev(args[0], st, stmt)
            return v if isinstance(v, S) else self.as_str(v)
        if d in ("max", "min") and len(args) == 2 and not e.keywords:
            a, b = self.ev(args[0], st, stmt), self.ev(args[1], st, stmt)
            if d == "max" and isinstance(a, I) and isinstance(b, I) and a.val is not None and b.val is not None:
                return I(a.val | b.val)
            return I()
        if d == "re.sub" and len(args) >= 3:
            return self.re_sub(e, st, stmt)
        if d == "os.path.split" and len(args) == 1:
            v = self.ev(args[0], st, stmt)
            if isinstance(v, S) and v.tag == "param0":
                base = S(FULL - CharSet.of("/"), FULL - CharSet.of("/"), False, None, None)
                return Tup((PathDir(), self.derived(base, stmt, [], None)))
            return Tup((Top("dir"), S()))
        if d == "os.path.dirname" and len(args) == 1:
            v = self.ev(args[0], st, stmt)
            return PathDir() if isinstance(v, S) and v.tag == "param0" else Top("dir")
        if d == "os.path.basename" and len(args) == 1:
            v = self.ev(args[0], st, stmt)
            if isinstance(v, S):
                return self.derived(S(v.may - CharSet.of("/"), v.last - CharSet.of("/"), False, v.ub, None), stmt, [v], None)
            return S()
        if d == "os.path.join" and len(args) == 2:
            a, b = self.ev(args[0], st, stmt), self.ev(args[1], st, stmt)
            return JoinV(a, b, args[0].id if isinstance(args[0], ast.Name) else None, args[1].id if isinstance(args[1], ast.Name) else None)
        if d == "os.path.splitext" and len(args) == 1:
            v = self.ev(args[0], st, stmt)
            if isinstance(v, S):
                return self.split_parts(v, CharSet.of("."), stmt, keep_sep_in_last=True)
            return Tup((S(), S()))
        if isinstance(e.func, ast.Attribute):
            recv = e.func.value
            meth = e.func.attr
            if isinstance(recv, ast.Constant) and isinstance(recv.value, str) and meth == "format":
                vals = [self.ev(a, st, stmt) for a in args]
                kw = {k.arg: self.ev(k.value, st, stmt) for k in e.keywords if k.arg}
                self.site("concat", e)
                return self.derived(self.format_pieces(recv.value, vals, kw, stmt), stmt, vals + list(kw.values()), None)
            x = self.ev(recv, st, stmt)
            if isinstance(x, S):
                if meth in ("rsplit", "split") and len(args) == 2 and isinstance(args[0], ast.Constant) and isinstance(args[0].value, str) \
                        and args[0].value and isinstance(args[1], ast.Constant) and args[1].value == 1:
                    if len(args[0].value) == 1:
                        return self.split_parts(x, CharSet.of(args[0].value), stmt, right=(meth == "rsplit"))
                    return Tup((self.sub_any(x, stmt), self.sub_any(x, stmt)))
                if meth in ("rstrip", "strip") and len(args) <= 1:
                    if not args:
                        cs = RL.category_set("CATEGORY_SPACE", False)
                    elif isinstance(args[0], ast.Constant) and isinstance(args[0].value, str):
                        cs = CharSet.of(args[0].value)
                    else:
                        return self.sub_any(x, stmt)
                    self.site("tail_cleaners", e)
                    return self.derived(S(x.may, x.may - cs, False, x.ub, None), stmt, [x], "tail")
                if meth == "replace" and len(args) == 2 and all(isinstance(a, ast.Constant) and isinstance(a.value, str) for a in args) and len(args[0].value) == 1:
                    old, new = CharSet.of(args[0].value), const_str(args[1].value)
                    return self.char_sub(x, old, new, stmt)
                if meth in ("lower", "upper", "casefold", "title", "swapcase", "capitalize"):
                    return self.derived(S(FULL if x.may != CharSet.EMPTY else x.may, FULL, x.nonempty, None, None), stmt, [x], None)
                if meth in ("lstrip",):
                    return self.derived(S(x.may, x.last, False, x.ub, None), stmt, [x], None)
                return self.derived(S(), stmt, [x], None)
        # a one-expression helper of the same module is evaluated on the abstract arguments
        h = self.helpers.get(d) if isinstance(e.func, ast.Name) else None
        if h is not None and self.inlining < 3 and not e.keywords:
            body = [b for b in h.body if not (isinstance(b, ast.Expr) and isinstance(b.value, ast.Constant))]
            hp = [a.arg for a in h.args.posonlyargs + h.args.args]
            if len(body) == 1 and isinstance(body[0], ast.Return) and body[0].value is not None and len(hp) == len(args) \
                    and not h.args.vararg and not h.args.kwarg and not h.args.kwonlyargs:
                sub = State({k: self.ev(a, st, stmt) for k, a in zip(hp, args)})
                self.inlining += 1
                try:
                    return self.ev(body[0].value, sub, stmt)
                finally:
                    self.inlining -= 1
        # unknown call: value unknown; if it ends up in the returned name the analysis gives up (exit 2)
        return Top("call " + (d or "?"))

    def sub_any(self, x, stmt):
        return self.derived(S(x.may, x.may, False, x.ub, self.fresh_exact("len(part)", x.ub, stmt)), stmt, [x], None)

    def split_parts(self, x, sep, stmt, right=True, keep_sep_in_last=False):
        """(head, tail) of x split once at `sep`"""
        self.site("splits", stmt)
        head = S(x.may, x.may, False, x.ub, self.fresh_exact("len(head)", x.ub, stmt))
        if right:
            # tail = what follows the last separator: empty iff x ends with it; it contains no separator
            t_may = x.may if keep_sep_in_last else (x.may - sep)
            t_last = x.last if keep_sep_in_last else (x.last - sep)
            t_nonempty = not (x.last & sep) if not keep_sep_in_last else False
            tail = S(t_may, t_last, t_nonempty, x.ub, None)
        else:
            tail = S(x.may, x.last, False, x.ub, None)
        tail = dc_replace(tail, exact=self.fresh_exact("len(ext)" if right else "len(rest)", x.ub, stmt))
        return Tup((self.derived(head, stmt, [x], None), self.derived(tail, stmt, [x], None)))

    def char_sub(self, x, cs, r, stmt):
        """every character of cs in x is replaced by r"""
        hit = bool(x.may & cs)
        may = (x.may - cs) | (r.may if hit else CharSet.EMPTY)
        if not (x.last & cs):
            last = x.last
        elif r.nonempty:
            last = (x.last - cs) | r.last
        else:
            last = may
        keeps_len = r.ub is not None and mx_max(r.ub, self.atoms) is not None and mx_max(r.ub, self.atoms) <= 1
        nonempty = x.nonempty and r.nonempty
        return self.derived(S(may, last, nonempty, x.ub if keeps_len else None, x.exact if (keeps_len and r.nonempty) else None), stmt, [x], "chars")

    def re_sub(self, e, st, stmt):
        args = e.args
        x = self.ev(args[2], st, stmt)
        r = self.ev(args[1], st, stmt)
        if not isinstance(x, S):
            return self.as_str(x)
        if not isinstance(r, S) or len(args) > 3 or e.keywords:
            return self.derived(S(), stmt, [x], None)
        rx = self.regex_of(args[0], st)
        if rx is None:
            return self.derived(S(FULL, FULL, False, None, None), stmt, [x], None)
        try:
            cs = RL.single_char_language(rx)
            tc = RL.trailing_char_class(rx) if cs is None else None
        except RL.Unsupported:
            cs = tc = None
        if cs is not None:
            self.site("char_cleaners", e)
            return self.char_sub(x, cs, r, stmt)
        if tc is not None:
            self.site("tail_cleaners", e)
            tset, kind = tc
            may = x.may | (r.may if (x.may & tset) else CharSet.EMPTY)
            if not (x.last & tset):
                last = x.last
            elif r.nonempty:
                last = (x.last - tset) | r.last
            else:
                last = may
            keeps_len = r.ub is not None and mx_max(r.ub, self.atoms) is not None and mx_max(r.ub, self.atoms) <= 1
            return self.derived(S(may, last, x.nonempty and r.nonempty, x.ub if keeps_len else None,
                                  x.exact if (keeps_len and r.nonempty) else None), stmt, [x], "tail")
        # some other substitution: result may contain anything of x and r, any length
        return self.derived(S(x.may | r.may, x.may | r.may, False, None, None), stmt, [x], None)

    # ---- statements ----------------------------------------------------------
    def assign(self, st, name, val, stmt):
        if self.in_loop and isinstance(val, I) and val.val is not None and not (isinstance(stmt, ast.Assign) and isinstance(stmt.value, ast.Constant)):
            val = I()  # widening: counters computed inside a loop are unknown
        st.env[name] = val
        if name in st.falsy:
            st.falsy = st.falsy - {name}
        dead = {p for p in st.notexist if name in p}
        if dead:
            st.notexist = st.notexist - dead
            st.killed_by = stmt

    def block(self, stmts, states):
        for s in stmts:
            if not states:
                break
            states = self.stmt(s, states)
        return states

    def dedupe(self, states):
        out, seen = [], set()
        for s in states:
            k = s.key()
            if k not in seen:
                seen.add(k)
                out.append(s)
        if len(out) > 600:
            _err("more than 600 abstract path states (outside the fragment)")
        return out

    def stmt(self, s, states):
        if isinstance(s, ast.Expr):
            return states  # docstring / call for effect: strings are immutable, nothing tracked changes
        if isinstance(s, (ast.Assign, ast.AnnAssign)):
            out = []
            targets = s.targets if isinstance(s, ast.Assign) else [s.target]
            if isinstance(s, ast.AnnAssign) and s.value is None:
                return states
            for st in states:
                st = st.copy()
                v = self.ev(s.value, st, s)
                for t in targets:
                    if isinstance(t, ast.Name):
                        self.assign(st, t.id, v, s)
                    elif isinstance(t, (ast.Tuple, ast.List)) and all(isinstance(x, ast.Name) for x in t.elts):
                        items = v.items if isinstance(v, Tup) and len(v.items) == len(t.elts) else [Top("unpack")] * len(t.elts)
                        for x, iv in zip(t.elts, items):
                            self.assign(st, x.id, iv, s)
                    else:
                        _err("assignment target %s is outside the fragment" % norm(t))
                out.append(st)
            return self.dedupe(out)
        if isinstance(s, ast.AugAssign):
            if not isinstance(s.target, ast.Name):
                _err("augmented assignment to %s is outside the fragment" % norm(s.target))
            out = []
            for st in states:
                st = st.copy()
                fake = ast.BinOp(left=ast.Name(id=s.target.id, ctx=ast.Load()), op=s.op, right=s.value)
                self.assign(st, s.target.id, self.ev(fake, st, s), s)
                out.append(st)
            return self.dedupe(out)
        if isinstance(s, ast.If):
            t_states, f_states = [], []
            for st in states:
                a, b = self.branch(s.test, st, s)
                t_states += a
                f_states += b
            return self.dedupe(self.block(s.body, self.dedupe(t_states)) + self.block(s.orelse, self.dedupe(f_states)))
        if isinstance(s, ast.While):
            return self.loop(s, states)
        if isinstance(s, ast.Return):
            for st in states:
                self.returns.append((st, s, self.ev(s.value, st, s) if s.value is not None else Top("None")))
            return []
        if isinstance(s, ast.Raise):
            return []
        if isinstance(s, ast.Pass):
            return states
        if isinstance(s, (ast.Import, ast.ImportFrom)):
            return states
        _err("statement `%s` is outside the analysable fragment" % norm(s)[:60])

    def branch(self, test, st, stmt):
        """-> (states on true, states on false)"""
        if isinstance(test, ast.UnaryOp) and isinstance(test.op, ast.Not):
            a, b = self.branch(test.operand, st, stmt)
            return b, a
        if isinstance(test, ast.Name):
            if test.id in st.falsy:
                return [], [st]
            f = st.copy()
            f.falsy = f.falsy | {test.id}
            return [st.copy()], [f]
        if isinstance(test, ast.Constant):
            return ([st], []) if test.value else ([], [st])
        # re.match(P, x) guard on a one-character string: the false branch knows x is outside the class
        if isinstance(test, ast.Call) and dotted(test.func) in ("re.match", "re.search", "re.fullmatch") and len(test.args) == 2 \
                and isinstance(test.args[1], ast.Name):
            x = st.env.get(test.args[1].id)
            rx = self.regex_of(test.args[0], st)
            one = frozenset([(1, ())])
            if isinstance(x, S) and x.exact == one and rx is not None:
                try:
                    # on a one-character subject leading ^/\\A and trailing $/\\Z change nothing
                    items = rx.top_items()
                    while items and str(items[0][0]) == "AT" and "BEGINNING" in str(items[0][1]):
                        items = items[1:]
                    while items and str(items[-1][0]) == "AT" and "END" in str(items[-1][1]):
                        items = items[:-1]
                    cs = RL.single_char_language(rx, items)
                except RL.Unsupported:
                    cs = None
                if cs is not None:
                    self.site("guards", test)
                    f = st.copy()
                    f.env[test.args[1].id] = dc_replace(x, may=x.may - cs, last=x.last - cs)
                    return [st.copy()], [f]
            return [st.copy()], [st.copy()]
        # len(x) <op> N
        if isinstance(test, ast.Compare) and len(test.ops) == 1:
            l, r = test.left, test.comparators[0]
            op = type(test.ops[0])
            flip = {ast.Gt: ast.Lt, ast.Lt: ast.Gt, ast.GtE: ast.LtE, ast.LtE: ast.GtE}
            if not (isinstance(l, ast.Call) and dotted(l.func) == "len") and isinstance(r, ast.Call) and dotted(r.func) == "len" and op in flip:
                l, r, op = r, l, flip[op]
            if isinstance(l, ast.Call) and dotted(l.func) == "len" and len(l.args) == 1 and isinstance(l.args[0], ast.Name) and op in flip:
                name = l.args[0].id
                x = st.env.get(name)
                n = self.ev(r, st, stmt)
                if isinstance(x, S) and isinstance(n, I) and n.val is not None:
                    self.site("refinements", test)
                    t, f = st.copy(), st.copy()

                    def bounded(state, bound):
                        cur = state.env[name]
                        a, b = mx_max(bound, self.atoms), (mx_max(cur.ub, self.atoms) if cur.ub is not None else None)
                        if cur.ub is None or b is None or (a is not None and a < b):
                            new = dc_replace(cur, ub=bound)
                            new = self.derived(new, stmt, [cur], "len")
                            state.env[name] = new
                            # aliases of the same value (origname = fname) are not refined: sound, merely less precise
                    minus1 = mx_add(n.val, frozenset([(1, ())]), -1)
                    if op is ast.Gt:      # false: len <= N
                        bounded(f, n.val)
                    elif op is ast.GtE and minus1 is not None:  # false: len <= N-1
                        bounded(f, minus1)
                    elif op is ast.LtE:   # true: len <= N
                        bounded(t, n.val)
                    elif op is ast.Lt and minus1 is not None:
                        bounded(t, minus1)
                    return [t], [f]
        return [st.copy()], [st.copy()]

    def uniq_test(self, test):
        """os.path.isfile/exists/lexists(os.path.join(d, n)) -> (d, n)"""
        if isinstance(test, ast.Call) and dotted(test.func) in ("os.path.isfile", "os.path.exists", "os.path.lexists") and len(test.args) == 1:
            j = test.args[0]
            if isinstance(j, ast.Call) and dotted(j.func) == "os.path.join" and len(j.args) == 2 and all(isinstance(a, ast.Name) for a in j.args):
                return (j.args[0].id, j.args[1].id)
        return None

    def loop(self, s, states):
        if s.orelse:
            _err("while/else is outside the fragment")
        for n in walk_no_nested(s):
            if isinstance(n, (ast.Break, ast.Continue)):
                _err("break/continue inside the loop is outside the fragment")
        pair = self.uniq_test(s.test)
        if pair:
            self.site("uniq_loops", s)
        head = self.dedupe(states)
        seen = {st.key() for st in head}
        frontier = head
        self.in_loop += 1
        for _ in range(8):
            t_states = []
            for st in frontier:
                a, _b = self.branch(s.test, st, s) if not pair else ([st.copy()], None)
                t_states += a
            after = self.block(s.body, self.dedupe(t_states))
            new = []
            for st in after:
                k = st.key()
                if k not in seen:
                    seen.add(k)
                    new.append(st)
            head += new
            frontier = new
            if not new:
                break
        else:
            _err("loop `while %s` does not stabilise in the abstract domain" % norm(s.test))
        self.in_loop -= 1
        out = []
        for st in head:
            if pair:
                e = st.copy()
                e.notexist = e.notexist | {pair}
                e.killed_by = None
                out.append(e)
            else:
                _a, b = self.branch(s.test, st, s)
                out += b
        return self.dedupe(out)


# ---------------------------------------------------------------------------
def analyse(fnode, sink, helpers=None):
    """run the interpreter and report the five facts"""
    it = Interp(fnode, sink, helpers)
    for n in fnode.body:
        if isinstance(n, (ast.FunctionDef, ast.AsyncFunctionDef, ast.ClassDef)):
            _err("nested definitions are outside the fragment")
    rest = it.block(fnode.body, [it.initial()])
    if rest:
        it.returns += [(st, fnode, Top("None")) for st in rest]
    if not it.returns:
        _err("no return statement reached")
    notes = {id(s): w for s, w in it.notes}
    failures = {f: {} for f in FACTS}   # fact -> construct -> (node, message)
    npaths = 0
    for st, rnode, val in it.returns:
        npaths += 1
        if isinstance(val, S) and not isinstance(rnode, ast.FunctionDef):
            # a bare name is returned: every fact about the directory is lost
            failures["dir"].setdefault(norm(rnode), (rnode, "the function returns %s, not os.path.join(<directory of the input>, <name>)" % norm(rnode.value)))
            name, dvar, nvar, dval = val, None, None, None
        elif isinstance(val, JoinV) and isinstance(val.name, S):
            name, dvar, nvar, dval = val.name, val.dvar, val.nvar, val.d
            ok_dir = isinstance(dval, PathDir) and not (name.may & SEPS)
            if not ok_dir:
                why = ("the directory argument is not the directory part of the input path" if not isinstance(dval, PathDir)
                       else "the name can contain a path separator, so the result can leave the input's directory")
                failures["dir"].setdefault(norm(rnode), (rnode, "`%s`: %s" % (norm(rnode), why)))
        else:
            inner = val.name if isinstance(val, JoinV) else val
            if isinstance(inner, Top) and inner.what.startswith("call "):
                _err("the result of `%s(...)`, which this analysis cannot interpret, flows into the returned name (outside the fragment)" % inner.what[5:])
            _err("returned value `%s` is outside the fragment (not a name string / os.path.join(dir, name))" % norm(rnode)[:80])
        f = it.facts(name)
        for fact in ("chars", "tail", "len"):
            if f[fact]:
                continue
            node, attempt_only = _blame(name, fact, rnode)
            msg = _message(fact, name, node, attempt_only, it, notes)
            failures[fact].setdefault(norm(node), (node, msg))
        if not ("unique" in st.falsy or (dvar, nvar) in st.notexist):
            node = st.killed_by if st.killed_by is not None else rnode
            msg = ("`%s` changes the name after the last `isfile` test, the returned path was never tested" % norm(node)
                   if st.killed_by is not None else
                   "with unique=True the returned path is not tested against existing files (no `while os.path.isfile(os.path.join(dir, name))` exit precedes the return)")
            failures["unique"].setdefault(norm(node), (node, msg))
    return it, failures, npaths


def _blame(v: S, fact, rnode):
    h = v.hist
    i = len(h) - 1
    while i >= 0 and not h[i][1][fact]:
        i -= 1
    if i >= 0 and i + 1 < len(h):
        return h[i + 1][0], False
    # never established on this path: blame the first statement that tries to establish it
    for stmt, facts, att in h:
        if fact in att:
            return stmt, True
    return rnode, True


def _message(fact, v, node, attempt_only, it, notes):
    src = norm(node)
    extra = notes.get(id(node))
    if fact == "chars":
        bad = v.may & RESERVED
        if attempt_only:
            return "`%s` does not remove every reserved/control character: %s can remain in the returned name" % (src, bad.describe())
        return "`%s` can (re)introduce reserved/control characters %s into the returned name" % (src, bad.describe())
    if fact == "tail":
        bad = v.last & TAIL_BAD
        if attempt_only:
            return "`%s` does not guarantee that the name does not end with %s" % (src, bad.describe())
        return "`%s` runs after the trailing space/dot was cleaned and can expose %s as the last character again" % (src, bad.describe())
    if fact == "len":
        bound = "unbounded" if v.ub is None or mx_max(v.ub, it.atoms) is None else "<= %s" % mx_max(v.ub, it.atoms)
        if extra:
            return "`%s`: %s (returned length %s, limit %d)" % (src, extra, bound, MAXLEN)
        if attempt_only:
            return "`%s` does not bound the returned name to %d characters (length %s)" % (src, MAXLEN, bound)
        return "`%s` lengthens the name after it was cut to %d characters (returned length %s)" % (src, MAXLEN, bound)
    return src


def canon(node, fnode):
    """rename-proof text of a statement: locals of the function are numbered in order of appearance inside the
    statement (v1, v2, ...), single-assignment literal locals are replaced by their value; parameters keep their names"""
    if not isinstance(node, ast.AST):
        return norm(node)
    stores, consts = {}, {}
    for n in walk_no_nested(fnode):
        if isinstance(n, ast.Name) and isinstance(n.ctx, ast.Store):
            stores[n.id] = stores.get(n.id, 0) + 1
    for n in walk_no_nested(fnode):
        if isinstance(n, ast.Assign) and len(n.targets) == 1 and isinstance(n.targets[0], ast.Name) and stores.get(n.targets[0].id) == 1 \
                and isinstance(n.value, ast.Constant) and type(n.value.value) in (int, str):
            consts[n.targets[0].id] = n.value.value
    params = {a.arg for a in fnode.args.posonlyargs + fnode.args.args + fnode.args.kwonlyargs}
    if isinstance(node, (ast.If, ast.While)):
        node = node.test
    t = ast.parse(ast.unparse(node)).body[0]
    names = {}

    class R(ast.NodeTransformer):
        def visit_Name(self, n):
            if n.id in params or n.id not in stores:
                return n
            if n.id in consts and isinstance(n.ctx, ast.Load):
                return ast.copy_location(ast.Constant(consts[n.id]), n)
            if n.id not in names:
                names[n.id] = "v%d" % (len(names) + 1)
            return ast.copy_location(ast.Name(names[n.id], n.ctx), n)
    t = R().visit(t)
    return norm(t)


class Sink:
    def __init__(self, ctx=None, func=None):
        self.ctx = ctx
        self.func = func
        self.failed = {}

    def check(self, rule, instance, ok, construct, message, node=None, detail=""):
        if not ok:
            self.failed[(rule, norm(construct))] = message
        if self.ctx is not None:
            self.ctx.check(rule, instance, ok, self.func, construct, message, node=node, detail=detail)


def core(sink, fnode, helpers=None):
    it, failures, npaths = analyse(fnode, sink, helpers)
    for fact in FACTS:
        bad = failures[fact]
        if not bad:
            sink.check("fact/" + fact, "%s holds at every return" % fact, True, "return", "",
                       detail="%s established on all %d abstract return paths" % (fact, npaths))
        for construct, (node, msg) in bad.items():
            sink.check("fact/" + fact, "%s: %s" % (fact, construct[:60]), False, canon(node, fnode) if not isinstance(node, ast.FunctionDef) else "return", msg, node=node)
    return it, failures, npaths


# ---------------------------------------------------------------------------
def run(ctx):
    ctx.explanation = __doc__
    m = ctx.mod(MISC)
    f = m.func("clean_file_name")
    ctx.analysed(f)
    ctx.require(m.imports.get("re") == ("re", None) and m.imports.get("os") == ("os", None), "`re`/`os` are not the standard modules in misc.py")
    sink = Sink(ctx, f)
    helpers = {k: v.node for k, v in m.functions.items() if "." not in k and k != f.name}
    it, failures, npaths = core(sink, f.node, helpers)
    for k, v in it.stats.items():
        ctx.count(k, v)
    ctx.count("return_paths", npaths)
    ctx.floor("return_paths", 8)
    ctx.floor("char_cleaners", 1)
    ctx.floor("tail_cleaners", 1)
    ctx.floor("cuts", 2)
    ctx.floor("guards", 1)
    ctx.floor("uniq_loops", 1)
    ctx.assume("`replace` is a single character (documented as 'replacement character', default '_'); "
               "re.match(<class>, replace) therefore tests the whole replacement")
    ctx.assume("reserved set: < > : \" / \\ | ? * and U+0000-U+001F; limit 230 = PATH_MAX_LENGTH of the function")
    if 0x7F not in RESERVED:
        ctx.note("DEL (0x7f) and C1 controls are not in the cleaned class; the property's reserved set as fixed in DESIGN does not include them (noted, not flagged)")
    ctx.note("not decided: reserved DOS device names (CON, PRN, ...), an empty resulting name, os.path.isfile race between test and use")
    if ctx.tier == "thorough":
        _thorough(ctx, f.node, sink, helpers)


# ---------------------------------------------------------------------------
def _clone(fnode):
    return ast.parse(ast.unparse(fnode)).body[0]


def _find(fnode, pred):
    return [n for n in ast.walk(fnode) if pred(n)]


def _mutants(fnode):
    out = []

    def const_edit(label, match, new, breaking):
        t = _clone(fnode)
        hits = [n for n in ast.walk(t) if isinstance(n, ast.Constant) and isinstance(n.value, str) and match(n.value)]
        if hits:
            hits[-1].value = new(hits[-1].value)
            out.append((label, t, breaking))

    # character class loses a reserved character (the substitution pattern, i.e. the one without ' .')
    is_sub_class = lambda v: v.startswith("[<>") and " ." not in v
    const_edit("chars: '?' dropped from the cleaned class", is_sub_class, lambda v: v.replace("?", ""), True)
    const_edit("chars: control range shortened to \\x00-\\x1e", is_sub_class, lambda v: v.replace("\\x1f", "\\x1e"), True)
    const_edit("chars: class spelled with escapes", is_sub_class, lambda v: v.replace("<>", "\\x3c\\x3e"), False)
    is_guard = lambda v: v.startswith("[<>") and " ." in v
    const_edit("guard: '/' allowed as replacement", is_guard, lambda v: v.replace("/", ""), True)
    const_edit("guard: '.' allowed as replacement", is_guard, lambda v: v.replace(" .", " "), True)
    is_tail = lambda v: v.endswith("]$") and "<" not in v
    const_edit("tail: only the dot is cleaned", is_tail, lambda v: "[.]$", True)
    const_edit("tail: \\Z instead of $", is_tail, lambda v: v[:-1] + "\\Z", False)
    const_edit("tail: anchored at the start instead of the end", is_tail, lambda v: "^" + v[:-1], True)

    def stmt_edit(label, fn, breaking):
        t = _clone(fnode)
        if fn(t):
            ast.fix_missing_locations(t)
            out.append((label, t, breaking))

    def swap_cleaners(t):
        subs = [i for i, s in enumerate(t.body) if isinstance(s, ast.Assign) and isinstance(s.value, ast.Call) and dotted(s.value.func) == "re.sub"]
        if len(subs) >= 2 and subs[1] == subs[0] + 1:  # only when the two cleaners are adjacent is the swap behaviour-preserving
            i, j = subs[0], subs[1]
            t.body[i], t.body[j] = t.body[j], t.body[i]
            return True
    stmt_edit("tail cleaner before the character cleaner", swap_cleaners, False)

    def drop_char_cleaner(t):
        subs = [i for i, s in enumerate(t.body) if isinstance(s, ast.Assign) and isinstance(s.value, ast.Call) and dotted(s.value.func) == "re.sub"]
        if subs:
            del t.body[subs[0]]
            return True
    stmt_edit("character cleaner removed", drop_char_cleaner, True)

    def cleaner_on_other_var(t):
        for s in t.body:
            if isinstance(s, ast.Assign) and isinstance(s.value, ast.Call) and dotted(s.value.func) == "re.sub":
                s.targets = [ast.Name("cleaned", ast.Store())]
                return True
    stmt_edit("character cleaner result discarded", cleaner_on_other_var, True)

    def return_bare(t):
        for n in ast.walk(t):
            if isinstance(n, ast.Return) and isinstance(n.value, ast.Call) and dotted(n.value.func) == "os.path.join":
                n.value = n.value.args[1]
                return True
    stmt_edit("returns the bare name", return_bare, True)

    def join_input(t):
        for n in ast.walk(t):
            if isinstance(n, ast.Return) and isinstance(n.value, ast.Call) and dotted(n.value.func) == "os.path.join":
                n.value.args[0] = ast.Name(t.args.args[0].arg, ast.Load())
                return True
    stmt_edit("joins onto the full input path", join_input, True)

    def suffix_after_loop(t):
        for i, s in enumerate(t.body):
            if isinstance(s, ast.Return):
                t.body.insert(i, ast.parse("fname = fname + '~'").body[0])
                return True
    stmt_edit("suffix appended after the uniqueness loop", suffix_after_loop, True)

    def loop_to_if(t):
        for n in ast.walk(t):
            for fld in ("body", "orelse"):
                b = getattr(n, fld, None)
                if isinstance(b, list):
                    for i, s in enumerate(b):
                        if isinstance(s, ast.While):
                            b[i] = ast.If(test=s.test, body=s.body, orelse=[])
                            return True
    stmt_edit("uniqueness loop degraded to a single `if`", loop_to_if, True)

    def rename_local(t):
        hit = False
        for n in ast.walk(t):
            if isinstance(n, ast.Name) and n.id == "fname":
                n.id = "base_name"
                hit = True
        return hit
    stmt_edit("local renamed", rename_local, False)

    def len_ge(t):
        for n in ast.walk(t):
            if isinstance(n, ast.If) and isinstance(n.test, ast.Compare) and isinstance(n.test.ops[0], ast.Gt) and "PATH_MAX_LENGTH" in ast.unparse(n.test):
                n.test = ast.parse("len(fname) >= PATH_MAX_LENGTH + 1", mode="eval").body
                return True
    stmt_edit("length test spelled >= N + 1", len_ge, False)

    def limit_bigger(t):
        for n in ast.walk(t):
            if isinstance(n, ast.Assign) and isinstance(n.targets[0], ast.Name) and n.targets[0].id == "PATH_MAX_LENGTH":
                n.value = ast.Constant(255)
                return True
    stmt_edit("PATH_MAX_LENGTH raised to 255", limit_bigger, True)
    return out


def _thorough(ctx, fnode, base_sink, helpers=None):
    base = set(base_sink.failed)
    killed = total = silent = btotal = 0
    survivors, noisy = [], []
    for label, t, breaking in _mutants(fnode):
        s = Sink()
        err = None
        try:
            core(s, t, helpers)
            fired = any(k not in base for k in s.failed)
        except AnalysisError as e:
            fired, err = False, str(e)
        if breaking:
            total += 1
            killed += fired
            if not fired:
                survivors.append(label + (" [analysis error: %s]" % err if err else ""))
        else:
            btotal += 1
            if not fired and err is None:
                silent += 1
            else:
                noisy.append(label + (" [%s]" % (err or sorted(k for k in s.failed if k not in base))))
        ctx.ob("mutation", label, fired if breaking else (not fired and err is None), "breaking" if breaking else "benign")
    ctx.extra["mutants_killed"], ctx.extra["mutants_total"] = killed, total
    ctx.extra["benign_silent"], ctx.extra["benign_total"] = silent, btotal
    if survivors:
        raise AnalysisError("rule lost its teeth: surviving mutants: %s" % "; ".join(survivors))
    if noisy:
        raise AnalysisError("rule fires on benign edits: %s" % "; ".join(noisy))
    ctx.floor("mutants", 10, total)
