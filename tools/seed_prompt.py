#!/venv/bin/python
"""print the prompt for an independent seeding agent for one property (contains only the property text)"""
import json, sys
pid = sys.argv[1]
# round 2: tools/seed_prompt.py CNN C D  -> variants C and D, told (in one line each) what the earlier variants changed
V1, V2 = (sys.argv[2], sys.argv[3]) if len(sys.argv) > 3 else ("A", "B")
ROUND2 = V1 != "A"
TAG = "seed3" if V1 == "E" else "seed2" if ROUND2 else "seed"
for l in open('/verif/properties.jsonl'):
    p = json.loads(l)
    if p['id'] == pid:
        break
a = p['anchors']
earlier = ""
if ROUND2:
    import glob, os
    lines = []
    for d in sorted(glob.glob('/verif/seeded/%s_*' % pid)):
        m = json.load(open(d + '/meta.json'))
        summ = ((m.get('agent_meta') or {}).get('summary') or '')[:400]
        lines.append("  - " + summ)
    earlier = ("\nOther engineers already delivered the following changes for this property; yours must be DIFFERENT (another mechanism, site, clause "
               "of the statement or kind of mistake), do not repeat them:\n" + "\n".join(lines) + "\n")
mech = "\n".join("  - %s (%s)" % (m['name'], m['where']) for m in a['mechanism'])
print(f"""You are a software engineer helping to evaluate a verification effort for the Python project androguard
(a parser for Android DEX/APK/AXML/ARSC files with bytecode analysis and a decompiler).
You have your own scratch git worktree of the repository at /tmp/{TAG}_{pid} (already created; the package is ./androguard,
tests are ./tests, run python as /venv/bin/python). Work ONLY inside /tmp/{TAG}_{pid} and write your results to /tmp/{TAG}_out/{pid}/.
Do NOT read, list or use anything under /verif, and do not touch /repo.

The property under evaluation:

  {p['id']}: {p['title']}
  Statement: {p['statement']}
  Quantifier: {p['quantifier']['text']}
  Code the property is anchored in: {', '.join(a['files'])}
{mech}
  Observed at: {', '.join(a['observe_at'])}

{earlier}
Your task: produce TWO independent, realistic changes to the androguard source (variant {V1} and variant {V2}, touching different
mechanisms or sites) each of which BREAKS this property while
  (1) the package still compiles/imports,
  (2) the existing test suite still passes exactly as before. Baseline: in a pristine worktree run
      `cd /tmp/{TAG}_{pid} && /venv/bin/python -m pytest -q -p no:cacheprovider --timeout=900 -x -q tests 2>&1 | tail -5` once BEFORE changing anything
      (a few tests fail in any worktree because large test APKs are not checked in - that is the baseline; record the
      failing set with `-q -rf` instead of -x if needed). With your change the set of passing tests must be unchanged.
      The full suite takes 2-4 minutes; you may run only the relevant test modules while iterating but run the full suite once per final variant,
  (3) the bug is NOT one that ordinary use would expose at once: it must need something specific to manifest — an unusual input
      or boundary value, a particular bit pattern, a multi-step sequence of operations, a particular ordering/interleaving, a crash or fault
      at a particular point, or two cooperating sites that each look fine alone. Prefer the kind of mistake a real maintainer could make
      in a refactor or 'optimisation' (an off-by-one in a mask or bound, a swapped operand, a dropped guard on a rare path, a
      changed default, a cache that is not invalidated, a comparison that is right except at one boundary ...), written in natural code,
      not an obviously planted 'if x == 1234' bomb.
For each variant also write a demonstration: a small standalone program /tmp/{TAG}_out/{pid}/demo_{V1}.py (resp. demo_{V2}.py) that uses only the
public androguard API (plus the standard library; it may synthesise tiny DEX/AXML/ARSC/APK byte strings or use files under tests/data),
exits 0 and prints PASS on the ORIGINAL code and exits non-zero (prints FAIL with what was observed vs expected) WITH your change.
The demo is run as `cd <worktree> && /venv/bin/python /tmp/{TAG}_out/{pid}/demo_{V1}.py`, so it must import androguard from the current directory
(insert os.getcwd() at the front of sys.path).

Deliverables in /tmp/{TAG}_out/{pid}/ :
  variant_{V1}.diff, variant_{V2}.diff  — `git diff` output against the pristine worktree HEAD (each applies on its own to a clean tree)
  demo_{V1}.py, demo_{V2}.py
  meta.json — {{"property": "{pid}", "variants": {{"{V1}": {{"summary": "...", "needs_to_manifest": "...", "files": [...],
               "tests_run": "<command and result>", "demo_result_original": "PASS", "demo_result_changed": "FAIL ..."}}, "{V2}": {{...}}}}}}
Verify yourself before finishing: for each variant, from a clean tree (`git checkout -- .`), `git apply` the diff, run the full test suite
(same pass set as baseline), run the demo (must FAIL), `git checkout -- .`, run the demo again (must PASS).
Leave the worktree clean (`git checkout -- .`) when done. Reply with a 5-line summary per variant.
If after honest effort you cannot find a change that breaks the property without failing existing tests, say so and explain which tests pin it.""")
