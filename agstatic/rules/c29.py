"""C29 -- resource resolution terminates on reference cycles of any length and returns the reachable values.

Rule (interpretation on a finite family of abstract resource tables; the repository is never imported).
The methods of ARSCParser.ResourceResolver are *interpreted* by agstatic/minipy.py (helper methods, static methods,
early returns, try/finally, parameters with defaults ... are simply executed) against a model of the resource table:
the resources object is an instance of the repository's own ARSCParser whose lookup tables (resource_values, values,
packages) describe an abstract table, so get_res_configs / get_id / get_resource_xml_name ... are interpreted from the
source too; entries are instances of ARSCResTableEntry / ARSCComplex / ARSCResStringPoolRef with their fields set (only
format_value is replaced by a label).  The family of tables: reference cycles of length 1..5, cycles whose members have two configurations with the
back reference in the second one, cycles through complex entries, a self-referencing complex entry, a diamond, a
chain, null and dangling references, a compact entry; resolved for all configurations and for one configuration, and
twice in a row on the same resolver.

For every table:  (terminates) `resolve(id)` must return -- CPython's recursion limit of 1000 frames is emulated, so
"RecursionError" is a positively established outcome; (returns-reachable-values) every value reachable from the id
in the table (computed by the checker's own graph search) occurs in the result; (fresh-state) a second `resolve` on
the same resolver gives the same values.  Any other exception or anything the interpreter cannot model is exit 2.
"""
from __future__ import annotations

import ast
import sys
import threading

import networkx as nx

from ..minipy import Interp, Obj, ClassV, FuncV, Native, PyRaise, Sym
from ..model import AXML, AnalysisError, Cls, Func, norm, parent, walk_no_nested
from ..pathkit import NotEvaluable, run_mutants, rename_locals, flip_ifs, link_parents

RESOLVER = "ResourceResolver"
PY_RECURSION_LIMIT = 1000
OWN_MUTATION_ADEQUACY = True   # thorough() below mutates the resolver's methods in memory (pathkit.run_mutants)


class F:
    """a method of the resolver class (the shared model only indexes top-level classes)"""

    def __init__(self, module, cls_node, node, outer):
        self.module = module
        self.node = node
        self.cls_node = cls_node
        self.qualname = "%s.%s.%s" % (outer, cls_node.name, node.name) if outer else "%s.%s" % (cls_node.name, node.name)
        self.short = node.name
        self.file = module.relpath
        self.line = node.lineno

    def params(self):
        a = self.node.args
        return [x.arg for x in a.posonlyargs + a.args]


def find_class(module, name):
    for n in ast.walk(module.tree):
        if isinstance(n, ast.ClassDef) and n.name == name:
            outer = []
            p = parent(n)
            while p is not None:
                if isinstance(p, ast.ClassDef):
                    outer.append(p.name)
                p = parent(p)
            return n, ".".join(reversed(outer))
    return None, None


def self_calls(fn_node):
    return [c for c in walk_no_nested(fn_node) if isinstance(c, ast.Call) and isinstance(c.func, ast.Attribute)
            and isinstance(c.func.value, ast.Name) and c.func.value.id in ("self", "cls")]


# ---------------------------------------------------------------------------- abstract tables
# entry spec: ("ref", id) | ("leaf", n) | ("complex", [item specs]) | ("compact", n) ; table: id -> [(config name, entry spec)]
def _cycle(n):
    return {i: [("c", ("ref", i % n + 1))] for i in range(1, n + 1)}


TABLES = [
    ("self-reference", {1: [("c", ("ref", 1))]}, 1),
    ("cycle of length 2", _cycle(2), 1),
    ("cycle of length 3", _cycle(3), 1),
    ("cycle of length 4", _cycle(4), 2),
    ("cycle of length 5", _cycle(5), 1),
    ("cycle of length 2, two configurations, back reference in the second", {
        1: [("c1", ("leaf", 11)), ("c2", ("ref", 2))], 2: [("c1", ("leaf", 12)), ("c2", ("ref", 1))]}, 1),
    ("cycle of length 3, two configurations, back reference in the first", {
        1: [("c1", ("ref", 2)), ("c2", ("leaf", 21))], 2: [("c1", ("ref", 3)), ("c2", ("leaf", 22))], 3: [("c1", ("ref", 1)), ("c2", ("leaf", 23))]}, 1),
    ("complex entry whose item references back", {1: [("c", ("complex", [("ref", 2), ("leaf", 31)]))], 2: [("c", ("ref", 1))]}, 1),
    ("complex entry referencing itself", {1: [("c", ("complex", [("leaf", 41), ("ref", 1), ("leaf", 42)]))]}, 1),
    ("two complex entries referencing each other", {1: [("c", ("complex", [("ref", 2), ("leaf", 51)]))], 2: [("c", ("complex", [("leaf", 52), ("ref", 1)]))]}, 1),
    ("diamond", {1: [("c", ("complex", [("ref", 2), ("ref", 3)]))], 2: [("c", ("ref", 4))], 3: [("c", ("ref", 4))], 4: [("c", ("leaf", 61))]}, 1),
    ("chain", {1: [("c", ("ref", 2))], 2: [("c", ("ref", 3))], 3: [("c", ("leaf", 71))]}, 1),
    ("null and dangling references", {1: [("c", ("complex", [("ref", 0), ("ref", 99), ("leaf", 81)]))]}, 1),
    ("compact entry and plain value", {1: [("c1", ("compact", 5)), ("c2", ("leaf", 91))]}, 1),
    ("cycle with a branch to a value", {1: [("c", ("ref", 2))], 2: [("c", ("complex", [("ref", 1), ("ref", 3)]))], 3: [("c", ("leaf", 95))]}, 1),
    # the closing back edge is taken more than once within one resolve()
    ("cycle of length 2, both configurations of both members reference the other", {
        1: [("c1", ("ref", 2)), ("c2", ("ref", 2))], 2: [("c1", ("ref", 1)), ("c2", ("ref", 1))]}, 1),
    ("complex entry with two items referencing a resource that points back", {1: [("c", ("complex", [("ref", 2), ("ref", 2), ("leaf", 96)]))], 2: [("c", ("ref", 1))]}, 1),
    ("three configurations referencing back", {1: [("c1", ("ref", 2)), ("c2", ("ref", 2)), ("c3", ("ref", 2))], 2: [("c1", ("ref", 1)), ("c2", ("leaf", 97)), ("c3", ("ref", 1))]}, 1),
    # members that exist only under locale-qualified configurations (no default-locale entry)
    ("cycle closed at a resource without default-locale entry", {1: [("loc_de", ("ref", 2)), ("loc_fr", ("ref", 2))], 2: [("c", ("ref", 1))]}, 1),
    ("cycle entered at the member that has a default-locale entry", {1: [("loc_de", ("ref", 2))], 2: [("c", ("ref", 1)), ("loc_de", ("leaf", 98))]}, 2),
    ("locale-only chain", {1: [("loc_de", ("ref", 2))], 2: [("loc_de", ("leaf", 99))]}, 1),
]
DEFAULT_LOCALE = "\x00\x00"


def locale_of(cfg_name):
    return cfg_name[4:] if cfg_name.startswith("loc_") else DEFAULT_LOCALE


def reachable_leaves(table, start, config=None):
    seen, out, todo = set(), set(), [start]
    while todo:
        r = todo.pop()
        if r in seen:
            continue
        seen.add(r)
        for cfg, e in table.get(r, []):
            if config is not None and cfg != config:
                continue
            items = e[1] if e[0] == "complex" else [e]
            for it in items:
                if it[0] == "ref" and it[1]:
                    todo.append(it[1])
                elif it[0] == "leaf":
                    out.add("leaf#%d" % it[1])
    return out


def flat_strings(v, out=None):
    out = out if out is not None else set()
    if isinstance(v, str):
        out.add(v)
    elif isinstance(v, (list, tuple)):
        for x in v:
            flat_strings(x, out)
    return out


class Core:
    def __init__(self, ctx, funcs=None):
        self.ctx = ctx
        self.m = ctx.mod(AXML)
        cls, outer = find_class(self.m, RESOLVER)
        ctx.require(cls is not None, "anchor vanished: class %s" % RESOLVER)
        self.cls_node, self.outer = cls, outer
        if funcs is None:
            funcs = {n.name: F(self.m, cls, n, outer) for n in cls.body if isinstance(n, (ast.FunctionDef, ast.AsyncFunctionDef))}
        self.funcs = funcs

    # ------------------------------------------------------------------ model
    def resolver_cls(self):
        c = Cls(self.m, RESOLVER, self.cls_node)
        for name, f in self.funcs.items():
            c.methods[name] = Func(self.m, f.qualname, f.node, c)
        for n in self.cls_node.body:
            if isinstance(n, ast.Assign):
                for t in n.targets:
                    if isinstance(t, ast.Name):
                        c.attrs[t.id] = n.value
        return c

    def build(self, it, table):
        """model objects of the repository's own entry classes"""
        m = self.m
        ref_t = it.module_global(m, "TYPE_REFERENCE")
        ent, cpx, ref = m.cls("ARSCResTableEntry"), m.cls("ARSCComplex"), m.cls("ARSCResStringPoolRef")
        fcomplex = it.class_attr(ent, "FLAG_COMPLEX", ent.lookup_attr("FLAG_COMPLEX"))
        fcompact = it.class_attr(ent, "FLAG_COMPACT", ent.lookup_attr("FLAG_COMPACT"))
        if not all(isinstance(x, int) for x in (ref_t, fcomplex, fcompact)):
            raise NotEvaluable("TYPE_REFERENCE / FLAG_COMPLEX / FLAG_COMPACT are not integer constants")
        pkg = Obj(None, "package")
        cfgs, rows = {}, {}

        def item(spec):
            o = Obj(ref)
            o.attrs.update(parent=pkg, start=0, size=8, res0=0)
            if spec[0] == "ref":
                o.attrs.update(data_type=ref_t, data=spec[1])
            else:
                o.attrs.update(data_type=0x10 if ref_t != 0x10 else 0x11, data=spec[1])
            return o

        for rid, ents in table.items():
            rows[rid] = []
            for cfg, spec in ents:
                c = cfgs.setdefault(cfg, Obj(None, "config_" + cfg))
                e = Obj(ent)
                e.attrs.update(mResId=rid, parent=pkg, start=0, size=8, index=0, flags=0)
                if spec[0] == "complex":
                    x = Obj(cpx)
                    x.attrs.update(parent=pkg, start=0, id_parent=0, count=len(spec[1]), items=[(0x01000000 + i, item(s)) for i, s in enumerate(spec[1])])
                    e.attrs.update(flags=fcomplex, item=x)
                elif spec[0] == "compact":
                    e.attrs.update(flags=fcompact, key=8, data=spec[1], datatype=3)
                else:
                    e.attrs.update(key=item(spec))
                rows[rid].append((c, e))
        return cfgs, rows

    def parser_obj(self, it, table, cfgs, rows):
        """an ARSCParser whose lookup tables describe the abstract table; its methods (get_res_configs, get_id,
        get_resource_xml_name, get_packages_names ...) are interpreted from the source"""
        pcls = self.m.cls("ARSCParser")
        o = Obj(pcls)
        pkg = "com.example"
        values = {pkg: {}}
        for rid, ents in table.items():
            for cfg, spec in ents:
                loc = values[pkg].setdefault(locale_of(cfg), {"public": [], "string": [], "id": []})
                loc["public"].append(("string", "res%d" % rid, rid))
        # attributes the real ARSCParser.__init__ initialises with parameter-free expressions ({} / [] / None / constants ...)
        init = pcls.lookup("__init__")
        if init is not None:
            from ..minipy import Frame
            fr = Frame(it, pcls.module, {}, "ARSCParser.__init__", pcls)
            for st in walk_no_nested(init.node):
                if isinstance(st, ast.Assign) and len(st.targets) == 1 and isinstance(st.targets[0], ast.Attribute) \
                        and isinstance(st.targets[0].value, ast.Name) and st.targets[0].value.id == "self" \
                        and not any(isinstance(n, ast.Name) and n.id in init.params() for n in ast.walk(st.value)):
                    try:
                        v = it.eval(st.value, fr)
                    except (NotEvaluable, PyRaise):
                        continue
                    if isinstance(v, (dict, list, set, int, str, bytes, bool, type(None))) and not isinstance(v, Sym):
                        o.attrs.setdefault(st.targets[0].attr, v)
        o.attrs.update(analyzed=True, packages={pkg: []}, values=values,
                       resource_values={rid: {c: e for c, e in ents} for rid, ents in rows.items()},
                       resource_configs={pkg: {}}, resource_keys={pkg: {}}, stringpool_main=Obj(None, "stringpool"))
        return o

    def scenario(self, name, table, start, config):
        """-> list of outcomes for: resolve(start), resolve(start) again on the same resolver"""
        cls = self.resolver_cls()
        state = {}

        def stub(it, fv, frame_locals, node):
            if fv.qualname == "ARSCResStringPoolRef.format_value":
                return "leaf#%s" % frame_locals["self"].attrs.get("data")
            return NotImplemented

        def depth(it, fv, node):
            state["stack"] = list(it.stack[-12:])
            raise PyRaise("RecursionError", node)

        it = Interp(self.ctx.repo, None, {"func": stub, "depth": depth}, (), max_steps=400000)
        it.max_depth = getattr(self, "limit", PY_RECURSION_LIMIT) - 5     # frames of the callers (get_resolved_res_configs, get_app_name, ...) are not modelled
        cfgs, rows = self.build(it, table)

        res = self.parser_obj(it, table, cfgs, rows)
        wanted = cfgs[config] if config is not None else None
        outcomes = []
        try:
            resolver = it.call(ClassV(cls), [res, wanted], {})
        except PyRaise as e:
            raise NotEvaluable("constructing the resolver raised %s" % e.name)
        # resolve(start) twice on one resolver, then every other id of the table with a fresh resolver on the SAME parser
        queries = [(resolver, start, "same resolver")] * 2 + [(None, rid, "same parser") for rid in sorted(table) if rid != start]
        for rsv, rid, how in queries:
            try:
                if rsv is None:
                    rsv = it.call(ClassV(cls), [res, wanted], {})
                r = it.call(it.get_attr(rsv, "resolve"), [rid], {})
                if it.choices:
                    raise NotEvaluable("the resolver's control flow depends on values the table model leaves open")
                outcomes.append(("ok", r, rid, how))
            except PyRaise as e:
                genuine = getattr(e, "on_none", False) or isinstance(e.node, ast.Raise)
                outcomes.append(("raise", e.name, e.node, state.get("stack", []) or list(it.stack[-3:]), genuine, rid))
                break
        return outcomes

    def _func_of(self, node):
        """the function (of the resolver or of the module) that contains an AST node"""
        n = node
        while n is not None and not isinstance(n, (ast.FunctionDef, ast.AsyncFunctionDef)):
            n = parent(n)
        if n is None:
            return None
        for f in self.funcs.values():
            if f.node is n:
                return f
        for f in self.m.functions.values():
            if f.node is n:
                return f
        return None

    # ------------------------------------------------------------------
    def run(self):
        ctx = self.ctx
        ctx.count("resolver_methods", len(self.funcs))
        for f in self.funcs.values():
            ctx.analysed(f)
        # recursion structure (evidence only)
        g = nx.DiGraph()
        for name, f in self.funcs.items():
            g.add_node(name)
            for c in self_calls(f.node):
                if c.func.attr in self.funcs:
                    g.add_edge(name, c.func.attr)
        sccs = [sorted(c) for c in nx.strongly_connected_components(g) if len(c) > 1 or any(g.has_edge(n, n) for n in c)]
        ctx.count("recursive_sccs", len(sccs))
        ctx.note("recursive SCCs of the resolver's call graph: %s" % (sccs or "none (iterative)"))
        ctx.require("resolve" in self.funcs, "anchor vanished: ResourceResolver.resolve")
        fres = self.funcs["resolve"]
        scen = []
        for name, table, start in TABLES:
            scen.append((name, table, start, None))
        scen.append(("cycle of length 2, two configurations, back reference in the second / one configuration", TABLES[5][1], 1, "c2"))
        scen.append(("cycle of length 3, two configurations / one configuration", TABLES[6][1], 1, "c1"))
        scen.append(("cycle of length 2, both configurations of both members reference the other / one configuration", TABLES[15][1], 1, "c1"))
        nonterm = 0
        only = getattr(self, "only_tables", None)
        for name, table, start, config in scen:
            if only is not None and name not in only:
                continue
            if nonterm >= 3:
                ctx.note("stopped after three non-terminating tables (each costs a full emulated recursion)")
                break
            ctx.count("tables")
            try:
                outs = self.scenario(name, table, start, config)
            except NotEvaluable as e:
                raise AnalysisError("ResourceResolver left the interpretable fragment on table `%s`: %s" % (name, e))
            label = "table `%s`, resolve(%d)%s" % (name, start, "" if config is None else " for configuration %s" % config)
            expected = reachable_leaves(table, start, config)
            bad = False
            for k, o in enumerate(outs):
                if o[0] == "raise":
                    if o[1] != "RecursionError" and o[4]:
                        # an exception the interpreted repository code raises itself on fully concrete table data
                        # (an explicit `raise`, or an operation on a None it computed) -- resolve() does not return
                        qn = self._func_of(o[2])
                        f = qn or fres
                        ctx.check("terminates", label, False, f, o[2] if o[2] is not None else "exception",
                                  "%s does not return: %s is raised at `%s`%s" % (label, o[1], norm(o[2])[:70] if o[2] is not None else "?",
                                                                             " (operation on None)" if not isinstance(o[2], ast.Raise) else ""),
                                  node=o[2], witness=dict(table={str(k_): [(c, list(e) if e[0] != "complex" else ["complex", e[1]]) for c, e in v] for k_, v in table.items()}, start=start))
                        bad = True
                        break
                    if o[1] != "RecursionError":
                        raise AnalysisError("%s: interpreted resolve() ended in %s at `%s`: not a modelled outcome" % (label, o[1], norm(o[2])[:60] if o[2] is not None else "?"))
                    cyc = []
                    for q in o[3]:
                        s = q.split(".")[-1]
                        if s not in cyc:
                            cyc.append(s)
                    f = self.funcs.get(o[3][-1].split(".")[-1] if o[3] else "resolve", fres)
                    ctx.check("terminates", label, False, f, "recursion cycle: " + " -> ".join(sorted(cyc)),
                              "%s does not terminate: the interpreted call stack exceeds CPython's recursion limit of %d frames "
                              "(repeating %s) -- RecursionError instead of a result" % (label, PY_RECURSION_LIMIT, " -> ".join(cyc)),
                              node=o[2], witness=dict(table={str(k_): [(c, list(e) if e[0] != "complex" else ["complex", e[1]]) for c, e in v] for k_, v in table.items()}, start=start))
                    bad = True
                    nonterm += 1
                    break
            if bad:
                continue
            ctx.ob("terminates", label, True, "%d resolve() calls return (interpreted, %d reachable values)" % (len(outs), len(expected)))
            # later queries on the same parser (other start ids, fresh resolver each): history must not change the answer
            for o in outs[2:]:
                exp_o = reachable_leaves(table, o[2], config)
                got_o = flat_strings(o[1])
                miss_o = sorted(exp_o - got_o)
                ctx.check("history-independent", "%s, then resolve(%d) on the same parser" % (label, o[2]), not miss_o, fres,
                          "resolve() after an earlier resolve() on the same parser: reachable values missing",
                          "table `%s`: after resolve(%d), resolve(%d) on the same parser returns %s but %s is reachable: %s missing -- the answer depends on what was resolved before"
                          % (name, start, o[2], sorted(x for x in got_o if x.startswith("leaf#")), sorted(exp_o), miss_o), node=fres.node,
                          detail="resolve(%d) after resolve(%d) still returns %s" % (o[2], start, sorted(exp_o)))
            outs = outs[:2]
            got = [flat_strings(o[1]) for o in outs]
            miss = sorted(expected - got[0])
            ctx.check("returns-reachable-values", label, not miss, fres, "resolve() on `%s`: reachable values missing" % name,
                      "%s returns %s but the table makes %s reachable: %s missing" % (label, sorted(x for x in got[0] if x.startswith("leaf#")), sorted(expected), miss),
                      node=fres.node, detail="result contains all of %s" % sorted(expected))
            if len(got) > 1 and not miss:
                ctx.check("fresh-state", label, expected <= got[1], fres, "second resolve() on `%s` differs" % name,
                          "a second resolve(%d) on the same resolver loses values (%s instead of %s): state of the first resolution leaks into the second"
                          % (start, sorted(x for x in got[1] if x.startswith("leaf#")), sorted(expected)), node=fres.node,
                          detail="second resolve() on the same resolver returns the same values")
        return sccs


def _in_big_stack(fn):
    """the interpreter recurses ~10 Python frames per interpreted frame; emulating 1000 interpreted frames needs room"""
    box = {}

    def target():
        old = sys.getrecursionlimit()
        sys.setrecursionlimit(60000)
        try:
            box["r"] = fn()
        except BaseException as e:     # re-raised in the caller's thread
            box["e"] = e
        finally:
            sys.setrecursionlimit(old)
    old_size = threading.stack_size()
    try:
        threading.stack_size(512 * 1024 * 1024)
        t = threading.Thread(target=target)
        t.start()
        t.join()
    finally:
        threading.stack_size(old_size)
    if "e" in box:
        raise box["e"]
    return box.get("r")


def core(ctx):
    return _in_big_stack(lambda: Core(ctx).run())


def run(ctx):
    ctx.explanation = __doc__
    core(ctx)
    ctx.floor("resolver_methods", 5)
    ctx.floor("tables", 2)
    ctx.assume("CPython's default recursion limit (1000 frames); frames of resolve()'s callers are not counted (5 frames reserved)")
    ctx.assume("entries are instances of the repository's ARSCResTableEntry/ARSCComplex/ARSCResStringPoolRef with their fields set; "
               "format_value is replaced by a label (C27 decides formatting)")
    fixture(ctx)
    if ctx.tier == "thorough":
        thorough(ctx)


# ---------------------------------------------------------------------------- fixtures: the rule's own teeth, on every run
FIXTURE_GOOD = '''
class ResourceResolver:
    def __init__(self, android_resources, config=None):
        self.resources = android_resources
        self.wanted_config = config

    def resolve(self, res_id):
        result = []
        self._walk(result, res_id, 0)
        return result

    def _walk(self, result, res_id, depth):
        if depth > 32:
            return
        for config, ate in self.resources.get_res_configs(res_id, self.wanted_config):
            item = ate.key
            if item.data_type == 1:
                self._walk(result, item.data, depth + 1)
            else:
                result.append((config, item.format_value()))
'''
FIXTURE_BAD = FIXTURE_GOOD.replace("        if depth > 32:\n            return\n", "")


def _fixture_run(ctx, text):
    from ..pathkit import Sink
    s = Sink(ctx)
    tree = ast.parse(text)
    link_parents(tree)
    c = Core.__new__(Core)
    c.ctx = s
    c.m = ctx.mod(AXML)
    c.cls_node, c.outer = tree.body[0], ""
    c.funcs = {n.name: F(c.m, c.cls_node, n, "") for n in c.cls_node.body if isinstance(n, ast.FunctionDef)}
    c.only_tables = ("cycle of length 2", "chain")
    c.limit = 300      # the fixture only has to show that unbounded recursion is noticed; a lower limit keeps every run fast
    _in_big_stack(c.run)
    return s


def fixture(ctx):
    for name, text, want_ok in (("depth-bounded resolver", FIXTURE_GOOD, True), ("unguarded resolver", FIXTURE_BAD, False)):
        s = _fixture_run(ctx, text)
        term = [f for f in s.findings if f.rule == "terminates"]
        fired = bool(term)
        ctx.ob("fixture", name, fired != want_ok, "fixture %s: %s" % (name, "terminates on all tables" if not fired else "%d tables do not terminate" % len(term)))
        if fired == want_ok:
            raise AnalysisError("fixture `%s` is %s by the rule (self-check of the checker failed)" % (name, "rejected" if fired else "accepted"))


# ---------------------------------------------------------------------------- thorough tier
def thorough(ctx):
    c = Core(_sink(ctx))
    fs = c.funcs     # run_mutants swaps .node of these objects; Core(sink, fs) reads them

    def core_with(sink):
        return _in_big_stack(lambda: Core(sink, fs).run())

    # locate the visited-state guard (only to aim the mutants; the rule itself does not depend on it)
    guard = None
    for name, f in fs.items():
        for G in (x for x in walk_no_nested(f.node) if isinstance(x, ast.If)):
            for cmp_ in (x for x in ast.walk(G.test) if isinstance(x, ast.Compare) and len(x.ops) == 1 and isinstance(x.ops[0], (ast.In, ast.NotIn))):
                guard = guard or (f, ast.unparse(cmp_.comparators[0]), ast.unparse(cmp_.left), ast.unparse(G.test))
    if guard is None:
        ctx.note("no membership guard found: in-memory mutants are not aimed (adequacy is covered by the fixtures)")
        ctx.extra.update(mutants_killed=0, mutants_total=0, benign_silent=0, benign_total=0)
        return
    fc, s_txt, k_txt, test_txt = guard

    def is_call(n, names):
        return isinstance(n, ast.Expr) and isinstance(n.value, ast.Call) and isinstance(n.value.func, ast.Attribute) \
            and n.value.func.attr in names and ast.unparse(n.value.func.value) == s_txt

    def edit_blocks(fn, f):
        done = 0
        for n in ast.walk(fn):
            for fld in ("body", "orelse", "finalbody"):
                b = getattr(n, fld, None)
                if isinstance(b, list) and b and isinstance(b[0], ast.stmt):
                    done += f(b)
        if not done:
            raise LookupError

    def drop_grow(fn):
        def f(b):
            k = [x for x in b if is_call(x, ("add", "append"))]
            for x in k:
                b[b.index(x)] = ast.Pass()
            return len(k)
        edit_blocks(fn, f)

    def guard_only_warns(fn):
        for n in ast.walk(fn):
            if isinstance(n, ast.If) and ast.unparse(n.test) == test_txt:
                n.body = [x for x in n.body if not isinstance(x, (ast.Return, ast.Raise))] or [ast.Pass()]
                return
        raise LookupError

    def guard_removed(fn):
        def f(b):
            k = [x for x in b if isinstance(x, ast.If) and ast.unparse(x.test) == test_txt and not x.orelse]
            for x in k:
                b[b.index(x)] = ast.Pass()
            return len(k)
        edit_blocks(fn, f)

    def recreate(fn):
        fn.body.insert(0, ast.parse("%s = set()" % s_txt).body[0])

    def shrink_early(fn):
        def f(b):
            k = [x for x in b if is_call(x, ("add", "append"))]
            for x in k:
                b.insert(b.index(x) + 1, ast.parse("%s.discard(%s)" % (s_txt, k_txt)).body[0])
            return len(k)
        edit_blocks(fn, f)

    def other_key(fn):
        for n in ast.walk(fn):
            if is_call(n, ("add", "append")):
                n.value.args = [ast.Constant(value=0)]
                return
        raise LookupError

    def never_discard(fn):
        def f(b):
            k = [x for x in b if is_call(x, ("discard", "remove"))]
            for x in k:
                b[b.index(x)] = ast.Pass()
            return len(k)
        edit_blocks(fn, f)

    mutants = [
        ("%s: the key is never added" % fc.short, fc, drop_grow),
        ("%s: a visited key only warns" % fc.short, fc, guard_only_warns),
        ("%s: membership test removed" % fc.short, fc, guard_removed),
        ("%s: key discarded right after insertion" % fc.short, fc, shrink_early),
        ("%s: a constant is added instead of the key" % fc.short, fc, other_key),
        ("%s: state re-created on every call" % fc.short, fc, recreate),
    ]
    benign = [("%s: locals renamed" % n, f, rename_locals()) for n, f in fs.items()] + [("%s: if/else arms flipped" % n, f, flip_ifs()) for n, f in fs.items()]
    run_mutants(ctx, core_with, mutants, benign)


def _sink(ctx):
    from ..pathkit import Sink
    return Sink(ctx)
