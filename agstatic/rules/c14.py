"""C14 -- field cross-references are recorded on the field that is accessed.

Decided by abstract execution on model DEX files (agstatic/xref_model.py): `Analysis.__init__`, `Analysis.add`,
`Analysis.create_xref` and everything they call are executed by the shared abstract interpreter (nothing of androguard
is imported or run) on small model DEX objects -- classes, methods, fields, aligned reference pools, instructions with
a concrete opcode, a reference index and a symbolic byte offset.  Then every public xref getter of every analysis
object (and the lookup API) is evaluated the same way and the complete state is compared with the state the property
prescribes for the model, computed independently from the Dalvik opcode table (agstatic/spec/dalvik.py).  Only computed
results are judged, so helper methods, generators, dispatch tables, getattr through name tables, equivalent opcode
tests, get-or-create idioms are all the same to the check; a VIOLATION is a positively computed difference (absent /
unexpected record in an exactly evaluated set, wrong number of analysis objects, the analysed code raises); whatever
the interpreter cannot evaluate is an analysis error (exit 2).

Scenarios for C14: F1 one instruction of every opcode -- only iget*/sget* (resp. iput*/sput*) may produce read (resp.
write) records; F3 every field opcode on a field of the own class, of another class and on a field that is not defined:
the FieldAnalysis returned by Analysis.get_field_analysis(field) lists (accessing class, accessing method, offset), the
accessing method lists (class, field, offset), nothing is recorded for the undefined field, and every defined field has
exactly one FieldAnalysis; F6 the accessed field's class lives in another DEX of the same analysis (both add orders).
"""
from __future__ import annotations

from ..model import ANALYSIS, DEX
from ..xref_model import check_property
from ..xref_engine import (Engine, XrefModel, XrefRules, Collector, Mut, rule_registration, rule_field_lookup, rule_field_resolution,
                           run_mutants, m_swap_args, m_set_arg, m_set_receiver, m_rename_call, m_delete_call, m_const, m_replace_src, b_rename_local)

# the thorough tier runs its own in-memory mutation adequacy (MUTANTS / BENIGN below, via xref_engine.run_mutants)
OWN_MUTATION_ADEQUACY = True


def core(sink, eng):
    check_property(sink, eng.repo, "C14")
    sink.floor("scenarios", 2)
    sink.floor("prescribed_records", 200)



CX = "Analysis._create_xref"
MUTANTS = [
    Mut(ANALYSIS, CX, "iput counted as a read", m_const(0x58, 0x59)),
    Mut(ANALYSIS, CX, "sget-short not a read", m_const(0x66, 0x65)),
    Mut(ANALYSIS, CX, "field range stops before sput-short", m_const(0x6D, 0x6C)),
    Mut(ANALYSIS, CX, "write recorded through add_field_xref_read", m_rename_call("add_field_xref_write", "add_field_xref_read")),
    Mut(ANALYSIS, CX, "method-side write record dropped", m_delete_call("add_xref_write")),
    Mut(ANALYSIS, CX, "field looked up with (class, type, name)", m_swap_args("get_encoded_field_descriptor", 1, 2)),
    Mut(ANALYSIS, CX, "offset of the read is 0", m_set_arg("add_field_xref_read", 3, "0")),
    Mut(ANALYSIS, CX, "caller class and method swapped", m_swap_args("add_field_xref_read", 0, 1)),
    Mut(ANALYSIS, CX, "method-side record keeps the target class", m_set_arg("add_xref_read", 0, "self.classes[field_info[0]]")),
    Mut(ANALYSIS, "ClassAnalysis.add_field_xref_write", "recorder files the write as a read", m_rename_call("add_xref_write", "add_xref_read")),
    Mut(ANALYSIS, "FieldAnalysis.add_xref_read", "recorder permutes the tuple", m_replace_src("(classobj, methodobj, offset)", "(methodobj, classobj, offset)")),
    Mut(ANALYSIS, "Analysis.get_field_analysis", "lookup by the wrong class", m_replace_src("field.get_class_name()", "field.get_name()")),
    Mut(ANALYSIS, "Analysis.add", "FieldAnalysis registered twice per class name", m_replace_src("new_class.add_field(FieldAnalysis(field))", "new_class.add_field(FieldAnalysis(current_class))")),
]
BENIGN = [
    Mut(ANALYSIS, CX, "rename field_item", b_rename_local("field_item", "enc_field")),
    Mut(ANALYSIS, CX, "rename off", b_rename_local("off", "insn_off")),
    Mut(ANALYSIS, CX, "equivalent read test", m_replace_src("82 <= op_value <= 88 or 96 <= op_value <= 102", "op_value in range(0x52, 0x59) or op_value in range(0x60, 0x67)")),
    Mut(ANALYSIS, CX, "reorder the two read records", m_replace_src(
        "self.classes[cur_cls_name].add_field_xref_read(cur_meth, cur_cls, field_item, off)\ncur_meth.add_xref_read(cur_cls, field_item, off)",
        "cur_meth.add_xref_read(cur_cls, field_item, off)\nself.classes[cur_cls_name].add_field_xref_read(cur_meth, cur_cls, field_item, off)")),
    Mut(ANALYSIS, CX, "is-None spelling of the miss test", m_replace_src("if not field_item:", "if field_item is None:")),
]


def run(ctx):
    ctx.explanation = __doc__
    ctx.mod(ANALYSIS)
    ctx.mod(DEX)
    eng = Engine(ctx.repo)
    core(ctx, eng)
    # getter; recorder; getter sequences: an instance memo of a record container must be dropped by every recorder (agstatic/memo.py)
    from .. import memo
    for _c in ['FieldAnalysis', 'ClassAnalysis']:
        memo.check_class(ctx, ctx.mod(ANALYSIS), _c)
    ctx.assume("DEX.get_encoded_field_descriptor(c, n, t) returns an EncodedField whose class name is c (its cache key is class+name+descriptor)")
    ctx.note("not decided: that the xref sets equal the field instructions of concrete DEX files (run-time data)")
    if ctx.tier == "thorough":
        base = Collector()
        core(base, Engine(ctx.repo))
        run_mutants(ctx, ctx.repo, core, MUTANTS, BENIGN, base.keys())
