"""Model evaluator: a small interpreter for a Python fragment, run by the checker
over *abstract model states* (order-type points, truth assignments of opaque
atoms, tiny object graphs built by a rule).  It never imports or executes the
analysed package: it walks the parsed AST of repository functions with the
checker's own semantics.  Everything outside the fragment raises NotModelled
(an AnalysisError -> exit 2), never a verdict.

Value universe
  * Python ints/str/bytes/bool/None/list/tuple/dict/set of model values
  * Pt       an order-type point (symbolic integer): only comparisons with other
             points are defined; arithmetic leaves the domain (NotModelled)
  * Obj      instance of a repository class (attrs dict, methods interpreted via the MRO)
  * PyModel  subclasses: native model objects supplied by a rule (their Python
             attributes/methods are part of the *model*, not of the repository)
  * ExtRef   dotted name of a non-repository module member (os.path.join, ...),
             callable only if the rule supplied a native model for it
  * Opaque   unknown value; any use other than moving it around is NotModelled
"""
from __future__ import annotations

import ast
import operator

from .model import AnalysisError, Cls, Func, Module, walk_no_nested


class NotModelled(AnalysisError):
    pass


class PyRaise(Exception):
    """a Python exception raised inside the modelled code"""

    # origin: 'raise'   an explicit raise/assert statement of the analysed code
    #         'builtin' Python's own semantics of a modelled operation on model data (dict lookup, list index, int('x'), next())
    #         'eval'    produced by the evaluator's object model (missing attribute/method, argument binding ...): a MODEL GAP
    REPORTABLE_BUILTIN = ("KeyError", "IndexError", "ValueError", "StopIteration", "ZeroDivisionError", "OverflowError",
                          "struct.error", "FileNotFoundError", "UnicodeDecodeError")

    def __init__(self, name, args=(), node=None, obj=None, origin="builtin"):
        Exception.__init__(self, name)
        self.name = name
        self.args_ = tuple(args)
        self.node = node
        self.obj = obj
        self.origin = origin

    @property
    def reportable(self):
        """may a rule report this exception as behaviour of the analysed code?  Only an explicit raise, or a
        KeyError/IndexError/ValueError-like outcome of a modelled operation; AttributeError/TypeError/NameError and
        everything the evaluator's object model produced are model gaps (exit 2)."""
        if self.origin == "raise":
            return True
        return self.origin == "builtin" and self.name in self.REPORTABLE_BUILTIN

    def __str__(self):
        return "%s%s" % (self.name, self.args_ if self.args_ else "")


class _Return(Exception):
    def __init__(self, v):
        self.v = v


class _Break(Exception):
    pass


class _Continue(Exception):
    pass


class Stop(Exception):
    """raised by a rule's statement hook to stop the evaluation at a program point"""

    def __init__(self, env, info=None):
        self.env = env
        self.info = info


class Opaque:
    def __init__(self, name="?"):
        self.name = name

    def __repr__(self):
        return "Opaque(%s)" % self.name

    def __bool__(self):
        raise NotModelled("truth value of opaque %s" % self.name)

    def __iter__(self):
        raise NotModelled("iteration over opaque %s" % self.name)


class Pt:
    """order-type point.  rep is the concrete representative of its rank; only
    the relative order of representatives is meaningful."""
    __slots__ = ("name", "rep", "zero_ok")

    def __init__(self, name, rep, zero_ok=False):
        self.name = name
        self.rep = rep
        self.zero_ok = zero_ok

    def _o(self, other, what):
        if isinstance(other, Pt):
            return other.rep
        if isinstance(other, bool) or not isinstance(other, (int,)):
            raise TypeError("'%s' not supported between point and %s" % (what, type(other).__name__))
        raise NotModelled("order-type point %s compared with the integer constant %r" % (self.name, other))

    def __lt__(self, o): return self.rep < self._o(o, "<")
    def __le__(self, o): return self.rep <= self._o(o, "<=")
    def __gt__(self, o): return self.rep > self._o(o, ">")
    def __ge__(self, o): return self.rep >= self._o(o, ">=")

    def __eq__(self, o):
        if isinstance(o, Pt):
            return self.rep == o.rep
        if isinstance(o, int) and not isinstance(o, bool):
            raise NotModelled("order-type point %s compared with the integer constant %r" % (self.name, o))
        return False

    def __ne__(self, o):
        return not self.__eq__(o)

    def __hash__(self):
        return hash(("Pt", self.rep))

    def __bool__(self):
        if self.zero_ok:
            return self.rep != 0
        raise NotModelled("truth value of order-type point %s" % self.name)

    def __str__(self):
        return str(self.rep)

    def __format__(self, spec):
        return format(self.rep, spec)

    def __repr__(self):
        return "Pt(%s=%d)" % (self.name, self.rep)

    def _arith(self, *a):
        raise NotModelled("arithmetic on order-type point %s leaves the order-type domain" % self.name)

    __add__ = __radd__ = __sub__ = __rsub__ = __mul__ = __rmul__ = __floordiv__ = __mod__ = __neg__ = _arith
    __and__ = __or__ = __xor__ = __lshift__ = __rshift__ = __truediv__ = _arith


class Obj:
    tuple_fields = None  # field names of a typing.NamedTuple instance

    def __init__(self, cls, **attrs):
        self.cls = cls
        self.attrs = dict(attrs)

    def as_tuple(self):
        return tuple(self.attrs[f] for f in self.tuple_fields)

    def __repr__(self):
        return "<%s %s>" % (self.cls.name if self.cls else "obj", self.attrs.get("name", hex(id(self))[-4:]))


class PyModel:
    """base class of native model objects written by a rule"""


class ExtRef:
    def __init__(self, dotted):
        self.dotted = dotted

    def __repr__(self):
        return "ExtRef(%s)" % self.dotted


class ClassRef:
    def __init__(self, cls):
        self.cls = cls

    def __repr__(self):
        return "ClassRef(%s)" % self.cls.name


class ModRef:
    def __init__(self, module):
        self.module = module


class ExcClass:
    """builtin exception class"""

    def __init__(self, name):
        self.name = name


class ExcV:
    def __init__(self, name, args):
        self.name = name
        self.args = args


class Closure:
    def __init__(self, node, env, module, cls=None, qualname=None):
        self.node = node
        self.env = env
        self.module = module
        self.cls = cls
        self.qualname = qualname or getattr(node, "name", "<lambda>")


class Bound:
    def __init__(self, fn, recv):
        self.fn = fn
        self.recv = recv


class NativeBound:
    def __init__(self, pyfunc, recv):
        self.pyfunc = pyfunc
        self.recv = recv


class SuperProxy:
    def __init__(self, recv, after_cls):
        self.recv = recv
        self.after = after_cls


class Env:
    __slots__ = ("vars", "parent", "module", "frame")

    def __init__(self, module, parent=None, frame=None):
        self.vars = {}
        self.parent = parent
        self.module = module
        self.frame = frame  # (self obj, Cls of the executing method) for super()

    def lookup(self, name):
        e = self
        while e is not None:
            if name in e.vars:
                return True, e.vars[name]
            e = e.parent
        return False, None


_EXC_PARENTS = {
    "KeyError": "LookupError", "IndexError": "LookupError", "LookupError": "Exception",
    "ValueError": "Exception", "TypeError": "Exception", "StopIteration": "Exception",
    "RuntimeWarning": "Warning", "Warning": "Exception", "RuntimeError": "Exception",
    "AttributeError": "Exception", "FileNotFoundError": "OSError", "OSError": "Exception", "IOError": "Exception",
    "ZeroDivisionError": "ArithmeticError", "ArithmeticError": "Exception", "NotImplementedError": "RuntimeError",
    "AssertionError": "Exception", "UnicodeDecodeError": "ValueError", "Exception": "BaseException",
}
_PY_ERRORS = (ValueError, TypeError, KeyError, IndexError, StopIteration, AttributeError, ZeroDivisionError)

_BIN = {
    ast.Add: operator.add, ast.Sub: operator.sub, ast.Mult: operator.mul, ast.FloorDiv: operator.floordiv,
    ast.Mod: operator.mod, ast.BitAnd: operator.and_, ast.BitOr: operator.or_, ast.BitXor: operator.xor,
    ast.LShift: operator.lshift, ast.RShift: operator.rshift, ast.Div: operator.truediv, ast.Pow: operator.pow,
}
_SAFE_TYPES = (str, bytes, list, tuple, dict, set, frozenset, int, float, bool, type(None))


class Interp:
    def __init__(self, repo, natives=None, method_overrides=None, global_overrides=None, lenient=(),
                 stmt_hook=None, int_hook=None, max_steps=400000, max_depth=40):
        self.repo = repo
        self.natives = dict(_default_natives(self))
        self.natives.update(natives or {})
        self.method_overrides = method_overrides or {}  # (class name, method) -> pyfunc(interp, self, *args, **kw)
        self.global_overrides = global_overrides or {}  # name or (relpath, name) -> value
        self.lenient = tuple(lenient)  # ExtRef prefixes whose calls are ignored (logging)
        self.stmt_hook = stmt_hook
        self.int_hook = int_hook
        self.steps = 0
        self.max_steps = max_steps
        self.depth = 0
        self.max_depth = max_depth
        self._genv = {}
        self._constcache = {}
        self.trace = []  # (event, data) appended by natives
        self._sdisp = {}
        self._edisp = {}
        self._mro = {}

    # ------------------------------------------------------------------ environments
    def module_env(self, module):
        e = self._genv.get(module.relpath)
        if e is None:
            e = Env(module)
            self._genv[module.relpath] = e
        return e

    def closure_of(self, func: Func):
        return Closure(func.node, self.module_env(func.module), func.module, func.cls, func.qualname)

    def global_lookup(self, module, name, node=None):
        k = (module.relpath, name)
        if k in self.global_overrides:
            return self.global_overrides[k]
        if name in self.global_overrides:
            return self.global_overrides[name]
        if k in self._constcache:
            return self._constcache[k]
        r = module.resolve_name(name)
        if r is not None:
            if r[0] == "class":
                v = ClassRef(r[1])
            elif r[0] == "func":
                v = self.closure_of(r[1])
            elif r[0] == "module":
                v = ModRef(r[1])
            else:
                v = self._module_const(r[1], name, r[2])
            self._constcache[k] = v
            return v
        if name in module.imports:
            mod, attr = module.imports[name]
            return ExtRef(mod if attr is None else mod + "." + attr)
        if name in _BUILTINS:
            return _BUILTINS[name]
        if name in _EXC_PARENTS or name in ("BaseException",):
            return ExcClass(name)
        raise NotModelled("name %r is not defined in the modelled fragment (%s)" % (name, module.relpath))

    def _module_const(self, mod, name, expr):
        """value of a module-level name.  A name written by one simple assignment is evaluated from that
        expression; a name that further top-level statements mention (builder loops, subscript stores,
        .update() ...) is obtained by evaluating those statements in order."""
        # the assignment may live in another module than the one that imported it
        owner = mod
        if name not in owner.assigns:
            return self.eval(expr, self.module_env(owner))
        stmts = []
        for st in owner.tree.body:
            if isinstance(st, (ast.FunctionDef, ast.AsyncFunctionDef, ast.ClassDef, ast.Import, ast.ImportFrom)):
                continue
            if any(isinstance(n, ast.Name) and n.id == name for n in walk_no_nested(st)):
                stmts.append(st)
        if len(stmts) <= 1:
            return self.eval(expr, self.module_env(owner))
        env = self.module_env(owner)
        for st in stmts:
            try:
                self.exec_stmt(st, env)
            except PyRaise as e:
                raise NotModelled("module-level statements building %s raise %s in the model" % (name, e))
        ok, v = env.lookup(name)
        if not ok:
            raise NotModelled("module-level name %s is not bound by its builder statements" % name)
        return v

    # ------------------------------------------------------------------ calling
    def call(self, fn, args=(), kwargs=None, node=None):
        kwargs = kwargs or {}
        if isinstance(fn, Closure):
            return self._call_closure(fn, list(args), kwargs, None)
        if isinstance(fn, Bound):
            return self._call_closure(fn.fn, [fn.recv] + list(args), kwargs, fn.recv)
        if isinstance(fn, NativeBound):
            return self._native(fn.pyfunc, (self, fn.recv) + tuple(args), kwargs, node)
        if isinstance(fn, ClassRef):
            return self.instantiate(fn.cls, args, kwargs, node)
        if isinstance(fn, ExcClass):
            return ExcV(fn.name, tuple(args))
        if isinstance(fn, ExtRef):
            nat = self.natives.get(fn.dotted)
            if nat is not None:
                return self._native(nat, tuple(args), kwargs, node)
            if any(fn.dotted == p or fn.dotted.startswith(p + ".") for p in self.lenient):
                return None
            raise NotModelled("call of %s is not modelled" % fn.dotted)
        if isinstance(fn, _Builtin):
            return self._native(fn.f, (self,) + tuple(args), kwargs, node)
        if isinstance(fn, Obj) and fn.cls is not None:
            ok, r = self._class_lookup(fn.cls, fn, "__call__")
            if ok:
                return self.call(r, args, kwargs, node)
            raise PyRaise("TypeError", ("%s object is not callable" % fn.cls.name,), node)
        if isinstance(fn, PyModel) and callable(fn):
            return self._native(fn, tuple(args), kwargs, node)
        if callable(fn) and (getattr(fn, "__self__", None) is not None or isinstance(fn, type(len))):
            # bound method of a model value (str.format, list.append, PyModel method, ...)
            return self._native(fn, tuple(args), kwargs, node)
        if callable(fn) and getattr(fn, "_model_native", False):
            return self._native(fn, tuple(args), kwargs, node)
        raise NotModelled("call of %r is not modelled" % (fn,))

    def _native(self, f, args, kwargs, node):
        try:
            return f(*args, **kwargs)
        except _PY_ERRORS as e:
            raise PyRaise(type(e).__name__, e.args, node)

    def _call_closure(self, fn, args, kwargs, recv):
        self.depth += 1
        if self.depth > self.max_depth:
            self.depth -= 1
            raise NotModelled("recursion deeper than %d in the model (%s)" % (self.max_depth, fn.qualname))
        try:
            n = fn.node
            env = Env(fn.module, fn.env, frame=(args[0] if args and fn.cls is not None else None, fn.cls))
            a = n.args
            if a.vararg or a.kwarg or a.kwonlyargs:
                raise NotModelled("*args/**kwargs in %s" % fn.qualname)
            params = [x.arg for x in a.posonlyargs + a.args]
            if len(args) > len(params):
                raise PyRaise("TypeError", ("too many arguments for %s" % fn.qualname,), n)
            for p, v in zip(params, args):
                env.vars[p] = v
            for k, v in kwargs.items():
                if k not in params or k in env.vars:
                    raise PyRaise("TypeError", ("bad keyword %s for %s" % (k, fn.qualname),), n, origin="eval")
                env.vars[k] = v
            defaults = a.defaults
            for p, d in zip(params[len(params) - len(defaults):], defaults):
                if p not in env.vars:
                    env.vars[p] = self.eval(d, fn.env)
            for p in params:
                if p not in env.vars:
                    raise PyRaise("TypeError", ("missing argument %s for %s" % (p, fn.qualname),), n, origin="eval")
            if isinstance(n, ast.Lambda):
                return self.eval(n.body, env)
            is_gen = getattr(n, "_is_gen", None)
            if is_gen is None:
                is_gen = n._is_gen = (not isinstance(n, ast.Lambda)) and any(
                    isinstance(x, (ast.Yield, ast.YieldFrom)) for x in walk_no_nested(n))
            if is_gen:
                # generator functions are evaluated eagerly (no observable laziness in the fragment)
                env.vars["__yields__"] = []
            try:
                self.exec_block(n.body, env)
            except _Return as r:
                if not is_gen:
                    return r.v
            if is_gen:
                return _Iter(env.vars["__yields__"])
            return None
        finally:
            self.depth -= 1

    def instantiate(self, cls, args, kwargs, node=None):
        ov = self._override(cls, "__new__")
        if ov is not None:
            return self._native(ov, (self, cls) + tuple(args), kwargs, node)
        o = Obj(cls)
        kind = self._record_kind(cls)
        if kind is not None and not any("__init__" in c.methods for c in cls.mro()):
            self._record_init(o, cls, kind, list(args), dict(kwargs), node)
            return o
        init = self.getattr(o, "__init__", node, missing_ok=True)
        if init is not None:
            self.call(init, args, kwargs, node)
        elif args or kwargs:
            if not any(b in _EXC_PARENTS or b == "BaseException" for c in cls.mro() for b in c.base_names):
                raise PyRaise("TypeError", ("%s() takes no arguments" % cls.name,), node)
            o.attrs["args"] = tuple(args)
        return o

    # ---- typing.NamedTuple classes and @dataclass classes: the constructor is synthesised from the annotated fields
    def _record_kind(self, cls):
        for c in cls.mro():
            if "NamedTuple" in c.base_names:
                return "namedtuple"
            for d in c.node.decorator_list:
                t = ast.unparse(d.func if isinstance(d, ast.Call) else d)
                if t.split(".")[-1] == "dataclass":
                    return "dataclass"
        return None

    def _record_fields(self, cls):
        fields = []
        for c in reversed(cls.mro()):
            for st in c.node.body:
                if isinstance(st, ast.AnnAssign) and isinstance(st.target, ast.Name):
                    if "ClassVar" in ast.unparse(st.annotation):
                        continue
                    fields = [f for f in fields if f[0] != st.target.id]
                    fields.append((st.target.id, st.value, c))
        return fields

    def _record_init(self, o, cls, kind, args, kwargs, node):
        fields = self._record_fields(cls)
        names = [f[0] for f in fields]
        if len(args) > len(names):
            raise PyRaise("TypeError", ("%s() takes %d fields" % (cls.name, len(names)),), node, origin="eval")
        vals = dict(zip(names, args))
        for k, v in kwargs.items():
            if k not in names or k in vals:
                raise PyRaise("TypeError", ("%s() got an unexpected field %s" % (cls.name, k),), node, origin="eval")
            vals[k] = v
        for name, default, c in fields:
            if name not in vals:
                if default is None:
                    raise PyRaise("TypeError", ("%s() missing field %s" % (cls.name, name),), node, origin="eval")
                dv = self.eval(default, self.module_env(c.module))
                if isinstance(dv, _FieldSpec):
                    dv = self.call(dv.factory, ()) if dv.factory is not None else dv.default
                vals[name] = dv
        for name in names:
            o.attrs[name] = vals[name]
        if kind == "namedtuple":
            o.tuple_fields = tuple(names)
        else:
            post = self.getattr(o, "__post_init__", node, missing_ok=True)
            if post is not None:
                self.call(post, (), {}, node)

    def _override(self, cls, name):
        for c in cls.mro():
            f = self.method_overrides.get((c.name, name))
            if f is not None:
                return f
            if name in c.methods:
                return None
        return None

    # ------------------------------------------------------------------ attributes
    def _class_lookup(self, cls, recv, name, start_after=None):
        mro = self._mro.get(id(cls))
        if mro is None:
            mro = self._mro[id(cls)] = cls.mro()
        if start_after is not None:
            idx = [i for i, c in enumerate(mro) if c is start_after]
            mro = mro[idx[0] + 1:] if idx else []
        for c in mro:
            ov = self.method_overrides.get((c.name, name))
            if ov is not None:
                return True, NativeBound(ov, recv)
            if name in c.methods:
                f = c.methods[name]
                decos = [ast.unparse(d) for d in f.node.decorator_list]
                cl = Closure(f.node, self.module_env(c.module), c.module, c, f.qualname)
                if "staticmethod" in decos:
                    return True, cl
                if "classmethod" in decos:
                    return True, Bound(cl, ClassRef(recv.cls if isinstance(recv, Obj) and recv.cls is not None else cls))
                # caching decorators are transparent on the functions of the fragment (their results do not depend on state
                # the model changes between calls)
                transparent = [d for d in decos if d.split("(")[0].split(".")[-1] in ("lru_cache", "cache", "wraps", "final", "override", "abstractmethod")]
                decos = [d for d in decos if d not in transparent]
                if any(d.split(".")[-1] == "cached_property" for d in decos):
                    decos = ["property"]
                if "property" in decos:
                    if recv is None:
                        raise NotModelled("property %s on class" % name)
                    return True, self._call_closure(cl, [recv], {}, recv)
                if decos:
                    raise NotModelled("decorator %s on %s" % (decos, f.qualname))
                return True, (Bound(cl, recv) if recv is not None else cl)
            if name in c.attrs:
                k = (c.module.relpath, c.name + "." + name)
                if k in self.global_overrides:
                    return True, self.global_overrides[k]
                expr = c.attrs[name]
                if isinstance(expr, ast.Name) and expr.id != name and (expr.id in c.methods or expr.id in c.attrs):
                    # class-body alias:  get = __iter__
                    return self._class_lookup(cls, recv, expr.id)
                if k not in self._constcache:
                    cenv = Env(c.module, self.module_env(c.module))
                    for nm in ast.walk(expr):
                        if isinstance(nm, ast.Name) and nm.id != name and nm.id in c.attrs:
                            cenv.vars[nm.id] = self._class_lookup(c, None, nm.id)[1]
                    self._constcache[k] = self.eval(expr, cenv)
                return True, self._constcache[k]
        return False, None

    def getattr(self, v, name, node=None, missing_ok=False):
        if isinstance(v, Obj):
            if name in v.attrs:
                return v.attrs[name]
            if v.cls is not None:
                ok, r = self._class_lookup(v.cls, v, name)
                if ok:
                    return r
            if v.tuple_fields is not None:
                if name == "_fields":
                    return v.tuple_fields
                if name == "_asdict":
                    return _Builtin(lambda it, _o=v: {f: _o.attrs[f] for f in _o.tuple_fields}, "_asdict")
                if name == "_replace":
                    def _replace(it, _o=v, **kw):
                        n = Obj(_o.cls, **dict(_o.attrs, **kw))
                        n.tuple_fields = _o.tuple_fields
                        return n
                    return _Builtin(_replace, "_replace")
                if name == "_make":
                    return _Builtin(lambda it, seq, _c=v.cls: it.instantiate(_c, list(it.iterate(seq)), {}), "_make")
            if missing_ok:
                return None
            raise PyRaise("AttributeError", ("%r has no attribute %s" % (v, name),), node, origin="eval")
        if isinstance(v, SuperProxy):
            ok, r = self._class_lookup(v.recv.cls, v.recv, name, start_after=v.after)
            if ok:
                return r
            if name == "__init__":
                return _Builtin(lambda it, *a, **k: None)
            raise PyRaise("AttributeError", ("super has no attribute %s" % name,), node)
        if isinstance(v, ClassRef):
            ok, r = self._class_lookup(v.cls, None, name)
            if ok:
                return r
            if self._record_kind(v.cls) == "namedtuple":
                if name == "_make":
                    return _Builtin(lambda it, seq, _c=v.cls: it.instantiate(_c, list(it.iterate(seq)), {}), "_make")
                if name == "_fields":
                    return tuple(f[0] for f in self._record_fields(v.cls))
            if name == "__name__":
                return v.cls.name
            raise PyRaise("AttributeError", ("class %s has no attribute %s" % (v.cls.name, name),), node, origin="eval")
        if isinstance(v, ModRef):
            return self.global_lookup(v.module, name, node)
        if isinstance(v, ExtRef):
            d = v.dotted + "." + name
            if d in self.natives and not callable(self.natives[d]):
                return self.natives[d]
            return ExtRef(d)
        if isinstance(v, _Builtin):
            f = _BUILTIN_ATTRS.get((v.name, name))
            if f is None:
                raise NotModelled("attribute %s of builtin %s" % (name, v.name))
            return _Builtin(f, "%s.%s" % (v.name, name))
        if isinstance(v, Opaque):
            raise NotModelled("attribute %s of opaque value %s" % (name, v.name))
        if isinstance(v, ExcV):
            if name == "args":
                return v.args
            raise NotModelled("attribute %s of exception value" % name)
        if isinstance(v, Pt):
            raise NotModelled("attribute %s of order-type point" % name)
        if isinstance(v, (PyModel,) + _SAFE_TYPES):
            try:
                return getattr(v, name)
            except AttributeError:
                if missing_ok:
                    return None
                raise PyRaise("AttributeError", ("%s has no attribute %s" % (type(v).__name__, name),), node, origin="eval")
        raise NotModelled("attribute %s of %r" % (name, type(v).__name__))

    def setattr(self, v, name, val, node=None):
        if isinstance(v, Obj):
            v.attrs[name] = val
        elif isinstance(v, PyModel):
            setattr(v, name, val)
        else:
            raise NotModelled("attribute store on %r" % type(v).__name__)

    # ------------------------------------------------------------------ statements
    def exec_block(self, stmts, env):
        for s in stmts:
            self.exec_stmt(s, env)

    def _tick(self):
        self.steps += 1
        if self.steps > self.max_steps:
            raise NotModelled("model evaluation exceeded %d steps (non-termination in the model?)" % self.max_steps)

    def exec_stmt(self, s, env):
        self._tick()
        if self.stmt_hook is not None:
            self.stmt_hook(self, s, env)
        m = self._sdisp.get(type(s))
        if m is None:
            m = self._sdisp[type(s)] = getattr(self, "_s_" + type(s).__name__, None)
        if m is None:
            raise NotModelled("statement %s (line %s) is outside the modelled fragment" % (type(s).__name__, getattr(s, "lineno", "?")))
        m(s, env)

    def _s_Expr(self, s, env):
        if isinstance(s.value, ast.Constant):
            return
        self.eval(s.value, env)

    def _s_Pass(self, s, env):
        pass

    def _s_Assign(self, s, env):
        v = self.eval(s.value, env)
        for t in s.targets:
            self.assign(t, v, env)

    def _s_AnnAssign(self, s, env):
        if s.value is not None:
            self.assign(s.target, self.eval(s.value, env), env)

    def _s_AugAssign(self, s, env):
        cur = self.eval(_load(s.target), env)
        v = self.eval(s.value, env)
        self.assign(s.target, self.binop(s.op, cur, v, s), env)

    def assign(self, t, v, env):
        if isinstance(t, ast.Name):
            env.vars[t.id] = v
        elif isinstance(t, ast.Attribute):
            self.setattr(self.eval(t.value, env), t.attr, v, t)
        elif isinstance(t, ast.Subscript):
            c = self.eval(t.value, env)
            k = self.eval_slice(t.slice, env)
            if isinstance(c, (list, dict)):
                try:
                    c[k] = v
                except _PY_ERRORS as e:
                    raise PyRaise(type(e).__name__, e.args, t)
            elif isinstance(c, PyModel) and hasattr(c, "__setitem__"):
                c[k] = v
            else:
                raise NotModelled("subscript store on %r" % type(c).__name__)
        elif isinstance(t, (ast.Tuple, ast.List)):
            if isinstance(v, Opaque):
                for i, x in enumerate(t.elts):
                    self.assign(x, Opaque("%s[%d]" % (v.name, i)), env)
                return
            try:
                vals = list(v) if not isinstance(v, (Obj, _Iter)) else list(self.iterate(v, t))
            except TypeError:
                raise PyRaise("TypeError", ("cannot unpack",), t)
            if len(vals) != len(t.elts):
                raise PyRaise("ValueError", ("unpack arity",), t)
            for x, y in zip(t.elts, vals):
                self.assign(x, y, env)
        else:
            raise NotModelled("assignment target %s" % type(t).__name__)

    def _s_If(self, s, env):
        if self.truth(self.eval(s.test, env), s.test):
            self.exec_block(s.body, env)
        else:
            self.exec_block(s.orelse, env)

    def _s_While(self, s, env):
        while self.truth(self.eval(s.test, env), s.test):
            self._tick()
            try:
                self.exec_block(s.body, env)
            except _Break:
                return
            except _Continue:
                continue
        self.exec_block(s.orelse, env)

    def _s_For(self, s, env):
        it = self.iterate(self.eval(s.iter, env), s.iter)
        for v in it:
            self._tick()
            self.assign(s.target, v, env)
            try:
                self.exec_block(s.body, env)
            except _Break:
                return
            except _Continue:
                continue
        self.exec_block(s.orelse, env)

    def _s_Return(self, s, env):
        raise _Return(self.eval(s.value, env) if s.value is not None else None)

    def _s_Break(self, s, env):
        raise _Break()

    def _s_Continue(self, s, env):
        raise _Continue()

    def _s_Raise(self, s, env):
        if s.exc is None:
            cur = env.lookup("__exc__")[1]
            if cur is None:
                raise NotModelled("bare raise outside handler")
            raise cur
        v = self.eval(s.exc, env)
        if isinstance(v, ExcClass):
            raise PyRaise(v.name, (), s, origin="raise")
        if isinstance(v, ExcV):
            raise PyRaise(v.name, v.args, s, origin="raise")
        if isinstance(v, ClassRef):
            raise PyRaise(v.cls.name, (), s, obj=v, origin="raise")
        if isinstance(v, Obj) and v.cls is not None:
            raise PyRaise(v.cls.name, v.attrs.get("args", ()), s, obj=v, origin="raise")
        raise NotModelled("raise of %r" % (v,))

    def exc_matches(self, exc: PyRaise, hname):
        n = exc.name
        seen = 0
        cls = exc.obj.cls if isinstance(exc.obj, Obj) else (exc.obj.cls if isinstance(exc.obj, ClassRef) else None)
        if cls is not None:
            names = set()
            for c in cls.mro():
                names.add(c.name)
                names.update(c.base_names)
            ext = set(names)
            for x in list(names):
                while x in _EXC_PARENTS:
                    x = _EXC_PARENTS[x]
                    ext.add(x)
            return hname in ext or hname == "BaseException"
        while n is not None and seen < 10:
            if n == hname:
                return True
            n = _EXC_PARENTS.get(n)
            seen += 1
        return hname == "BaseException"

    def _s_Try(self, s, env):
        try:
            try:
                self.exec_block(s.body, env)
            except PyRaise as e:
                for h in s.handlers:
                    names = []
                    if h.type is None:
                        names = ["BaseException"]
                    elif isinstance(h.type, ast.Tuple):
                        names = [ast.unparse(x).split(".")[-1] for x in h.type.elts]
                    else:
                        names = [ast.unparse(h.type).split(".")[-1]]
                    if any(self.exc_matches(e, nm) for nm in names):
                        if h.name:
                            env.vars[h.name] = ExcV(e.name, e.args_)
                        old = env.vars.get("__exc__")
                        env.vars["__exc__"] = e
                        try:
                            self.exec_block(h.body, env)
                        finally:
                            env.vars["__exc__"] = old
                        break
                else:
                    raise
            else:
                self.exec_block(s.orelse, env)
        finally:
            if s.finalbody:
                self.exec_block(s.finalbody, env)

    def _s_With(self, s, env):
        for item in s.items:
            v = self.eval(item.context_expr, env)
            if item.optional_vars is not None:
                self.assign(item.optional_vars, v, env)
        self.exec_block(s.body, env)

    def _s_FunctionDef(self, s, env):
        if s.decorator_list:
            raise NotModelled("decorated nested function %s" % s.name)
        fr = env.frame
        env.vars[s.name] = Closure(s, env, env.module, None, s.name)

    def _s_Assert(self, s, env):
        if not self.truth(self.eval(s.test, env), s.test):
            raise PyRaise("AssertionError", (), s, origin="raise")

    def _s_Delete(self, s, env):
        for t in s.targets:
            if isinstance(t, ast.Subscript):
                c = self.eval(t.value, env)
                k = self.eval_slice(t.slice, env)
                try:
                    del c[k]
                except _PY_ERRORS as e:
                    raise PyRaise(type(e).__name__, e.args, t)
            elif isinstance(t, ast.Name):
                env.vars.pop(t.id, None)
            else:
                raise NotModelled("del target")

    def _s_Global(self, s, env):
        raise NotModelled("global statement")

    def _s_Nonlocal(self, s, env):
        raise NotModelled("nonlocal statement")

    # ------------------------------------------------------------------ expressions
    def truth(self, v, node=None):
        if isinstance(v, (Obj, ClassRef, Closure, Bound, ExtRef, PyModel)):
            if isinstance(v, PyModel) and (hasattr(v, "__bool__") or hasattr(v, "__len__")):
                return bool(v)
            if isinstance(v, Obj) and v.cls is not None:
                for dn in ("__bool__", "__len__"):
                    ok, r = self._class_lookup(v.cls, v, dn)
                    if ok:
                        return bool(self.call(r, (), {}, node))
            return True
        if isinstance(v, Opaque):
            raise NotModelled("truth value of opaque %s at %s" % (v.name, ast.unparse(node) if node is not None else "?"))
        return bool(v)

    def iterate(self, v, node=None):
        if isinstance(v, (list, tuple, set, frozenset, dict, str, bytes, range)):
            return list(v)
        if isinstance(v, _Iter):
            return v
        if isinstance(v, PyModel) and hasattr(v, "__iter__"):
            return list(v)
        if isinstance(v, (type({}.items()), type({}.keys()), type({}.values()), type(iter([])), map, filter, zip, enumerate, reversed)):
            return list(v)
        if isinstance(v, Obj) and v.tuple_fields is not None:
            return list(v.as_tuple())
        if isinstance(v, Obj) and v.cls is not None:
            ok, r = self._class_lookup(v.cls, v, "__iter__")
            if ok:
                return self.iterate(self.call(r, (), {}, node), node)
            ok, r = self._class_lookup(v.cls, v, "__getitem__")
            if ok:
                out, i = [], 0
                while True:
                    self._tick()
                    try:
                        out.append(self.call(r, (i,), {}, node))
                    except PyRaise as e:
                        if e.name == "IndexError":
                            return out
                        raise
                    i += 1
            raise PyRaise("TypeError", ("%s object is not iterable" % v.cls.name,), node)
        if v is None or isinstance(v, (int, Pt)):
            raise PyRaise("TypeError", ("%s is not iterable" % type(v).__name__,), node)
        raise NotModelled("iteration over %r" % type(v).__name__)

    def eval(self, e, env):
        self._tick()
        m = self._edisp.get(type(e))
        if m is None:
            m = self._edisp[type(e)] = getattr(self, "_e_" + type(e).__name__, None)
        if m is None:
            raise NotModelled("expression %s is outside the modelled fragment" % type(e).__name__)
        return m(e, env)

    def _e_Constant(self, e, env):
        return e.value

    def _e_Name(self, e, env):
        ok, v = env.lookup(e.id)
        if ok:
            return v
        return self.global_lookup(env.module, e.id, e)

    def _e_Attribute(self, e, env):
        return self.getattr(self.eval(e.value, env), e.attr, e)

    def eval_slice(self, sl, env):
        if isinstance(sl, ast.Slice):
            return slice(*(self.eval(x, env) if x is not None else None for x in (sl.lower, sl.upper, sl.step)))
        if isinstance(sl, ast.Tuple):
            return tuple(self.eval(x, env) for x in sl.elts)
        return self.eval(sl, env)

    def _e_Subscript(self, e, env):
        c = self.eval(e.value, env)
        k = self.eval_slice(e.slice, env)
        if isinstance(c, Opaque):
            raise NotModelled("subscript of opaque %s" % c.name)
        if isinstance(c, Obj):
            ok, r = self._class_lookup(c.cls, c, "__getitem__")
            if ok:
                return self.call(r, (k,), {}, e)
            if c.tuple_fields is not None:
                try:
                    return c.as_tuple()[k]
                except _PY_ERRORS as ex:
                    raise PyRaise(type(ex).__name__, ex.args, e)
            raise PyRaise("TypeError", ("not subscriptable",), e)
        if isinstance(c, _SAFE_TYPES + (PyModel,)) and hasattr(c, "__getitem__"):
            try:
                return c[k]
            except _PY_ERRORS as ex:
                raise PyRaise(type(ex).__name__, ex.args, e)
        raise NotModelled("subscript of %r" % type(c).__name__)

    def _e_Call(self, e, env):
        # super()
        if isinstance(e.func, ast.Name) and e.func.id == "super" and not e.args:
            e2 = env
            while e2 is not None and (e2.frame is None or e2.frame[1] is None):
                e2 = e2.parent
            if e2 is None:
                raise NotModelled("super() outside a method")
            return SuperProxy(e2.frame[0], e2.frame[1])
        fn = self.eval(e.func, env)
        if isinstance(fn, ExtRef) and fn.dotted not in self.natives and \
                any(fn.dotted == p or fn.dotted.startswith(p + ".") for p in self.lenient):
            return None  # logging call: arguments are not evaluated (no effect on the modelled state)
        args = []
        for a in e.args:
            if isinstance(a, ast.Starred):
                args.extend(self.iterate(self.eval(a.value, env), a))
            else:
                args.append(self.eval(a, env))
        kwargs = {}
        for k in e.keywords:
            if k.arg is None:
                raise NotModelled("**kwargs call")
            kwargs[k.arg] = self.eval(k.value, env)
        return self.call(fn, args, kwargs, e)

    def _e_BoolOp(self, e, env):
        v = None
        for x in e.values:
            v = self.eval(x, env)
            t = self.truth(v, x)
            if isinstance(e.op, ast.And) and not t:
                return v
            if isinstance(e.op, ast.Or) and t:
                return v
        return v

    def _e_UnaryOp(self, e, env):
        v = self.eval(e.operand, env)
        if isinstance(e.op, ast.Not):
            return not self.truth(v, e.operand)
        if isinstance(v, Opaque):
            raise NotModelled("arithmetic on opaque")
        try:
            if isinstance(e.op, ast.USub):
                return -v
            if isinstance(e.op, ast.UAdd):
                return +v
            if isinstance(e.op, ast.Invert):
                return ~v
        except _PY_ERRORS as ex:
            raise PyRaise(type(ex).__name__, ex.args, e)
        raise NotModelled("unary op")

    def binop(self, op, a, b, node):
        if isinstance(a, Opaque) or isinstance(b, Opaque):
            raise NotModelled("arithmetic on opaque value in %s" % ast.unparse(node))
        f = _BIN.get(type(op))
        if f is None:
            raise NotModelled("binary operator %s" % type(op).__name__)
        if not (isinstance(a, _SAFE_TYPES + (Pt, PyModel)) and isinstance(b, _SAFE_TYPES + (Pt, PyModel))):
            raise NotModelled("binary operator on %s, %s" % (type(a).__name__, type(b).__name__))
        try:
            return f(a, b)
        except _PY_ERRORS as ex:
            raise PyRaise(type(ex).__name__, ex.args, node)

    def _e_BinOp(self, e, env):
        return self.binop(e.op, self.eval(e.left, env), self.eval(e.right, env), e)

    def compare(self, op, a, b, node):
        if isinstance(op, ast.Is):
            return _is(a, b)
        if isinstance(op, ast.IsNot):
            return not _is(a, b)
        if isinstance(a, Opaque) or isinstance(b, Opaque):
            raise NotModelled("comparison of opaque value in %s" % ast.unparse(node))
        try:
            if isinstance(op, ast.In):
                return self._contains(b, a, node)
            if isinstance(op, ast.NotIn):
                return not self._contains(b, a, node)
            if isinstance(op, ast.Eq):
                return self._eq(a, b)
            if isinstance(op, ast.NotEq):
                return not self._eq(a, b)
            if isinstance(a, Obj) or isinstance(b, Obj):
                raise NotModelled("ordering comparison of objects")
            if isinstance(op, ast.Lt):
                return a < b
            if isinstance(op, ast.LtE):
                return a <= b
            if isinstance(op, ast.Gt):
                return a > b
            if isinstance(op, ast.GtE):
                return a >= b
        except _PY_ERRORS as ex:
            raise PyRaise(type(ex).__name__, ex.args, node)
        raise NotModelled("comparison operator")

    def _eq(self, a, b):
        if isinstance(a, Obj) and a.tuple_fields is not None:
            a = a.as_tuple()
        if isinstance(b, Obj) and b.tuple_fields is not None:
            b = b.as_tuple()
        if isinstance(a, tuple) and isinstance(b, tuple):
            return len(a) == len(b) and all(self._eq(x, y) for x, y in zip(a, b))
        if isinstance(a, Obj) and a.cls is not None:
            ok, r = self._class_lookup(a.cls, a, "__eq__")
            if ok:
                return self.truth(self.call(r, (b,), {}))
        return a == b

    def _contains(self, c, x, node):
        if isinstance(c, Obj):
            ok, r = self._class_lookup(c.cls, c, "__contains__")
            if ok:
                return self.truth(self.call(r, (x,), {}, node))
            raise PyRaise("TypeError", ("not a container",), node)
        if isinstance(c, _Iter):
            c = list(c)
        if isinstance(c, (list, tuple)):
            return any(_is(x, y) or self._eq(y, x) for y in c)
        if isinstance(c, (set, frozenset, dict, str, bytes, range)) or (isinstance(c, PyModel) and hasattr(c, "__contains__")):
            return x in c
        if isinstance(c, (type({}.keys()), type({}.values()))):
            return x in c
        raise NotModelled("membership test on %r" % type(c).__name__)

    def _e_Compare(self, e, env):
        left = self.eval(e.left, env)
        for op, c in zip(e.ops, e.comparators):
            right = self.eval(c, env)
            if not self.truth(self.compare(op, left, right, e), e):
                return False
            left = right
        return True

    def _e_IfExp(self, e, env):
        return self.eval(e.body if self.truth(self.eval(e.test, env), e.test) else e.orelse, env)

    def _e_Lambda(self, e, env):
        return Closure(e, env, env.module, None, "<lambda>")

    def _e_List(self, e, env):
        return self._seq(e.elts, env)

    def _e_Tuple(self, e, env):
        return tuple(self._seq(e.elts, env))

    def _e_Set(self, e, env):
        return set(self._seq(e.elts, env))

    def _seq(self, elts, env):
        out = []
        for x in elts:
            if isinstance(x, ast.Starred):
                out.extend(self.iterate(self.eval(x.value, env), x))
            else:
                out.append(self.eval(x, env))
        return out

    def _e_Dict(self, e, env):
        d = {}
        for k, v in zip(e.keys, e.values):
            if k is None:
                d.update(self.eval(v, env))
            else:
                d[self.eval(k, env)] = self.eval(v, env)
        return d

    def _comp(self, gens, env, emit):
        def rec(i, env):
            if i == len(gens):
                emit(env)
                return
            g = gens[i]
            if g.is_async:
                raise NotModelled("async comprehension")
            for v in self.iterate(self.eval(g.iter, env), g.iter):
                self._tick()
                e2 = Env(env.module, env)
                self.assign(g.target, v, e2)
                if all(self.truth(self.eval(c, e2), c) for c in g.ifs):
                    rec(i + 1, e2)
        rec(0, env)

    def _e_ListComp(self, e, env):
        out = []
        self._comp(e.generators, env, lambda en: out.append(self.eval(e.elt, en)))
        return out

    def _e_SetComp(self, e, env):
        out = set()
        self._comp(e.generators, env, lambda en: out.add(self.eval(e.elt, en)))
        return out

    def _e_GeneratorExp(self, e, env):
        # evaluated eagerly (the fragment has no observable laziness: no side effects in generators)
        out = []
        self._comp(e.generators, env, lambda en: out.append(self.eval(e.elt, en)))
        return _Iter(out)

    def _e_DictComp(self, e, env):
        out = {}
        self._comp(e.generators, env, lambda en: out.__setitem__(self.eval(e.key, en), self.eval(e.value, en)))
        return out

    def _e_JoinedStr(self, e, env):
        parts = []
        for v in e.values:
            if isinstance(v, ast.Constant):
                parts.append(str(v.value))
            else:
                try:
                    x = self.eval(v.value, env)
                    parts.append(repr(x) if v.conversion == 114 else str(x))
                except NotModelled:
                    parts.append("<?>")
        return "".join(parts)

    def _e_NamedExpr(self, e, env):
        v = self.eval(e.value, env)
        self.assign(e.target, v, env)
        return v

    def _e_Yield(self, e, env):
        ok, ys = env.lookup("__yields__")
        if not ok:
            raise NotModelled("yield outside a generator function")
        ys.append(self.eval(e.value, env) if e.value is not None else None)
        return None

    def _e_YieldFrom(self, e, env):
        ok, ys = env.lookup("__yields__")
        if not ok:
            raise NotModelled("yield outside a generator function")
        ys.extend(self.iterate(self.eval(e.value, env), e))
        return None

    def _e_Starred(self, e, env):
        raise NotModelled("starred expression")


class _Iter:
    """one-shot iterator over an eagerly evaluated generator expression"""

    def __init__(self, items):
        self.items = list(items)
        self.pos = 0

    def __iter__(self):
        return self

    def __next__(self):
        if self.pos >= len(self.items):
            raise StopIteration
        v = self.items[self.pos]
        self.pos += 1
        return v


class _Sentinel(PyModel):
    """object(): a unique value"""


def _issubclass(c, k):
    ks = k if isinstance(k, tuple) else (k,)
    if not isinstance(c, ClassRef) or not all(isinstance(x, ClassRef) for x in ks):
        raise NotModelled("issubclass on non-repository classes")
    return any(any(m is x.cls for m in c.cls.mro()) for x in ks)


def _type_of(x):
    raise NotModelled("type() of %r" % type(x).__name__)


class _FieldSpec:
    """dataclasses.field(default=..., default_factory=...)"""

    def __init__(self, default=None, default_factory=None, **kw):
        self.default, self.factory = default, default_factory


class _Builtin:
    def __init__(self, f, name=""):
        self.f = f
        self.name = name


def _is(a, b):
    if a is b:
        return True
    if a is None or b is None:
        return False
    if isinstance(a, bool) or isinstance(b, bool):
        return isinstance(a, bool) and isinstance(b, bool) and a == b
    if isinstance(a, ClassRef) and isinstance(b, ClassRef):
        return a.cls is b.cls
    return False


def _load(t):
    import copy
    t2 = copy.copy(t)
    t2.ctx = ast.Load()
    return t2


def _it(interp, v):
    return interp.iterate(v)


def _b_int(it, x=0, base=None):
    if isinstance(x, Pt):
        return x
    if isinstance(x, Opaque):
        raise NotModelled("int() of opaque")
    if isinstance(x, (Obj, PyModel)) or x is None or isinstance(x, (list, dict, tuple, set)):
        raise TypeError("int() argument must be a string or a number, not %s" % type(x).__name__)
    v = int(x) if base is None else int(x, base)
    if it.int_hook is not None and isinstance(x, (str, bytes)):
        return it.int_hook(v)
    return v


def _b_str(it, x=""):
    if isinstance(x, (Obj, Opaque)):
        raise NotModelled("str() of %r" % (x,))
    return str(x)


def _b_len(it, x):
    if isinstance(x, Obj) and x.tuple_fields is not None:
        return len(x.tuple_fields)
    if isinstance(x, Obj):
        ok, r = it._class_lookup(x.cls, x, "__len__")
        if ok:
            return it.call(r)
        raise TypeError("no len()")
    if isinstance(x, Opaque):
        raise NotModelled("len() of opaque")
    return len(x)


def _b_filter(it, f, seq):
    items = it.iterate(seq)
    if f is None:
        return _Iter([x for x in items if it.truth(x)])
    return _Iter([x for x in items if it.truth(it.call(f, (x,)))])


def _b_map(it, f, *seqs):
    cols = [it.iterate(s) for s in seqs]
    return _Iter([it.call(f, row) for row in zip(*cols)])


def _b_minmax(which):
    def f(it, *args, key=None, default=_b_minmax):
        items = it.iterate(args[0]) if len(args) == 1 else list(args)
        if not items:
            if default is not _b_minmax:
                return default
            raise ValueError("%s() arg is an empty sequence" % which.__name__)
        if key is not None:
            return which(items, key=lambda x: it.call(key, (x,)))
        return which(items)
    return f


def _b_sorted(it, seq, key=None, reverse=False):
    items = it.iterate(seq)
    if key is not None:
        return sorted(items, key=lambda x: it.call(key, (x,)), reverse=reverse)
    return sorted(items, reverse=reverse)


def _b_next(it, iterator, *default):
    if isinstance(iterator, _Iter):
        try:
            return next(iterator)
        except StopIteration:
            if default:
                return default[0]
            raise
    if isinstance(iterator, (list, tuple, set, dict, str)):
        raise TypeError("%s object is not an iterator" % type(iterator).__name__)
    raise NotModelled("next() of %r" % type(iterator).__name__)


def _b_iter(it, x):
    return _Iter(it.iterate(x))


def _b_isinstance(it, v, c):
    cs = c if isinstance(c, tuple) else (c,)
    for k in cs:
        if isinstance(k, ClassRef):
            if isinstance(v, Obj) and v.cls is not None and any(x is k.cls for x in v.cls.mro()):
                return True
        elif isinstance(k, _Builtin) and k.name in ("int", "str", "list", "tuple", "dict", "set", "bool", "bytes"):
            py = {"int": int, "str": str, "list": list, "tuple": tuple, "dict": dict, "set": set, "bool": bool, "bytes": bytes}[k.name]
            if k.name == "int" and isinstance(v, Pt):
                return True
            if isinstance(v, py):
                return True
        else:
            raise NotModelled("isinstance against %r" % (k,))
    return False


def _b_getattr(it, o, name, *default):
    try:
        return it.getattr(o, name)
    except PyRaise:
        if default:
            return default[0]
        raise


def _b_hasattr(it, o, name):
    try:
        it.getattr(o, name)
        return True
    except PyRaise:
        return False


def _b_setattr(it, o, name, v):
    it.setattr(o, name, v)


_BUILTINS = {
    "int": _Builtin(_b_int, "int"),
    "str": _Builtin(_b_str, "str"),
    "len": _Builtin(_b_len, "len"),
    "filter": _Builtin(_b_filter, "filter"),
    "map": _Builtin(_b_map, "map"),
    "max": _Builtin(_b_minmax(max), "max"),
    "min": _Builtin(_b_minmax(min), "min"),
    "sorted": _Builtin(_b_sorted, "sorted"),
    "next": _Builtin(_b_next, "next"),
    "iter": _Builtin(_b_iter, "iter"),
    "isinstance": _Builtin(_b_isinstance, "isinstance"),
    "getattr": _Builtin(_b_getattr, "getattr"),
    "hasattr": _Builtin(_b_hasattr, "hasattr"),
    "setattr": _Builtin(_b_setattr, "setattr"),
    "list": _Builtin(lambda it, x=(): list(it.iterate(x)), "list"),
    "tuple": _Builtin(lambda it, x=(): tuple(it.iterate(x)), "tuple"),
    "set": _Builtin(lambda it, x=(): set(it.iterate(x)), "set"),
    "frozenset": _Builtin(lambda it, x=(): frozenset(it.iterate(x)), "frozenset"),
    "dict": _Builtin(lambda it, x=(), **kw: dict(x if isinstance(x, dict) else it.iterate(x), **kw), "dict"),
    "bool": _Builtin(lambda it, x=False: it.truth(x), "bool"),
    "any": _Builtin(lambda it, x: any(it.truth(v) for v in it.iterate(x)), "any"),
    "all": _Builtin(lambda it, x: all(it.truth(v) for v in it.iterate(x)), "all"),
    "range": _Builtin(lambda it, *a: range(*a), "range"),
    "zip": _Builtin(lambda it, *a: [tuple(r) for r in zip(*[it.iterate(x) for x in a])], "zip"),
    "enumerate": _Builtin(lambda it, x, start=0: list(enumerate(it.iterate(x), start)), "enumerate"),
    "reversed": _Builtin(lambda it, x: list(reversed(it.iterate(x))), "reversed"),
    "issubclass": _Builtin(lambda it, c, k: _issubclass(c, k), "issubclass"),
    "object": _Builtin(lambda it: _Sentinel(), "object"),
    "callable": _Builtin(lambda it, x: isinstance(x, (Closure, Bound, NativeBound, ClassRef, _Builtin)) or callable(x), "callable"),
    "divmod": _Builtin(lambda it, a, b: divmod(a, b), "divmod"),
    "ord": _Builtin(lambda it, c: ord(c), "ord"), "chr": _Builtin(lambda it, c: chr(c), "chr"),
    "bytes": _Builtin(lambda it, *a: bytes(*a), "bytes"), "bytearray": _Builtin(lambda it, *a: bytearray(*a), "bytearray"),
    "float": _Builtin(lambda it, x=0.0: float(x), "float"), "round": _Builtin(lambda it, *a: round(*a), "round"),
    "type": _Builtin(lambda it, x: ClassRef(x.cls) if isinstance(x, Obj) and x.cls is not None else _type_of(x), "type"),
    "hex": _Builtin(lambda it, x: hex(x) if isinstance(x, int) else "0x<%s>" % (x,), "hex"),
    "abs": _Builtin(lambda it, x: abs(x), "abs"),
    "sum": _Builtin(lambda it, x, start=0: sum(it.iterate(x), start), "sum"),
    "repr": _Builtin(lambda it, x: repr(x), "repr"),
    "print": _Builtin(lambda it, *a, **k: None, "print"),
    "id": _Builtin(lambda it, x: id(x), "id"),
}


class Lin(PyModel):
    """c + sum(k_i * atom_i): exact linear arithmetic over symbolic non-negative ints"""

    def __init__(self, terms=None, const=0):
        self.terms = {k: v for k, v in (terms or {}).items() if v}
        self.const = const

    LOW = {}  # atom name -> known lower bound (default 0: symbolic non-negative ints)

    @staticmethod
    def atom(name, low=0):
        if low:
            Lin.LOW[name] = max(low, Lin.LOW.get(name, 0))
        return Lin({name: 1}, 0)

    def sign(self):
        """'+' if provably > 0, '0' if == 0, '-' if provably < 0, '>=0', '<=0', or None (not decided by the
        lower bounds of the atoms)"""
        if not self.terms:
            return "+" if self.const > 0 else "-" if self.const < 0 else "0"
        if all(k > 0 for k in self.terms.values()):
            lo = self.const + sum(k * Lin.LOW.get(a, 0) for a, k in self.terms.items())
            return "+" if lo > 0 else ">=0" if lo == 0 else None
        if all(k < 0 for k in self.terms.values()):
            hi = self.const + sum(k * Lin.LOW.get(a, 0) for a, k in self.terms.items())
            return "-" if hi < 0 else "<=0" if hi == 0 else None
        return None

    @staticmethod
    def of(x):
        if isinstance(x, Lin):
            return x
        if isinstance(x, int) and not isinstance(x, bool):
            return Lin({}, x)
        raise NotModelled("non-linear operand %r" % (x,))

    def __add__(self, o):
        o = Lin.of(o)
        t = dict(self.terms)
        for k, v in o.terms.items():
            t[k] = t.get(k, 0) + v
        return Lin(t, self.const + o.const)

    __radd__ = __add__

    def __neg__(self):
        return Lin({k: -v for k, v in self.terms.items()}, -self.const)

    def __sub__(self, o):
        return self + (-Lin.of(o))

    def __rsub__(self, o):
        return Lin.of(o) + (-self)

    def __mul__(self, o):
        if isinstance(o, Lin) and not o.terms:
            o = o.const
        if isinstance(o, int) and not isinstance(o, bool):
            return Lin({k: v * o for k, v in self.terms.items()}, self.const * o)
        raise NotModelled("non-linear product")

    __rmul__ = __mul__

    def __eq__(self, o):
        try:
            o = Lin.of(o)
        except NotModelled:
            return False
        return self.terms == o.terms and self.const == o.const

    def __ne__(self, o):
        return not self == o

    def __hash__(self):
        return hash((tuple(sorted(self.terms.items())), self.const))

    def _diff_sign(self, o, what):
        d = self - Lin.of(o)
        sg = d.sign()
        if sg is None:
            raise NotModelled("ordering comparison %s %s %s is not decided by the bounds of the symbolic lengths" % (self, what, o))
        return sg

    def __lt__(self, o):
        sg = self._diff_sign(o, "<")
        if sg in ("-",):
            return True
        if sg in ("+", "0", ">=0"):
            return False
        raise NotModelled("ordering comparison %s < %s is not decided" % (self, o))

    def __le__(self, o):
        sg = self._diff_sign(o, "<=")
        if sg in ("-", "0", "<=0"):
            return True
        if sg == "+":
            return False
        raise NotModelled("ordering comparison %s <= %s is not decided" % (self, o))

    def __gt__(self, o):
        sg = self._diff_sign(o, ">")
        if sg == "+":
            return True
        if sg in ("-", "0", "<=0"):
            return False
        raise NotModelled("ordering comparison %s > %s is not decided" % (self, o))

    def __ge__(self, o):
        sg = self._diff_sign(o, ">=")
        if sg in ("+", "0", ">=0"):
            return True
        if sg == "-":
            return False
        raise NotModelled("ordering comparison %s >= %s is not decided" % (self, o))

    def __bool__(self):
        raise NotModelled("truth value of symbolic linear value %s" % self)

    def __repr__(self):
        parts = ["%s%s" % ("" if v == 1 else "%d*" % v, k) for k, v in sorted(self.terms.items())]
        if self.const or not parts:
            parts.append(str(self.const))
        return " + ".join(parts).replace("+ -", "- ")

    __str__ = __repr__

    def __format__(self, spec):
        return repr(self)



def _default_natives(it):
    """pure library functions that are defined on model values through their comparisons only
    (order-type points implement <, <=, ==): bisect, a few itertools/functools/operator members"""
    import bisect as _bisect
    import itertools as _it

    def keyf(key):
        return None if key is None else (lambda x: it.call(key, (x,)))

    def bl(a, x, lo=0, hi=None, key=None):
        return _bisect.bisect_left(a, x, lo, len(a) if hi is None else hi, key=keyf(key))

    def br(a, x, lo=0, hi=None, key=None):
        return _bisect.bisect_right(a, x, lo, len(a) if hi is None else hi, key=keyf(key))

    def insl(a, x, lo=0, hi=None, key=None):
        _bisect.insort_left(a, x, lo, len(a) if hi is None else hi, key=keyf(key))

    def insr(a, x, lo=0, hi=None, key=None):
        _bisect.insort_right(a, x, lo, len(a) if hi is None else hi, key=keyf(key))

    def takewhile(pred, seq):
        return _Iter(list(_it.takewhile(lambda x: it.truth(it.call(pred, (x,))), it.iterate(seq))))

    def dropwhile(pred, seq):
        return _Iter(list(_it.dropwhile(lambda x: it.truth(it.call(pred, (x,))), it.iterate(seq))))

    def chain(*seqs):
        return _Iter([x for q in seqs for x in it.iterate(q)])

    def chain_from_iterable(seqs):
        return _Iter([x for q in it.iterate(seqs) for x in it.iterate(q)])

    def groupby(seq, key=None):
        kf = (lambda x: x) if key is None else (lambda x: it.call(key, (x,)))
        return _Iter([(k, _Iter(list(g))) for k, g in _it.groupby(it.iterate(seq), kf)])

    def islice(seq, *a):
        return _Iter(list(_it.islice(it.iterate(seq), *a)))

    def accumulate(seq, func=None, initial=None):
        f = None if func is None else (lambda a, b: it.call(func, (a, b)))
        return _Iter(list(_it.accumulate(it.iterate(seq), f, initial=initial)))

    def pairwise(seq):
        return _Iter(list(_it.pairwise(it.iterate(seq))))

    def product(*seqs, repeat=1):
        return _Iter(list(_it.product(*[it.iterate(q) for q in seqs], repeat=repeat)))

    class _Match(PyModel):
        def __init__(self, m):
            self._m = m
            for nm in ("group", "groups", "groupdict", "start", "end", "span"):
                setattr(self, nm, getattr(m, nm))

        def __bool__(self):
            return True

        def __getitem__(self, k):
            return self._m[k]

    def _wrap(m):
        return None if m is None else _Match(m)

    class _Pattern(PyModel):
        def __init__(self, pat, flags=0):
            import re as _re
            self._p = _re.compile(pat, flags)
            self.pattern = pat

        def match(self, s2, *a):
            return _wrap(self._p.match(s2, *a))

        def search(self, s2, *a):
            return _wrap(self._p.search(s2, *a))

        def fullmatch(self, s2, *a):
            return _wrap(self._p.fullmatch(s2, *a))

    def re_compile(pat, flags=0):
        if not isinstance(pat, (str, bytes)):
            raise NotModelled("re.compile of a non-literal pattern")
        return _Pattern(pat, flags)

    def re_fn(name):
        def f(pat, s2, flags=0):
            import re as _re
            if isinstance(pat, _Pattern):
                return _wrap(getattr(pat._p, name)(s2))
            if not isinstance(pat, (str, bytes)) or not isinstance(s2, (str, bytes)):
                raise NotModelled("re.%s on model values" % name)
            return _wrap(getattr(_re, name)(pat, s2, flags))
        return f

    class _Getter(PyModel):
        def __init__(self, f):
            self._f = f

        def __call__(self, *a):
            return self._f(*a)

    def attrgetter(*names):
        def one(o, dotted):
            for part in dotted.split("."):
                o = it.getattr(o, part)
            return o
        if len(names) == 1:
            return _Getter(lambda o: one(o, names[0]))
        return _Getter(lambda o: tuple(one(o, n) for n in names))

    def itemgetter(*keys):
        def one(o, k):
            if isinstance(o, Obj):
                return it.call(it.getattr(o, "__getitem__"), (k,))
            return o[k]
        if len(keys) == 1:
            return _Getter(lambda o: one(o, keys[0]))
        return _Getter(lambda o: tuple(one(o, k) for k in keys))

    def methodcaller(name, *a, **k):
        return _Getter(lambda o: it.call(it.getattr(o, name), a, k))

    def partial(f, *a, **k):
        return _Getter(lambda *b, **kk: it.call(f, a + b, dict(k, **kk)))

    import operator as _op
    import struct as _st

    def _serr(f):
        def g(*a):
            try:
                return f(*a)
            except _st.error as e:
                raise PyRaise("struct.error", (str(e),))
        g._model_native = True
        return g

    class _Struct(PyModel):
        def __init__(self, fmt):
            if not isinstance(fmt, (str, bytes)):
                raise NotModelled("struct.Struct of a non-literal format")
            self._s = _st.Struct(fmt)
            self.size = self._s.size
            self.format = fmt
            self.unpack = _serr(self._s.unpack)
            self.unpack_from = _serr(self._s.unpack_from)
            self.pack = _serr(self._s.pack)
            self.iter_unpack = _serr(lambda b: _Iter(list(self._s.iter_unpack(b))))

    def reduce(f, seq, *init):
        import functools
        return functools.reduce(lambda a, b: it.call(f, (a, b)), it.iterate(seq), *init)

    return {
        "bisect.bisect_left": bl, "bisect.bisect_right": br, "bisect.bisect": br,
        "bisect.insort_left": insl, "bisect.insort_right": insr, "bisect.insort": insr,
        "itertools.takewhile": takewhile, "itertools.dropwhile": dropwhile, "itertools.chain": chain,
        "itertools.chain.from_iterable": chain_from_iterable, "itertools.groupby": groupby, "itertools.islice": islice,
        "itertools.accumulate": accumulate, "itertools.pairwise": pairwise, "itertools.product": product,
        "operator.attrgetter": attrgetter, "operator.itemgetter": itemgetter, "operator.methodcaller": methodcaller,
        "functools.partial": partial,
        "struct.Struct": _Struct, "struct.unpack": _serr(_st.unpack), "struct.unpack_from": _serr(_st.unpack_from),
        "struct.pack": _serr(_st.pack), "struct.calcsize": _st.calcsize,
        "dataclasses.field": _FieldSpec,
        "operator.not_": lambda x: not it.truth(x), "operator.truth": lambda x: it.truth(x),
        "operator.is_": lambda a, b: _is(a, b), "operator.is_not": lambda a, b: not _is(a, b),
        "operator.eq": _op.eq, "operator.ne": _op.ne, "operator.lt": _op.lt, "operator.le": _op.le, "operator.gt": _op.gt, "operator.ge": _op.ge,
        "operator.add": _op.add, "operator.sub": _op.sub, "operator.mul": _op.mul, "operator.contains": lambda c, x: it._contains(c, x, None),
        "re.compile": re_compile, "re.match": re_fn("match"), "re.search": re_fn("search"), "re.fullmatch": re_fn("fullmatch"),
        "functools.reduce": reduce,
    }


_BUILTIN_ATTRS = {
    ("dict", "fromkeys"): lambda it, seq, value=None: dict.fromkeys(it.iterate(seq), value),
    ("str", "join"): lambda it, sep, seq: sep.join(it.iterate(seq)),
    ("str", "format"): lambda it, fmt, *a, **k: fmt.format(*a, **k),
    ("int", "from_bytes"): lambda it, b, byteorder="big", signed=False: int.from_bytes(b, byteorder, signed=signed),
    ("bytes", "fromhex"): lambda it, x: bytes.fromhex(x),
}


def clone_func(node):
    """copy of a function node for in-memory mutation (no parent links, fresh positions)"""
    import textwrap
    n = ast.parse(textwrap.dedent(ast.unparse(node))).body[0]
    return n


def native(f):
    """mark a plain Python function as a model native that may be bound in an environment"""
    f._model_native = True
    return f


class Sink:
    """ctx-like collector used for in-memory mutation adequacy: records findings, never prints"""

    def __init__(self, ctx):
        self.repo = ctx.repo
        self.tier = "quick"
        self.findings = []
        self.obs = 0
        self.counts = {}
        self.extra = {}
        self.explanation = ""

    def mod(self, rel):
        return self.repo.mod(rel)

    def analysed(self, f):
        pass

    def ob(self, rule, instance, ok, detail=""):
        self.obs += 1
        return ok

    def finding(self, rule, func, construct, message, node=None, file=None, witness=None):
        self.findings.append((rule, getattr(func, "qualname", func), construct if isinstance(construct, str) else ast.unparse(construct), message))

    def check(self, rule, instance, ok, func, construct, message, node=None, witness=None, detail=""):
        self.obs += 1
        if not ok:
            self.finding(rule, func, construct, message)
        return ok

    def count(self, name, n=1):
        self.counts[name] = self.counts.get(name, 0) + n

    def floor(self, name, minimum, actual=None):
        actual = self.counts.get(name, 0) if actual is None else actual
        if actual < minimum:
            raise AnalysisError("instance floor not met for %s: matched %d, expected >= %d" % (name, actual, minimum))

    def require(self, cond, what):
        if not cond:
            raise AnalysisError(what)

    def note(self, s):
        pass

    def assume(self, s):
        pass
