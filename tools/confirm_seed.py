#!/venv/bin/python
"""Developer tool: confirm one seeded change delivered under /tmp/seed_out/<PID>/ and file it under /verif/seeded/<PID>_<V>/.

 1. fresh scratch worktree of /repo HEAD (outside /repo and /verif), demo on the original code must PASS
 2. apply variant_<V>.diff, changed files must compile, demo must FAIL
 3. full test suite in the worktree: the set of passing tests must equal the worktree baseline (/tmp/conf_base/pass.txt)
 4. run the property's check (and, with --all, every registered check) with --repo <worktree>; record exit codes
 5. remove the worktree
"""
import json, os, re, shutil, subprocess, sys, py_compile, glob

pid, var = sys.argv[1], sys.argv[2]
run_all = "--all" in sys.argv
src = "%s/%s" % (os.environ.get("SEED_OUT", "/tmp/seed_out"), pid)
wt = "/tmp/conf_%s_%s" % (pid, var)
VERIF = "/verif"
PY = "/venv/bin/python"


def sh(cmd, cwd=None, timeout=1800):
    p = subprocess.run(cmd, shell=True, cwd=cwd, capture_output=True, text=True, timeout=timeout)
    return p.returncode, p.stdout + p.stderr


def passset(junit):
    import xml.etree.ElementTree as ET
    ok = set()
    for tc in ET.parse(junit).getroot().iter("testcase"):
        if not any(ch.tag in ("failure", "error", "skipped") for ch in tc):
            ok.add("%s::%s" % (tc.get("classname"), tc.get("name")))
    return ok


def suite(cwd, junit):
    sh("%s -m pytest -q -p no:cacheprovider --timeout=900 --continue-on-collection-errors --junitxml=%s tests" % (PY, junit), cwd=cwd, timeout=3000)
    return passset(junit)


if pid == "BASE":
    sh("git -C /repo worktree remove --force /tmp/conf_base_wt; rm -rf /tmp/conf_base_wt")
    sh("git -C /repo worktree add --detach /tmp/conf_base_wt HEAD")
    os.makedirs("/tmp/conf_base", exist_ok=True)
    ok = suite("/tmp/conf_base_wt", "/tmp/conf_base/junit.xml")
    open("/tmp/conf_base/pass.txt", "w").write("\n".join(sorted(ok)))
    sh("git -C /repo worktree remove --force /tmp/conf_base_wt")
    print("baseline-in-worktree: %d passing" % len(ok))
    sys.exit(0)

diff = os.path.join(src, "variant_%s.diff" % var)
demo = os.path.join(src, "demo_%s.py" % var)
meta_in = json.load(open(os.path.join(src, "meta.json"))) if os.path.exists(os.path.join(src, "meta.json")) else {}
res = dict(property=pid, variant=var, agent_meta=(meta_in.get("variants") or {}).get(var))
sh("git -C /repo worktree remove --force %s; rm -rf %s" % (wt, wt))
rc, out = sh("git -C /repo worktree add --detach %s HEAD" % wt)
assert rc == 0, out
try:
    rc, out = sh("%s %s" % (PY, demo), cwd=wt, timeout=600)
    res["demo_original"] = dict(rc=rc, tail=out[-300:])
    rc, out = sh("git apply %s" % diff, cwd=wt)
    res["applies"] = rc == 0
    if rc != 0:
        res["apply_error"] = out[-300:]
        raise SystemExit
    changed = [l[6:].strip() for l in open(diff) if l.startswith("+++ b/")]
    res["files"] = changed
    comp = True
    for c in changed:
        if c.endswith(".py"):
            try:
                py_compile.compile(os.path.join(wt, c), doraise=True, cfile="/tmp/conf_x.pyc")
            except py_compile.PyCompileError as e:
                comp = False
                res["compile_error"] = str(e)[-300:]
    res["compiles"] = comp
    rc, out = sh("%s %s" % (PY, demo), cwd=wt, timeout=600)
    res["demo_changed"] = dict(rc=rc, tail=out[-400:])
    ok = suite(wt, "/tmp/conf_%s_%s.xml" % (pid, var))
    base = set(open("/tmp/conf_base/pass.txt").read().split("\n"))
    res["tests"] = dict(passing=len(ok), baseline_passing=len(base), newly_failing=sorted(base - ok), newly_passing=sorted(ok - base))
    # our checks
    props = [pid]
    if run_all:
        props = [c["property_id"] for c in json.load(open(os.path.join(VERIF, "MANIFEST.json")))["checks"]]
        if pid not in props:
            props.append(pid)
    checks = {}
    for p in props:
        if not os.path.exists(os.path.join(VERIF, "agstatic", "rules", p.lower() + ".py")):
            checks[p] = dict(rc=None, note="no rule")
            continue
        rc, out = sh("./check %s --repo %s --evidence-dir /tmp/conf_ev_%s_%s" % (p, wt, pid, var), cwd=VERIF, timeout=900)
        checks[p] = dict(rc=rc, lines=[l[:400] for l in out.splitlines() if l.startswith(("FINDING", "VIOLATION", "ANALYSIS-ERROR"))][:8])
    res["checks"] = checks
    res["valid_seed"] = bool(res["demo_original"]["rc"] == 0 and res["compiles"] and res["demo_changed"]["rc"] != 0 and not res["tests"]["newly_failing"])
    res["caught_by_own_check"] = checks.get(pid, {}).get("rc") == 1
    res["caught_by"] = sorted(p for p, c in checks.items() if c.get("rc") == 1)
finally:
    sh("git -C /repo worktree remove --force %s; rm -rf %s /tmp/conf_ev_%s_%s" % (wt, wt, pid, var))
    out_dir = os.path.join(VERIF, "seeded", "%s_%s" % (pid, var))
    os.makedirs(out_dir, exist_ok=True)
    if os.path.exists(diff):
        shutil.copy(diff, os.path.join(out_dir, "patch.diff"))
    if os.path.exists(demo):
        shutil.copy(demo, os.path.join(out_dir, "demo.py"))
    res["what_i_ran"] = "tools/confirm_seed.py %s %s%s: scratch worktree of /repo HEAD; demo on original; git apply; py_compile; demo on changed; full pytest suite vs worktree baseline; ./check <ids> --repo <worktree>" % (pid, var, " --all" if run_all else "")
    res["repo_head"] = sh("git -C /repo rev-parse --short HEAD")[1].strip()
    json.dump(res, open(os.path.join(out_dir, "meta.json"), "w"), indent=1)
    print(json.dumps({k: res.get(k) for k in ("property", "variant", "valid_seed", "caught_by_own_check", "caught_by")}), res.get("tests", {}).get("newly_failing"), res.get("demo_original", {}).get("rc"), res.get("demo_changed", {}).get("rc"))
