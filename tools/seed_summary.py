#!/venv/bin/python
import json, os, glob
for d in sorted(glob.glob('/verif/seeded/*')):
    mp = os.path.join(d, 'meta.json')
    if not os.path.exists(mp):
        continue
    m = json.load(open(mp))
    own = m['checks'].get(m['property'], {}) if m.get('checks') else {}
    print("%-7s %-7s own_rc=%-4s caught_by=%s" % (os.path.basename(d), 'valid' if m.get('valid_seed') else 'INVALID', own.get('rc'), m.get('caught_by')))
