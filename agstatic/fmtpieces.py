"""Normalise the result of str.format / % formatting over abstract values into
a list of pieces, independent of the spelling of the template:
  ('lit', text) | ('hex', [nibble Bits high->low], upper) | ('dec', value) | ('float', precision, value) | ('str', value)
"""
from __future__ import annotations

import re
import string

from .absint import Sym, show
from .bits import Bits


class FormatError(Exception):
    pass


def _hex_piece(v, width, upper, zero):
    b = Bits.const(v) if isinstance(v, int) and not isinstance(v, bool) else v
    if not isinstance(b, Bits):
        return ("hexopaque", width, upper, v)
    if width and zero and b.fits_unsigned(4 * width):
        nibbles = [Bits.source(list(b.b[4 * k: 4 * k + 4]), False) for k in range(width - 1, -1, -1)]
        return ("hex", nibbles, upper)
    if not width and b.fits_unsigned(4):
        return ("hex", [Bits.source(list(b.b[0:4]), False)], upper)
    return ("hexvar", width, upper, b)


def _conv(spec, conv, v):
    """spec like '08X', 'f', '', 'd', '.2f', '02x'"""
    m = re.fullmatch(r"([<>^=]?)([+\- ]?)(#?)(0?)(\d*)(?:\.(\d+))?([a-zA-Z%]?)", spec)
    if not m:
        raise FormatError("format spec %r" % spec)
    _, sign, alt, zero, width, prec, ty = m.groups()
    width = int(width) if width else 0
    if ty in ("x", "X"):
        return _hex_piece(v, width, ty == "X", bool(zero))
    if ty in ("d", "i", "u"):
        return ("dec", v)
    if ty in ("f", "F"):
        return ("float", int(prec) if prec else 6, v)
    if ty in ("", "s"):
        if isinstance(v, str):
            return ("lit", v)
        return ("str", v)
    raise FormatError("format type %r" % ty)


def _flat(v, out):
    from .absint import StrV
    if isinstance(v, (str, StrV)):
        out.append(v)
    elif isinstance(v, (list, tuple)):
        for x in v:
            _flat(x, out)
    elif isinstance(v, Sym) and v.op == "call" and v.args and isinstance(v.args[0], Sym) and v.args[0].op == "attr" \
            and v.args[0].args[1] == "join" and v.args[0].args[0] == "" and len(v.args) == 2:
        _flat(v.args[1], out)
    elif isinstance(v, Sym) and v.op == "strop" and v.args[0] == "Add":
        _flat(v.args[1], out)
        _flat(v.args[2], out)
    else:
        out.append(v)


def pieces(v):
    """v: a string-building term (strformat / '+' / ''.join of such) -> list of pieces; a plain str -> [('lit', v)]"""
    from .absint import StrV
    if isinstance(v, str):
        return _merge([("lit", v)])
    if isinstance(v, (StrV, list, tuple)) or (isinstance(v, Sym) and v.op in ("strop", "call")):
        items = []
        _flat(v, items)
        if len(items) == 1 and items[0] is v:
            raise FormatError("not a formatting result: %s" % show(v)[:80])
        out = []
        for it_ in items:
            if isinstance(it_, StrV):
                if all(isinstance(c, int) for c in it_.chars):
                    out.append(("lit", "".join(chr(c) for c in it_.chars)))
                else:
                    raise FormatError("symbolic characters in %s" % show(it_)[:60])
            else:
                out.extend(pieces(it_))
        return _merge(out)
    if not (isinstance(v, Sym) and v.op == "strformat"):
        raise FormatError("not a formatting result: %s" % show(v)[:80])
    tmpl, args = v.args
    out = []
    if isinstance(args, tuple) and "{" in tmpl and "%" not in tmpl.replace("%p", "").replace("%%", ""):
        # str.format
        auto = 0
        for lit, field, spec, conv in string.Formatter().parse(tmpl):
            if lit:
                out.append(("lit", lit))
            if field is None:
                continue
            if field == "":
                idx = auto
                auto += 1
            elif field.isdigit():
                idx = int(field)
            else:
                raise FormatError("named field %r" % field)
            if idx >= len(args):
                raise FormatError("too few arguments")
            out.append(_conv(spec or "", conv, args[idx]))
        return _merge(out)
    # % formatting
    if not isinstance(args, tuple):
        args = (args,)
    pos = 0
    ai = 0
    for m in re.finditer(r"%([#0\- +]*)(\d*)(?:\.(\d+))?([a-zA-Z%])", tmpl):
        if m.start() > pos:
            out.append(("lit", tmpl[pos:m.start()]))
        pos = m.end()
        flags, width, prec, ty = m.groups()
        if ty == "%":
            out.append(("lit", "%"))
            continue
        if ai >= len(args):
            raise FormatError("too few arguments")
        spec = ("0" if "0" in flags else "") + width + ("." + prec if prec else "") + ty
        out.append(_conv(spec, None, args[ai]))
        ai += 1
    if pos < len(tmpl):
        out.append(("lit", tmpl[pos:]))
    return _merge(out)


def _merge(ps):
    out = []
    for p in ps:
        if p[0] == "lit" and p[1] == "":
            continue
        if p[0] == "lit" and out and out[-1][0] == "lit":
            out[-1] = ("lit", out[-1][1] + p[1])
        elif p[0] == "hex" and out and out[-1][0] == "hex" and out[-1][2] == p[2]:
            out[-1] = ("hex", out[-1][1] + p[1], p[2])
        else:
            out.append(p)
    return out
