"""C10 -- basic blocks partition each method at every control-flow boundary (necessary conditions).

Decided by folding and symbolic interpretation of the repository source (nothing is executed):

(opcode-set) the module-level builder of `BasicOPCODES` (regex list BRANCH_DEX_OPCODES matched against
        the mnemonics of DALVIK_OPCODES_FORMAT) is folded to a set of opcode values; it must equal the
        control-transfer opcodes of the independent Dalvik table {0x0e-0x11, 0x27, 0x28-0x2c, 0x32-0x3d}.
        `determineNext` is interpreted once per opcode value: it must return a non-empty successor
        list on every path for exactly those opcodes and [] for every other opcode.
(payload/targets) the switch targets that become leaders are the signed 32-bit words of the payload (see C11).
(push)  `DEXBasicBlock(start)` starts empty at `start`; `push(i)` advances `end` by exactly
        `i.get_length()`, increments the instruction count by one and remembers the last length.
(partition) a bounded generic-method model of `MethodAnalysis.__init__/_create_basic_block`: K = 2..3
        symbolic instructions (symbolic lengths, each plain or branching by opcode), opaque
        determineNext results DN_k and an opaque exception table.  For *every* combination of the
        facts "offset of instruction k is in DN_j", "... is a try start (entry[0])", "... is a handler
        address (h[1] for h in entry[2:])" the final block list must be the specification partition:
        a block starts at every leader and after every branching instruction, blocks are contiguous
        (start = offset of first instruction, end = start + sum of lengths), every instruction is
        pushed exactly once in order, counts are right, and no empty block remains.  determineNext must
        be called with the instruction's own (instruction, offset, method).  In further scenarios the exception table is not
        opaque: `determineException` and `EncodedCatchHandler` are interpreted over a generic code item (two try ranges sharing
        one handler list, typed + catch-all handlers, signed sizes) and every try start / typed handler address / catch-all
        address of that *encoding* must begin a block.
"""
from __future__ import annotations

# thorough tier: this module runs its own in-memory mutation adequacy (see _mutation_adequacy)
OWN_MUTATION_ADEQUACY = True

import ast

from ..absint import Sym, Lin, Raised, show
from ..consts import Folder
from ..model import ANALYSIS, DEX, AnalysisError, norm, walk_no_nested
from ..spec import dalvik
from .. import flowmodel as fm
from ..symflow import generic_items
from .c11 import Sink, adequacy, canary, rename_local, fresh, patched, check_payload_targets

QUICK_SCEN = [(0x00, 0x00), (0x00, 0x32), (0x32, 0x00), (0x32, 0x32), (0x00, 0x00, 0x00), (0x00, 0x32, 0x00)]
THOROUGH_EXTRA = [(0x00, 0x00, 0x28), (0x0E, 0x00, 0x00), (0x2B, 0x00, 0x2B), (0x32, 0x27, 0x00), (0x28, 0x28, 0x00), (0x38, 0x00, 0x11), (0x2C, 0x3D, 0x29)]


class _Mod:
    """pseudo function for findings about module-level code"""

    def __init__(self, m, name, node):
        self.qualname = name
        self.file = m.relpath
        self.line = getattr(node, "lineno", 1)


def opname(op):
    o = dalvik.OPCODES.get(op)
    return o[0] if o else "unused"


def check_opcode_set(sink, repo, folder, ma, dx):
    val, stmts = fm.fold_module_global(repo, folder, ma, "BasicOPCODES")
    basic = fm.as_int_set(val, "BasicOPCODES")
    where = _Mod(ma, "BasicOPCODES", stmts[-1])
    for op in range(256):
        want = op in dalvik.FLOW_OPS
        have = op in basic
        if want and not have:
            sink.check("opcode-set/missing", "op 0x%02x" % op, False, where, "BasicOPCODES lacks 0x%02x %s" % (op, opname(op)),
                       "%s (0x%02x) transfers control (%s) but is not in BasicOPCODES: it would not end a basic block and its targets would not start one"
                       % (opname(op), op, dalvik.OPCODES[op][3]), node=stmts[-1])
        elif have and not want:
            sink.check("opcode-set/extra", "op 0x%02x" % op, False, where, "BasicOPCODES contains 0x%02x %s" % (op, opname(op)),
                       "%s (0x%02x) does not transfer control but is in BasicOPCODES: blocks are cut where the bytecode has no control-flow boundary"
                       % (opname(op), op), node=stmts[-1])
        else:
            sink.check("opcode-set", "op 0x%02x" % op, True, where, "", "", detail="%s: %s" % (opname(op), "block terminator" if want else "not a terminator"))
        sink.count("opcodes")
    sink.count("basic_opcodes", len(basic))
    return basic


def check_no_mutation(ctx, ma):
    """BasicOPCODES must only be read inside functions"""
    for f in ma.functions.values():
        for n in ast.walk(f.node):
            if isinstance(n, ast.Name) and n.id == "BasicOPCODES":
                p = getattr(n, "_parent", None)
                ok = isinstance(n.ctx, ast.Load) and isinstance(p, ast.Compare) and any(isinstance(o, (ast.In, ast.NotIn)) for o in p.ops)
                if not ok:
                    raise AnalysisError("%s: BasicOPCODES is used other than in a membership test (%s); the folded set may not be the run-time set"
                                        % (f.loc(n), norm(p)[:60] if p is not None else ""))
                ctx.count("basic_opcodes_reads")


def check_dn_domain(sink, repo, folder, dn, ops=range(256)):
    for op in ops:
        paths = fm.determine_next_paths(repo, folder, dn, op)
        want = op in dalvik.FLOW_OPS
        bad = None
        for p in paths:
            r = p.result
            if isinstance(r, list):
                r = generic_items(r)
            if isinstance(r, Raised):
                bad = "raises %s" % r
            elif not isinstance(r, list):
                bad = "returns %s, not a list" % show(r)[:60]
            elif want and len(r) == 0:
                bad = "returns [] on some path"
            elif not want and len(r) != 0:
                bad = "returns %s" % fm.pp(r)[:80]
            if bad:
                if not isinstance(r, Raised):
                    fm.exact(r, "determineNext for opcode 0x%02x" % op)
                break
        if want:
            sink.check("opcode-set/determineNext", "op 0x%02x" % op, bad is None, dn, "determineNext: 0x%02x %s has no successor list" % (op, opname(op)),
                       "determineNext %s for the control-transfer opcode 0x%02x %s: the block is treated as falling through and its targets start no block"
                       % (bad, op, opname(op)), detail="non-empty on %d path(s)" % len(paths))
        else:
            sink.check("opcode-set/determineNext", "op 0x%02x" % op, bad is None, dn, "determineNext: 0x%02x %s has successors" % (op, opname(op)),
                       "determineNext %s for opcode 0x%02x %s, which does not transfer control" % (bad, op, opname(op)),
                       detail="[] on %d path(s)" % len(paths))
        sink.count("dn_domain")


def check_push(sink, repo, folder, bb_cls):
    push = bb_cls.lookup("push")
    seen = {}
    for ops in ((0x00, 0x00), (0x12, 0x2B), (0x26, 0x0E)):
        for cat, msg in fm.push_problems(repo, folder, bb_cls, ops):
            seen.setdefault(cat, msg)
        sink.count("push_scenarios")
    for cat in ("ctor", "start", "end", "count", "last-length", "raises"):
        f = bb_cls.lookup("__init__") if cat == "ctor" else push
        sink.check("push/" + cat, "DEXBasicBlock %s" % cat, cat not in seen, f, "DEXBasicBlock: " + cat, seen.get(cat, ""),
                   detail="end == start + sum(get_length()), count == number of pushes" if cat == "end" else "")


# scenarios with an *interpreted* try/catch table: (opcodes, (tries, handler sizes, try -> handler list))
XT_QUICK = [((0x00, 0x00), (2, (-1,), (0, 0))),      # two try ranges share one handler list: one typed pair + catch-all
            ((0x00, 0x32), (1, (1,), (0,)))]          # one try, one typed handler, no catch-all
XT_THOROUGH = [((0x00, 0x00), (2, (1, 0), (0, 1))), ((0x00, 0x00, 0x00), (2, (-2,), (0, 0))), ((0x32, 0x00), (3, (2, 0), (1, 0, 1)))]


# scenarios with concrete address labels: (opcodes, ("concrete", lengths, {k: determineNext result}))
# a switch at instruction #2 whose cases go back to instruction #1 and to an address that is no instruction start
# (inside instruction #0 / before offset 0): the genuine target must still begin a block
CONCRETE_SCEN = [((0x00, 0x00, 0x2B, 0x00), ("concrete", (2, 2, 6, 2), {2: [10, 1, 2]})),
                 ((0x00, 0x00, 0x2B, 0x00), ("concrete", (2, 2, 6, 2), {2: [10, -4, 2]})),
                 ((0x00, 0x32, 0x00), ("concrete", (2, 4, 2), {1: [6, 0]}))]


def check_partition(sink, repo, folder, ma_cls, dn, de, basic, scen):
    cbb = ma_cls.lookup("_create_basic_block")
    pending = None
    undecided = None
    n_failed = 0
    for entry in scen:
        ops, xt = entry if (len(entry) == 2 and isinstance(entry[0], tuple)) else (entry, None)
        conc = None
        if xt is not None and xt[0] == "concrete":
            conc, xt = (xt[1], xt[2]), None
        try:
            paths = [p for p in fm.run_block_model(repo, folder, ma_cls, dn, de, basic, ops, exc_table=xt, concrete=conc,
                                                       max_paths=6000 if xt is None else 2500) if p.entered]
        except AnalysisError as ex:
            # this scenario leaves the fragment the model can enumerate; a counter-example positively established by another
            # scenario still counts, otherwise the run ends undecided (see the end of this function)
            undecided = undecided or ex
            sink.count("partition_paths")
            sink.count("partition_scenarios")
            continue
        if not paths:
            raise AnalysisError("MethodAnalysis.__init__ never reaches _create_basic_block in the model")
        sink.count("partition_paths", len(paths))
        label = "ops=(%s)" % ", ".join("0x%02x" % o for o in ops)
        if xt is not None:
            label += " tries=%d handler-sizes=%s try->handler=%s" % (xt[0], list(xt[1]), list(xt[2]))
        if conc is not None:
            label += " lengths=%s determineNext=%s" % (list(conc[0]), conc[1])
        seen = {}
        foreign_only = None
        for p in paths:
            if p.raised is not None:
                seen.setdefault("raises", ("_create_basic_block raises %s" % p.raised, getattr(p.raised, "node", None)))
                continue
            for a, node in p.dn_bad:
                seen.setdefault("determineNext-args", ("determineNext is called with %s, expected (instruction k, its offset idx_k, the method)"
                                                       % fm.pp(list(a))[:160], node))
            for a, node in p.exc_bad:
                seen.setdefault("determineException-args", ("determineException is called with %s, expected (vm, the method)" % fm.pp(list(a))[:120], node))
            for s in p.symloops:
                if not ("EXC" in s or s.startswith("DN(")):
                    raise AnalysisError("_create_basic_block iterates over %s, which the generic-method model does not understand" % s[:100])
            diffs = fm.compare_partition(p, ops, basic)
            if diffs:
                foreign = [c for c in p.conds if not fm._interpretable(c) and ("c",) + tuple(c) not in _PRESET]
                if foreign:
                    # the path depends on a fact the specification cannot talk about: not a verdict by itself
                    foreign_only = foreign_only or foreign[0]
                    continue
            for cat, msg in diffs:
                seen.setdefault(cat, (msg, None))
        if foreign_only and not seen:
            pending = pending or foreign_only
            sink.count("partition_scenarios")
            continue
        if xt is None:
            n_failed += len(seen)
        else:
            n_failed_xt = len(seen)
        for cat, (msg, node) in seen.items():
            where = cbb
            if xt is not None and not n_failed and node is None:
                # the opaque-table scenarios agree with the specification, so _create_basic_block handles a correct table
                # correctly: the table it was given by the interpreted determineException/EncodedCatchHandler is what deviates
                where = de
                msg += " -- determineException / EncodedCatchHandler are interpreted in this scenario and report a table that " \
                       "lacks this entry of the encoding (partition with an opaque, correct table is as specified)"
            sink.check("partition/" + cat, label + " " + cat, False, where, "blocks: " + cat, msg, node=node)
        if not seen:
            sink.check("partition", label, True, cbb, "", "",
                       detail="%d combinations of leader facts: block list == specification partition (starts, ends, counts, order)" % len(paths))
        sink.count("partition_scenarios")
    if undecided is not None and not n_failed and not locals().get("n_failed_xt"):
        raise undecided
    if pending and not n_failed and not locals().get("n_failed_xt"):
        raise AnalysisError("_create_basic_block decides block boundaries on a fact outside the model: %s" % (pending,))


_PRESET = {("c", "isnone", "vm"), ("c", "isa", "method", "ExternalMethod"), ("c", "truthy", "call(attr(method,'get_code'))")}


def run(ctx):
    ctx.explanation = __doc__
    repo = ctx.repo
    folder = Folder(repo)
    ma = ctx.mod(ANALYSIS)
    dx = ctx.mod(DEX)
    dn = dx.func("determineNext")
    de = dx.func("determineException")
    bb_cls = ma.cls("DEXBasicBlock")
    ma_cls = ma.cls("MethodAnalysis")
    cbb = ma_cls.lookup("_create_basic_block")
    ctx.require(cbb is not None and bb_cls.lookup("push") is not None, "anchor vanished: _create_basic_block / DEXBasicBlock.push")
    for f in (dn, cbb, bb_cls.lookup("push"), bb_cls.lookup("__init__"), ma_cls.lookup("__init__")):
        ctx.analysed(f)

    basic = check_opcode_set(ctx, repo, folder, ma, dx)
    check_no_mutation(ctx, ma)
    ctx.floor("opcodes", 256)
    ctx.floor("basic_opcodes", 1)
    ctx.floor("basic_opcodes_reads", 1)
    check_dn_domain(ctx, repo, folder, dn)
    ctx.floor("dn_domain", 256)
    check_payload_targets(ctx, repo, folder, dx)     # switch targets become leaders only if they are decoded as encoded
    ctx.floor("payload_classes", 2)
    check_push(ctx, repo, folder, bb_cls)
    ctx.floor("push_scenarios", 3)
    scen = QUICK_SCEN + XT_QUICK + CONCRETE_SCEN + (THOROUGH_EXTRA + XT_THOROUGH if ctx.tier == "thorough" else [])
    ech = dx.classes.get("EncodedCatchHandler")
    ctx.analysed(de)
    for g in ("__init__", "get_size", "get_handlers", "get_catch_all_addr", "get_off"):
        if ech is not None and ech.lookup(g) is not None:
            ctx.analysed(ech.lookup(g))
    check_partition(ctx, repo, folder, ma_cls, dn, de, basic, scen)
    ctx.floor("partition_scenarios", len(scen))
    ctx.floor("partition_paths", len(scen))
    ctx.assume("EncodedMethod.get_instructions_idx() yields (offset, instruction) with offset = sum of the lengths of the preceding "
               "instructions (decided under C40); determineException returns [start, end, [type, addr]...] per try (C08)")
    ctx.note("the partition is decided on a bounded generic model (2-3 symbolic instructions, all leader combinations), not as a behavioural fact on arbitrary methods")
    # positive controls (every run; stand in for fixtures since today's tree yields no finding)
    canary(ctx, "push arithmetic", bb_cls.lookup("push"), lambda s: check_push(s, repo, folder, bb_cls), ["aug->sub", "add->sub", "del-attr-assign"],
           site_ok=lambda opn, n, par: not _in_special(n, par))
    canary(ctx, "leader collection", cbb, lambda s: check_partition(s, repo, folder, ma_cls, dn, de, basic, [(0x00, 0x32)]), ["del-call-stmt", "negate-if"],
           site_ok=lambda opn, n, par: opn != "del-call-stmt" or (isinstance(n, ast.Expr) and isinstance(n.value, ast.Call)
                                                                   and isinstance(n.value.func, ast.Attribute)
                                                                   and n.value.func.attr in ("extend", "append", "update", "add")
                                                                   and isinstance(n.value.func.value, ast.Name)))
    canary(ctx, "determineNext domain", dn, lambda s: check_dn_domain(s, repo, folder, dn, ops=[0x00, 0x0E, 0x28, 0x32]), ["ret-empty"])
    if ctx.tier == "thorough":
        _mutation_adequacy(ctx, repo, folder, ma, dx, ma_cls, bb_cls, dn, de, basic)


def swap_independent_assigns(fn_node):
    """swap the first two adjacent simple assignments with independent right-hand sides"""
    t = fresh(fn_node)
    body = t.body
    for i in range(len(body) - 1):
        a, b = body[i], body[i + 1]
        if isinstance(a, ast.Assign) and isinstance(b, ast.Assign) and all(isinstance(x, ast.Name) for x in a.targets + b.targets):
            na = {n.id for n in ast.walk(a) if isinstance(n, ast.Name)}
            nb = {n.id for n in ast.walk(b) if isinstance(n, ast.Name)}
            if not (na & nb) and not any(isinstance(n, ast.Call) and isinstance(n.func, ast.Name) and n.func.id == "DEXBasicBlock" for n in ast.walk(a)):
                body[i], body[i + 1] = b, a
                return t
    return t


def extend_to_append(fn_node):
    """x.extend([a]) -> x.append(a)"""
    t = fresh(fn_node)
    for n in ast.walk(t):
        if isinstance(n, ast.Call) and isinstance(n.func, ast.Attribute) and n.func.attr == "extend" and len(n.args) == 1 \
                and isinstance(n.args[0], ast.List) and len(n.args[0].elts) == 1:
            n.func.attr = "append"
            n.args = [n.args[0].elts[0]]
    return t


def list_to_set(fn_node, name):
    """l = [] ; l.extend(v) ; l.append(x)   ->   l = set() ; l.update(v) ; l.add(x)"""
    t = fresh(fn_node)
    for n in ast.walk(t):
        if isinstance(n, ast.Assign) and len(n.targets) == 1 and isinstance(n.targets[0], ast.Name) and n.targets[0].id == name \
                and isinstance(n.value, ast.List) and not n.value.elts:
            n.value = ast.Call(func=ast.Name(id="set", ctx=ast.Load()), args=[], keywords=[])
        if isinstance(n, ast.Call) and isinstance(n.func, ast.Attribute) and isinstance(n.func.value, ast.Name) and n.func.value.id == name:
            if n.func.attr == "extend":
                n.func.attr = "update"
            elif n.func.attr == "append":
                n.func.attr = "add"
    ast.fix_missing_locations(t)
    return t


def _mutation_adequacy(ctx, repo, folder, ma, dx, ma_cls, bb_cls, dn, de, basic):
    cbb = ma_cls.lookup("_create_basic_block")
    scen = [(0x00, 0x32), (0x32, 0x00), (0x00, 0x00, 0x00)]
    leaders = [n.targets[0].id for n in cbb.node.body if isinstance(n, ast.Assign) and len(n.targets) == 1
               and isinstance(n.targets[0], ast.Name) and isinstance(n.value, ast.List) and not n.value.elts]
    benign = [("rename %s" % v, rename_local(cbb.node, v, v + "_renamed")) for v in ("l", "h", "v", "excepts", "current_basic")
              if any(isinstance(n, ast.Name) and n.id == v for n in ast.walk(cbb.node))]
    benign.append(("swap independent assignments", swap_independent_assigns(cbb.node)))
    benign.append(("extend([x]) -> append(x)", extend_to_append(cbb.node)))
    for v in leaders:
        benign.append(("leader list %s -> set" % v, list_to_set(cbb.node, v)))

    first_after = min([i for i, st in enumerate(cbb.node.body)
                       if any(isinstance(x, ast.Attribute) and x.attr == "set_childs" for x in ast.walk(st))] or [len(cbb.node.body)])

    def site(opn, n, par):
        # statements after the partition phase (set_childs, exception analysis) belong to C11/C12
        top = n
        while par.get(id(top)) is not None and not isinstance(par[id(top)], ast.FunctionDef):
            top = par[id(top)]
        fn = par.get(id(top))
        if isinstance(fn, ast.FunctionDef) and top in fn.body and fn.body.index(top) >= first_after:
            return False
        if opn == "del-call-stmt" and isinstance(n, ast.Expr) and isinstance(n.value, ast.Call) \
                and isinstance(n.value.func, ast.Attribute) and n.value.func.attr == "set_childs":
            return False
        if opn == "const+1":
            p = par.get(id(n))
            while p is not None and not isinstance(p, ast.stmt):
                if isinstance(p, ast.Call) and isinstance(p.func, ast.Attribute) and p.func.attr in ("get_exception", "format", "debug"):
                    return False
                p = par.get(id(p))
        return True

    adequacy(ctx, "_create_basic_block", cbb, lambda s: check_partition(s, repo, folder, ma_cls, dn, de, basic, scen),
             ["del-call-stmt", "del-subscript-store", "const+1", "negate-if", "end<->start"], benign, site_ok=site)
    push = bb_cls.lookup("push")
    adequacy(ctx, "DEXBasicBlock.push", push, lambda s: check_push(s, repo, folder, bb_cls),
             ["const+1", "add->sub", "aug->sub", "del-attr-assign"], [("rename idx", rename_local(push.node, "idx", "at"))],
             site_ok=lambda opn, n, par: not _in_special(n, par))
    adequacy(ctx, "determineNext (domain)", dn,
             lambda s: check_dn_domain(s, repo, folder, dn, ops=sorted(dalvik.FLOW_OPS) + [0x0D, 0x12, 0x26, 0x2D, 0x31, 0x3E, 0x3F]),
             ["ret-empty"], [("rename off", rename_local(dn.node, "off", "delta"))])


def _in_special(n, par):
    """inside the payload bookkeeping of push (special_ins: C40's clause), not the block arithmetic"""
    p = par.get(id(n))
    while p is not None:
        if isinstance(p, ast.If):
            return True
        p = par.get(id(p))
    return False
