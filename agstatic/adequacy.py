"""Thorough tier: generic in-memory mutation adequacy driver (16 worker processes)."""
from __future__ import annotations

import importlib
import multiprocessing as mp
import os

from . import mutate, report
from .model import AnalysisError, Repo

_G = {}


def _init(repo_root, prop):
    _G["base"] = Repo(repo_root)
    _G["prop"] = prop
    _G["mod"] = importlib.import_module("agstatic.rules.%s" % prop.lower())
    _G["known"] = report.load_known()


def _one(item):
    base, prop, mod = _G["base"], _G["prop"], _G["mod"]
    try:
        r = mutate.build(base, item)
    except AnalysisError as e:
        return (item, "skip", str(e))
    finally:
        pass
    if r is None:
        for mm in base.modules.values():
            mm.repo = base
        return (item, "skip", "mutant does not compile / not applicable")
    try:
        ctx = report.Ctx(prop, "quick", base.root, quiet=True)
    except Exception as e:  # pragma: no cover
        return (item, "skip", str(e))
    ctx.repo = r
    try:
        mod.run(ctx)
        new = [f for f in ctx.findings if report._match_known(f, _G["known"]) is None]
        res = ("fired", "; ".join("%s %s" % (f.rule, f.qualname) for f in new[:3])) if new else ("silent", "")
    except AnalysisError as e:
        new = [f for f in ctx.findings if report._match_known(f, _G["known"]) is None]
        res = ("fired", "; ".join("%s %s" % (f.rule, f.qualname) for f in new[:3])) if new else ("unanalysable", str(e)[:160])
    except Exception as e:
        res = ("unanalysable", "%s: %s" % (type(e).__name__, str(e)[:140]))
    finally:
        for mm in base.modules.values():
            mm.repo = base
    return (item, res[0], res[1])


def run(ctx, mod, prop, seed):
    targets = list(mod.MUTATION_TARGETS)
    limit = getattr(mod, "MUTATION_LIMIT", 160)
    items = mutate.plan(ctx.repo, targets, seed=seed, limit=limit)
    nproc = min(16, os.cpu_count() or 1, max(1, len(items)))
    with mp.get_context("fork").Pool(nproc, initializer=_init, initargs=(ctx.repo_root, prop)) as pool:
        results = pool.map(_one, items, chunksize=1)
    br = [r for r in results if r[0][0] == "break" and r[1] != "skip"]
    be = [r for r in results if r[0][0] == "benign" and r[1] != "skip"]
    killed = [r for r in br if r[1] == "fired"]
    unan = [r for r in br if r[1] == "unanalysable"]
    surv = [r for r in br if r[1] == "silent"]
    ben_silent = [r for r in be if r[1] == "silent"]
    ben_unan = [r for r in be if r[1] == "unanalysable"]
    ben_fired = [r for r in be if r[1] == "fired"]
    ctx.extra.update(
        mutants_total=len(br), mutants_killed=len(killed), mutants_unanalysable=len(unan), mutants_survived=len(surv),
        benign_total=len(be), benign_silent=len(ben_silent), benign_unanalysable=len(ben_unan), benign_fired=len(ben_fired),
        mutation_targets=["%s:%s" % t for t in targets],
        surviving_mutants=[dict(target="%s:%s" % (r[0][1], r[0][2]), edit=r[0][3], site=r[0][4]) for r in surv[:60]],
        benign_alarms=[dict(target="%s:%s" % (r[0][1], r[0][2]), edit=r[0][3], report=r[2]) for r in ben_fired[:20]],
        mutation_note="surviving mutants are edits in parts of the target functions that the property does not constrain, or equivalent mutants; "
                      "they are listed, not failed. A benign edit that raises an alarm fails the thorough run (exit 2).",
    )
    for r in killed[:200]:
        ctx.ob("mutation-adequacy", "%s %s@%s" % (r[0][2], r[0][3], r[0][4]), True, "breaking edit detected: %s" % r[2][:100])
    for r in ben_silent:
        ctx.ob("benign-silence", "%s %s" % (r[0][2], r[0][3]), True, "behaviour-preserving edit stays silent")
    floor = getattr(mod, "MUTATION_KILL_FLOOR", None)
    if ben_fired:
        raise AnalysisError("rule raised an alarm on %d behaviour-preserving in-memory edit(s): %s" % (
            len(ben_fired), "; ".join("%s %s -> %s" % (r[0][2], r[0][3], r[2][:80]) for r in ben_fired[:3])))
    if floor is not None and br and len(killed) + len(unan) < floor * len(br):
        raise AnalysisError("mutation adequacy fell to %d/%d detected (floor %.2f): the rule lost its teeth" % (len(killed) + len(unan), len(br), floor))
