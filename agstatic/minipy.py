"""A small interpreter for repository *source* (ast), used by path rules that must follow helper
methods, module constants, loops over constant tables, setattr/zip, early returns ...

It runs a function of the analysed code on *abstract points* chosen by the rule, with the
checker's own semantics -- the repository is never imported.  Values:

  plain Python ints/bytes/str/tuples/lists/dicts/sets/None/bools   (constants and what is built from them)
  Role(int)    a concrete integer that stands for one cell of a finite partition of an input field;
               every constant it is compared with is recorded (so the rule can refine the partition
               until it is closed), arithmetic on it other than a 32-bit mask leaves the fragment
  Free         an unconstrained input field: operations give Free, a comparison / truth test is a
               *choice point*; the driver explores both outcomes (memoised per operands, so one run is
               consistent)
  Obj          an instance of a repository class (methods are interpreted) or an opaque object
  BufferV / Region / StructV   a model of a binary stream: tell/seek/read, struct unpacking of regions
               through a field provider supplied by the rule

Anything outside this fragment raises NotEvaluable (the rule turns it into exit 2, never a violation).
"""
from __future__ import annotations

import ast
import struct as _struct

from .model import AnalysisError, Func, Cls, walk_no_nested
from .pathkit import NotEvaluable, catches, _SUPER


class Role(int):
    def __new__(cls, value, role, rec=None):
        o = int.__new__(cls, value)
        o.role = role
        o.rec = rec if rec is not None else set()
        return o

    def __repr__(self):
        return "%s=0x%x" % (self.role, int(self))


class Free:
    def __init__(self, what="?"):
        self.what = what

    def __repr__(self):
        return "<free %s>" % self.what

    def __format__(self, spec):
        return "<%s>" % self.what


class Sym(Free):
    """an opaque library object / input with *structure*: the term says how it was obtained
    (('ext', dotted) | ('in', name) | ('attr', t, name) | ('call', t, args, kwargs) | ('sub', t, key) |
    ('slice', t, lo, hi) | ('binop', op, a, b) | ('elem', t, i) ...).  Equal terms are the same value."""

    def __init__(self, term):
        self.term = term
        self.what = show_term(term)

    def __eq__(self, o):
        return isinstance(o, Sym) and o.term == self.term

    def __ne__(self, o):
        return not self.__eq__(o)

    def __hash__(self):
        return hash(self.term)

    def __repr__(self):
        return "<%s>" % self.what


def show_term(t, depth=0):
    if not isinstance(t, tuple) or not t:
        return repr(t)
    if depth > 6:
        return "..."
    h = t[0]
    r = lambda x: show_term(x, depth + 1)
    if h == "ext" or h == "in":
        return str(t[1])
    if h == "attr":
        return "%s.%s" % (r(t[1]), t[2])
    if h == "call":
        return "%s(%s)" % (r(t[1]), ", ".join(r(a) for a in t[2]))
    if h == "sub":
        return "%s[%s]" % (r(t[1]), r(t[2]))
    if h == "slice":
        return "%s[%s:%s]" % (r(t[1]), "" if t[2] is None else t[2], "" if t[3] is None else t[3])
    if h == "binop":
        return "(%s %s %s)" % (r(t[2]), t[1], r(t[3]))
    if h == "elem":
        return "%s{%s}" % (r(t[1]), t[2])
    return "%s(%s)" % (h, ", ".join(r(a) for a in t[1:]))


def term_of(v):
    if isinstance(v, Sym):
        return v.term
    if isinstance(v, Free):
        return ("free", id(v))
    if isinstance(v, Role):
        return int(v)
    if isinstance(v, (str, bytes, int, float, bool)) or v is None:
        return v
    if isinstance(v, (tuple, list)):
        return ("tuple",) + tuple(term_of(x) for x in v)
    if isinstance(v, (set, frozenset)):
        return ("set",) + tuple(sorted((term_of(x) for x in v), key=repr))
    if isinstance(v, dict):
        return ("dict",) + tuple((term_of(k), term_of(x)) for k, x in v.items())
    if isinstance(v, Obj):
        return ("obj", v.cls.name if v.cls else v.name, id(v))
    if isinstance(v, ClassV):
        return ("class", v.cls.name)
    if isinstance(v, FuncV):
        return ("func", v.qualname)
    if isinstance(v, Bound):
        return ("bound", v.fv.qualname, term_of(v.self_v))
    if isinstance(v, Builtin):
        return ("builtin", v.name)
    if isinstance(v, ExcClass):
        return ("exc", v.name)
    return ("py", type(v).__name__, id(v))


def subterms(t):
    yield t
    if isinstance(t, tuple):
        for x in t:
            yield from subterms(x)


def has_subterm(t, sub):
    return any(x == sub for x in subterms(t))


TEXT = "<text>"     # a string whose content the interpreter did not compute (log messages ...)


class IterV:
    def __init__(self, items):
        self.items = list(items)
        self.pos = 0


class Native:
    """a model function supplied by the rule: fn(interp, args, kwargs, node)"""

    def __init__(self, name, fn):
        self.name = name
        self.fn = fn


class PyRaise(Exception):
    def __init__(self, name, node=None, args=()):
        Exception.__init__(self, name)
        self.name = name
        self.node = node
        self.eargs = args


class _Return(Exception):
    def __init__(self, v):
        self.v = v


class _Break(Exception):
    pass


class _Continue(Exception):
    pass


class ExcClass:
    def __init__(self, name):
        self.name = name


class ExcV:
    def __init__(self, name, args):
        self.name = name
        self.args = args


class Obj:
    def __init__(self, cls=None, name="object"):
        self.cls = cls          # model.Cls or None (opaque)
        self.attrs = {}
        self.name = name

    def __repr__(self):
        return "<%s>" % (self.cls.name if self.cls else self.name)


class ClassV:
    def __init__(self, cls):
        self.cls = cls


class FuncV:
    def __init__(self, func, node=None, closure=None, module=None, qualname=None, cls=None):
        self.func = func
        self.node = node if node is not None else func.node
        self.closure = closure
        self.module = module if module is not None else func.module
        self.qualname = qualname or (func.qualname if func is not None else "<lambda>")
        self.cls = cls if cls is not None else (func.cls if func is not None else None)


class Bound:
    def __init__(self, fv, self_v):
        self.fv = fv
        self.self_v = self_v


class Builtin:
    def __init__(self, name, fn):
        self.name = name
        self.fn = fn


class ModuleV:
    def __init__(self, name):
        self.name = name


class LoggerV:
    pass


class Region:
    """bytes read from the modelled stream: [start, start+size) or to EOF when size is None"""

    def __init__(self, start, size, avail):
        self.start, self.size, self.avail = start, size, avail

    def __repr__(self):
        return "bytes[%s:%s]" % (self.start, "EOF" if self.size is None else self.start + self.size)


class BufferV:
    def __init__(self, nbytes, pos=0):
        self.nbytes = nbytes
        self.pos = pos
        self.reads = []


class _RawV:
    def __init__(self, b):
        self.b = b


class _MemV:
    def __init__(self, b):
        self.b = b


class StructV:
    def __init__(self, fmt):
        self.fmt = fmt
        try:
            self.size = _struct.calcsize(fmt)
        except _struct.error as e:
            raise NotEvaluable("struct format %r: %s" % (fmt, e))


def fmt_slots(fmt):
    """[(offset, size, code)] one entry per unpacked value, for formats with an explicit byte order"""
    import re
    order = fmt[0] if fmt and fmt[0] in "<>=!" else None
    if order is None:
        raise NotEvaluable("struct format %r without explicit byte order" % fmt)
    out, pos = [], 0
    for cnt, code in re.findall(r"\s*(\d*)([xcbB?hHiIlLqQefdsp])", fmt[1:]):
        n = int(cnt) if cnt else 1
        if code in "sp":
            out.append((pos, n, code))
            pos += n
        elif code == "x":
            pos += n
        else:
            sz = _struct.calcsize("<" + code)
            for _ in range(n):
                out.append((pos, sz, code))
                pos += sz
    if pos != _struct.calcsize(fmt):
        raise NotEvaluable("cannot lay out struct format %r" % fmt)
    return order, out


import posixpath as _pp
_PURE_EXT = {"os.path.splitext": _pp.splitext, "os.path.basename": _pp.basename, "os.path.dirname": _pp.dirname, "os.path.join": _pp.join}

SAFE_BUILTINS = {
    "len": len, "int": int, "bool": bool, "str": str, "repr": repr, "hex": hex, "bytes": bytes, "tuple": tuple, "list": list,
    "dict": dict, "set": set, "frozenset": frozenset, "range": range, "min": min, "max": max, "abs": abs, "sum": sum,
    "sorted": sorted, "reversed": lambda x: list(reversed(x)), "any": any, "all": all, "chr": chr, "ord": ord, "divmod": divmod,
    "format": format, "bytearray": bytearray, "type": type, "id": id,
}
EXC_NAMES = ("ValueError", "NotImplementedError", "TypeError", "KeyError", "IndexError", "AttributeError", "RuntimeError",
             "Exception", "BaseException", "UnicodeDecodeError", "UnicodeError", "LookupError", "AssertionError", "OSError",
             "StopIteration", "ArithmeticError", "ZeroDivisionError", "OverflowError", "EOFError")


_GEN_CACHE = {}
_SETTER_CACHE = {}
_METH_CACHE = {}


class Interp:
    """one run.  `decisions` is the prefix of choice outcomes to replay; `choices` the outcomes taken."""

    def __init__(self, repo, field_provider=None, hooks=None, decisions=(), max_steps=20000):
        self.repo = repo
        self.field_provider = field_provider
        self.hooks = hooks or {}
        self.decisions = list(decisions)
        self.choices = []
        self.memo = {}
        self.steps = 0
        self.max_steps = max_steps
        self.trace = []          # (kind, node, qualname, value)
        self.stack = []          # qualnames
        self.role_cmps = []      # (role, node, qualname, other)
        self.holders = {}        # role -> set of target texts
        self.watch = {}          # id(obj) -> role  (non-int role objects, e.g. the magic bytes)
        self._keep = []
        self.modcache = {}
        self.cur_exc = None
        self.sym_calls = []      # (callee Sym, args, kwargs, node, qualname, result)
        self.sym_cmps = []       # (opname, term a, term b, result, node, qualname)
        self.sym_truths = []     # (term, result, node, qualname)
        self.clsattr = {}        # (id(cls), name) -> value : class attributes are evaluated once
        self.defaults = {}       # id(function node) -> {param: value} : defaults are evaluated once
        self.max_depth = 40

    # ------------------------------------------------------------------ helpers
    def watch_obj(self, obj, role):
        self.watch[id(obj)] = role
        self._keep.append(obj)

    def role_of(self, v):
        if isinstance(v, Role):
            return v.role
        return self.watch.get(id(v))

    def qual(self):
        return self.stack[-1] if self.stack else "<module>"

    def tick(self):
        self.steps += 1
        if self.steps > self.max_steps:
            raise NotEvaluable("step budget exhausted (loop?)")

    def choose(self, key, what):
        if key in self.memo:
            return self.memo[key]
        i = len(self.choices)
        v = self.decisions[i] if i < len(self.decisions) else False
        self.choices.append(v)
        self.memo[key] = v
        return v

    def note_choice(self, node, value):
        t = "`%s`" % " ".join(ast.unparse(node).split())[:70] if node is not None else "?"
        self.trace.append(("choice", t, self.qual(), bool(value)))

    @staticmethod
    def key_of(v):
        if isinstance(v, Sym):
            return ("S", v.term)
        if isinstance(v, Free):
            return ("F", id(v))
        t = term_of(v)
        try:
            hash(t)
        except TypeError:
            t = repr(t)
        return ("V", t)

    def truth(self, v, node=None):
        if isinstance(v, Free):
            if isinstance(v, Sym):
                h = self.hooks.get("symtruth")
                r = h(self, v, node) if h is not None else NotImplemented
                if r is NotImplemented:
                    r = self.choose(("truth", self.key_of(v)), "")
                    self.note_choice(node, r)
                self.sym_truths.append((v.term, r, node, self.qual()))
                return r
            r = self.choose(("truth", id(v)), "")
            self.note_choice(node, r)
            return r
        if isinstance(v, IterV):
            return True
        if isinstance(v, Role):
            v.rec.add(0)
            if node is not None:
                self.role_cmps.append((v.role, node, self.qual(), 0))
            return int(v) != 0
        if isinstance(v, (Obj, ClassV, FuncV, Bound, Builtin, ModuleV, BufferV, StructV, LoggerV, ExcV)):
            return True
        if isinstance(v, Region):
            return v.avail != 0
        return bool(v)

    # ------------------------------------------------------------------ names
    def module_global(self, module, name):
        key = (module.relpath, name)
        if key in self.modcache:
            return self.modcache[key]
        v = self._module_global(module, name)
        self.modcache[key] = v
        return v

    def _module_global(self, module, name):
        if name in ("True", "False", "None"):
            return {"True": True, "False": False, "None": None}[name]
        r = module.resolve_name(name)
        if r is not None:
            if r[0] == "class":
                return ClassV(r[1])
            if r[0] == "func":
                return FuncV(r[1])
            if r[0] == "const":
                return self.eval(r[2], Frame(self, r[1], {}, "<module %s>" % r[1].relpath))
            if r[0] == "module":
                return ModuleV(r[1].dotted)
        imp = module.imports.get(name)
        if imp is not None:
            mod, attr = imp
            if attr is None:
                if mod.split(".")[0] in ("zlib", "struct", "io", "os", "binascii", "hashlib", "re", "sys", "time"):
                    return ModuleV(mod)
                if mod == "loguru":
                    return ModuleV("loguru")
                return ModuleV(mod)
            if (mod, attr) == ("loguru", "logger"):
                return LoggerV()
            return self.module_attr(ModuleV(mod), attr)
        if name in SAFE_BUILTINS:
            return Builtin(name, SAFE_BUILTINS[name])
        if name in EXC_NAMES:
            return ExcClass(name)
        if name in ("zip", "enumerate", "isinstance", "getattr", "setattr", "hasattr", "print", "iter", "next", "map", "filter"):
            return Builtin(name, None)
        raise NotEvaluable("free name %s" % name)

    def module_attr(self, m, attr):
        n = m.name
        if n == "struct":
            if attr in ("unpack", "calcsize", "Struct", "pack", "unpack_from"):
                return Builtin("struct." + attr, None)
            if attr == "error":
                return ExcClass("error")
        if n == "zlib" and attr in ("adler32", "crc32"):
            return Builtin("zlib." + attr, None)
        if n == "loguru" and attr == "logger":
            return LoggerV()
        rm = self.repo.by_dotted(n)
        if rm is not None:
            return self.module_global(rm, attr)
        rm = self.repo.by_dotted(n + "." + attr)
        if rm is not None:
            return ModuleV(n + "." + attr)
        full = n + "." + attr
        if full in ("os.path", "collections.abc"):
            return ModuleV(full)
        if full.endswith(".OrderedDict"):
            return Builtin("dict", dict)
        if full in _PURE_EXT:
            return Builtin(full, _PURE_EXT[full])
        return Sym(("ext", full))

    # ------------------------------------------------------------------ calls
    def call_function(self, fv, args, kwargs, node=None):
        self.tick()
        fn = fv.node
        a = fn.args
        frame_locals = dict(fv.closure or {})
        names = [x.arg for x in a.posonlyargs + a.args]
        if len(args) > len(names) and not a.vararg:
            raise PyRaise("TypeError", node)
        for n, v in zip(names, args):
            frame_locals[n] = v
        if a.vararg:
            frame_locals[a.vararg.arg] = tuple(args[len(names):])
        extra = {}
        for k, v in kwargs.items():
            if k in names or k in [x.arg for x in a.kwonlyargs]:
                frame_locals[k] = v
            else:
                extra[k] = v
        if a.kwarg:
            frame_locals[a.kwarg.arg] = extra
        elif extra:
            raise PyRaise("TypeError", node)
        dvals = self.defaults.get(id(fn))
        if dvals is None:
            mframe = Frame(self, fv.module, dict(fv.closure or {}), "<defaults>")
            dvals = {}
            dflt = a.defaults
            for n, d in zip(names[len(names) - len(dflt):], dflt):
                dvals[n] = self.eval(d, mframe)
            for x, d in zip(a.kwonlyargs, a.kw_defaults):
                if d is not None:
                    dvals[x.arg] = self.eval(d, mframe)
            self.defaults[id(fn)] = dvals
            self._keep.append(fn)
        for n, v in dvals.items():
            if n not in frame_locals:
                frame_locals[n] = v
        for n in names:
            if n not in frame_locals:
                raise PyRaise("TypeError", node)
        if isinstance(fn, ast.Lambda):
            return self.eval(fn.body, Frame(self, fv.module, frame_locals, fv.qualname, fv.cls))
        isgen = _GEN_CACHE.get(id(fn))
        if isgen is None:
            isgen = _GEN_CACHE[id(fn)] = (fn, any(isinstance(n, (ast.Yield, ast.YieldFrom)) for n in walk_no_nested(fn)))
        if isgen[1]:
            raise NotEvaluable("generator function %s" % fv.qualname)
        if len(self.stack) > self.max_depth:
            h = self.hooks.get("depth")
            if h is not None:
                h(self, fv, node)
            raise NotEvaluable("call depth")
        h = self.hooks.get("func")
        if h is not None:
            r = h(self, fv, frame_locals, node)
            if r is not NotImplemented:
                return r
        self.stack.append(fv.qualname)
        try:
            self.exec_block(fn.body, Frame(self, fv.module, frame_locals, fv.qualname, fv.cls))
        except _Return as r:
            return r.v
        finally:
            self.stack.pop()
        return None

    def lookup_method(self, cls, name):
        key = (id(cls), name)
        hit = _METH_CACHE.get(key)
        if hit is not None and hit[0] is cls and hit[3] is (cls.lookup(name).node if cls.lookup(name) else None):
            return hit[1], hit[2]
        r = self._lookup_method(cls, name)
        f0 = cls.lookup(name)
        _METH_CACHE[key] = (cls, r[0], r[1], f0.node if f0 else None)
        return r

    def _lookup_method(self, cls, name):
        f = cls.lookup(name)
        if f is None:
            return None, None
        decos = [ast.unparse(d) for d in f.node.decorator_list]
        kind = "static" if "staticmethod" in decos else "class" if "classmethod" in decos else "property" if "property" in decos else "method"
        if any(d.endswith(".setter") for d in decos):
            kind = "property"
            # find the getter
            for c in cls.mro():
                for n in c.node.body:
                    if isinstance(n, ast.FunctionDef) and n.name == name and any(ast.unparse(d) == "property" for d in n.decorator_list):
                        return FuncV(Func(c.module, "%s.%s" % (c.name, name), n, c)), "property"
        return FuncV(f), kind

    def get_attr(self, v, attr, node=None):
        if isinstance(v, Obj):
            if attr in v.attrs:
                return v.attrs[attr]
            if v.cls is not None:
                fv, kind = self.lookup_method(v.cls, attr)
                if fv is not None:
                    if kind == "static":
                        return fv
                    if kind == "class":
                        return Bound(fv, ClassV(v.cls))
                    if kind == "property":
                        return self.call_function(fv, [v], {}, node)
                    return Bound(fv, v)
                e = v.cls.lookup_attr(attr)
                if e is not None:
                    return self.class_attr(v.cls, attr, e)
                raise PyRaise("AttributeError", node)
            return v.attrs.setdefault(attr, Sym(("attr", ("in", v.name), attr)))
        if isinstance(v, ClassV):
            fv, kind = self.lookup_method(v.cls, attr)
            if fv is not None:
                return Bound(fv, v) if kind == "class" else fv
            e = v.cls.lookup_attr(attr)
            if e is not None:
                return self.class_attr(v.cls, attr, e)
            if (id(v.cls), attr) in self.clsattr:
                return self.clsattr[(id(v.cls), attr)]
            raise PyRaise("AttributeError", node)
        if isinstance(v, ModuleV):
            return self.module_attr(v, attr)
        if isinstance(v, LoggerV):
            return Builtin("logger." + attr, lambda *a, **k: None)
        if isinstance(v, BufferV):
            if attr in ("tell", "seek", "read", "getbuffer", "readinto", "peek"):
                return _BufMeth(v, attr)
            if attr == "raw":
                return _RawV(v)
            raise NotEvaluable("buffer attribute %s" % attr)
        if isinstance(v, _RawV):
            if attr == "getbuffer":
                return _BufMeth(v.b, "getbuffer")
            if attr in ("tell", "seek", "read"):
                return _BufMeth(v.b, attr)
            raise NotEvaluable("raw buffer attribute %s" % attr)
        if isinstance(v, _MemV):
            if attr == "nbytes":
                return v.b.nbytes
            raise NotEvaluable("memoryview attribute %s" % attr)
        if isinstance(v, StructV):
            if attr == "size":
                return v.size
            if attr in ("unpack", "unpack_from", "format"):
                return _StructMeth(v, attr)
            raise NotEvaluable("Struct attribute %s" % attr)
        if isinstance(v, ExcV):
            if attr == "args":
                return tuple(v.args)
            raise NotEvaluable("exception attribute %s" % attr)
        if isinstance(v, Sym):
            return Sym(("attr", v.term, attr))
        if isinstance(v, Free):
            return Free(v.what + "." + attr)
        if isinstance(v, IterV):
            raise NotEvaluable("iterator attribute %s" % attr)
        if isinstance(v, (int, bytes, str, tuple, list, dict, set, frozenset, bytearray)) or v is None:
            if isinstance(v, Role) and attr not in ("bit_length", "to_bytes"):
                raise NotEvaluable("method %s on a partition value" % attr)
            try:
                m = getattr(v, attr)
            except AttributeError:
                pr = PyRaise("AttributeError", node)
                pr.on_none = v is None
                raise pr
            return Builtin("%s.%s" % (type(v).__name__, attr), m)
        raise NotEvaluable("attribute %s of %r" % (attr, v))

    def class_attr(self, cls, attr, e):
        for c in cls.mro():
            if attr in c.attrs:
                key = (id(c), attr)
                if key not in self.clsattr:
                    self.clsattr[key] = self.eval(e, Frame(self, c.module, {}, c.name))
                return self.clsattr[key]
        return self.eval(e, Frame(self, cls.module, {}, cls.name))

    def set_attr(self, v, attr, val, node=None):
        if isinstance(v, ClassV):
            self.clsattr[(id(v.cls), attr)] = val
            return
        if isinstance(v, Obj):
            if v.cls is not None:
                key = (id(v.cls), attr)
                setter = _SETTER_CACHE.get(key, 0)
                if setter == 0:
                    setter = None
                    for c in v.cls.mro():
                        for n in c.node.body:
                            if isinstance(n, ast.FunctionDef) and n.name == attr and any(ast.unparse(d) == attr + ".setter" for d in n.decorator_list):
                                setter = setter or FuncV(Func(c.module, "%s.%s" % (c.name, attr), n, c))
                    _SETTER_CACHE[key] = setter
                if setter is not None:
                    self.call_function(setter, [v, val], {}, node)
                    return
            v.attrs[attr] = val
            return
        raise NotEvaluable("attribute store on %r" % (v,))

    def call(self, f, args, kwargs, node=None):
        self.tick()
        if isinstance(f, Bound):
            return self.call_function(f.fv, [f.self_v] + list(args), kwargs, node)
        if isinstance(f, FuncV):
            return self.call_function(f, list(args), kwargs, node)
        if isinstance(f, ClassV):
            hook = self.hooks.get("construct")
            if hook is not None:
                r = hook(self, f.cls, args, kwargs, node)
                if r is not NotImplemented:
                    return r
            o = Obj(f.cls)
            init, _ = self.lookup_method(f.cls, "__init__")
            if init is not None:
                self.call_function(init, [o] + list(args), kwargs, node)
            return o
        if isinstance(f, ExcClass):
            return ExcV(f.name, list(args))
        if isinstance(f, (_BufMeth, _StructMeth)):
            return f(self, args, kwargs, node)
        if isinstance(f, Builtin):
            return self.call_builtin(f, args, kwargs, node)
        if isinstance(f, Native):
            return f.fn(self, list(args), kwargs, node)
        if isinstance(f, Sym):
            h = self.hooks.get("symcall")
            r = h(self, f, list(args), kwargs, node) if h is not None else NotImplemented
            if r is NotImplemented:
                r = Sym(("call", f.term, tuple(term_of(a) for a in args), tuple((k, term_of(v)) for k, v in sorted(kwargs.items()))))
            self.sym_calls.append((f, list(args), dict(kwargs), node, self.qual(), r))
            return r
        if isinstance(f, Free):
            return Free(f.what + "()")
        raise NotEvaluable("call of %r" % (f,))

    def call_builtin(self, f, args, kwargs, node):
        n = f.name
        if n.startswith("logger.") or n == "print":
            return None
        if n in ("struct.unpack", "struct.unpack_from"):
            if len(args) != 2 or not isinstance(args[0], str):
                raise NotEvaluable("struct.unpack arguments")
            return _StructMeth(StructV(args[0]), "unpack")(self, [args[1]], {}, node)
        if n == "struct.Struct":
            if len(args) != 1 or not isinstance(args[0], str):
                raise NotEvaluable("struct.Struct argument")
            return StructV(args[0])
        if n == "struct.calcsize":
            return StructV(args[0]).size
        if n.startswith("zlib."):
            hook = self.hooks.get(n)
            if hook is None:
                raise NotEvaluable("call %s" % n)
            return hook(self, args, node)
        if n == "zip":
            return [tuple(t) for t in zip(*[self.iterate(a, node) for a in args])]
        if n == "enumerate":
            start = args[1] if len(args) > 1 else kwargs.get("start", 0)
            return [(i, x) for i, x in enumerate(self.iterate(args[0], node), start)]
        if n == "isinstance":
            v, t = args
            ts = t if isinstance(t, tuple) else (t,)
            if isinstance(v, Free) or any(isinstance(c, Free) for c in ts):
                if not isinstance(v, Sym) and not any(isinstance(c, Sym) for c in ts):
                    raise NotEvaluable("isinstance of an unknown value")
                out = False
                for c in ts:
                    r = self.choose(("isinstance", self.key_of(v), self.key_of(c)), "")
                    self.note_choice(node, r)
                    out = out or r
                    if r:
                        break
                return out
            for c in ts:
                if isinstance(c, Builtin) and isinstance(c.fn, type):
                    if isinstance(v, c.fn) and not isinstance(v, bool) or (c.fn is bool and isinstance(v, bool)):
                        return True
                elif isinstance(c, ClassV):
                    if isinstance(v, Obj) and v.cls is not None and v.cls.is_subclass_of(c.cls.name):
                        return True
                else:
                    raise NotEvaluable("isinstance against %r" % (c,))
            if isinstance(v, Free) or (isinstance(v, Obj) and v.cls is None):
                raise NotEvaluable("isinstance of an unknown value")
            return False
        if n == "getattr":
            if len(args) == 3:
                try:
                    return self.get_attr(args[0], args[1], node)
                except PyRaise as e:
                    if e.name == "AttributeError":
                        return args[2]
                    raise
            return self.get_attr(args[0], args[1], node)
        if n == "setattr":
            self.note_store(args[2], "%s.%s" % ("self" if isinstance(args[0], Obj) else "?", args[1]))
            self.set_attr(args[0], args[1], args[2], node)
            return None
        if n == "hasattr":
            try:
                self.get_attr(args[0], args[1], node)
                return True
            except PyRaise:
                return False
        if n == "iter":
            return IterV(self.iterate(args[0], node))
        if n == "next":
            it = args[0]
            if not isinstance(it, IterV):
                raise PyRaise("TypeError", node)
            if it.pos < len(it.items):
                it.pos += 1
                return it.items[it.pos - 1]
            if len(args) > 1:
                return args[1]
            raise PyRaise("StopIteration", node)
        if n in ("map", "filter"):
            raise NotEvaluable("builtin %s" % n)
        if n == "int" and len(args) == 1 and isinstance(args[0], Role):
            return args[0]
        if any(isinstance(a, IterV) for a in args):
            # a generator handed to list()/set.update()/sorted()/... is consumed there
            args = [self.iterate(a, node) if isinstance(a, IterV) else a for a in args]
        self_obj = getattr(f.fn, "__self__", None)
        if isinstance(self_obj, dict) and n.split(".")[-1] in ("get", "pop", "setdefault", "__contains__", "__getitem__") and args \
                and (isinstance(args[0], Free) or any(isinstance(k, Free) for k in self_obj)):
            meth = n.split(".")[-1]
            hit = self.dict_find(self_obj, args[0], node)
            if meth == "__contains__":
                return hit is not None
            if hit is not None:
                val = self_obj[hit]
                if meth == "pop":
                    del self_obj[hit]
                return val
            if meth == "setdefault":
                self_obj[args[0]] = args[1] if len(args) > 1 else None
                return self_obj[args[0]]
            if meth == "__getitem__" or (meth == "pop" and len(args) < 2):
                raise PyRaise("KeyError", node)
            return args[1] if len(args) > 1 else None
        if f.fn is None:
            raise NotEvaluable("builtin %s" % n)
        # plain builtins / methods of plain values: only on plain arguments
        allv = list(args) + list(kwargs.values())
        for v in allv:
            self._plain_arg(v, n)
        if any(isinstance(v, Role) for v in allv) and n.split(".")[-1] not in ("format", "repr", "str", "hex", "int", "join", "__format__"):
            raise NotEvaluable("partition value passed to %s" % n)
        if any(isinstance(v, Free) for v in allv) or any(isinstance(v, (list, tuple)) and any(isinstance(x, Free) for x in v) for v in allv):
            if n.split(".")[-1] in ("format", "repr", "str", "hex", "join"):
                return "<text>"
            if n.split(".")[-1] in ("append", "add", "extend", "insert", "update", "discard", "remove", "__setitem__", "appendleft") or n in ("list", "tuple", "dict", "set", "frozenset", "sorted", "reversed", "bool"):
                pass    # containers may hold symbolic values
            else:
                r = Sym(("call", ("ext", n), tuple(term_of(v) for v in args), tuple((k, term_of(v)) for k, v in sorted(kwargs.items()))))
                self.sym_calls.append((f, list(args), dict(kwargs), node, self.qual(), r))
                return r
        try:
            return f.fn(*args, **kwargs)
        except Exception as e:   # the builtin's own exception, raised inside the interpreted program
            raise PyRaise(type(e).__name__, node)

    def _plain_arg(self, v, n):
        if isinstance(v, IterV):
            raise NotEvaluable("iterator passed to %s" % n)
        if isinstance(v, (Obj, ClassV, FuncV, Bound, BufferV, Region, StructV, ModuleV, LoggerV, _RawV, _MemV)):
            if n.split(".")[-1] in ("format", "repr", "str"):
                return
            if isinstance(v, _MemV) and n == "len":
                return
            if n.split(".")[-1] in ("append", "add", "extend", "insert", "discard", "remove", "setdefault", "get", "pop", "update", "index", "count", "__setitem__") and "." in n:
                return
            raise NotEvaluable("%r passed to %s" % (v, n))
        if isinstance(v, (list, tuple)):
            for x in v:
                self._plain_arg(x, n)

    def dict_find(self, d, k, node):
        """the key of d that equals k (symbolic keys are compared through choice points)"""
        for key in list(d.keys()):
            if self.compare(ast.Eq(), k, key, node):
                return key
        return None

    def iterate(self, v, node=None):
        if isinstance(v, IterV):
            rest = v.items[v.pos:]
            v.pos = len(v.items)
            return rest
        if isinstance(v, Sym):
            h = self.hooks.get("symiter")
            r = h(self, v, node) if h is not None else NotImplemented
            if r is not NotImplemented:
                return list(r)
            out = []
            for i in range(2):
                more = self.choose(("iter", v.term, i), "")
                self.trace.append(("choice", "`%s` has %s element" % (v.what[:50], "a first" if i == 0 else "a second"), self.qual(), more))
                if not more:
                    break
                out.append(Sym(("elem", v.term, i)))
            return out
        if isinstance(v, (list, tuple, str, bytes, range, set, frozenset)):
            return list(v)
        if isinstance(v, dict):
            return list(v.keys())
        raise NotEvaluable("iteration over %r" % (v,))

    # ------------------------------------------------------------------ stores
    def note_store(self, val, text):
        r = self.role_of(val)
        if r is not None:
            self.holders.setdefault(r, set()).add(text)

    def assign(self, target, val, frame):
        if isinstance(target, ast.Name):
            if self.role_of(val) is not None:
                self.note_store(val, target.id)
            frame.locals[target.id] = val
        elif isinstance(target, ast.Attribute):
            if self.role_of(val) is not None:
                self.note_store(val, ast.unparse(target))
            self.set_attr(self.eval(target.value, frame), target.attr, val, target)
        elif isinstance(target, (ast.Tuple, ast.List)):
            if isinstance(val, Free):
                raise NotEvaluable("unpacking an unknown value")
            vals = self.iterate(val, target)
            star = [i for i, t in enumerate(target.elts) if isinstance(t, ast.Starred)]
            if star:
                i = star[0]
                rest = len(target.elts) - i - 1
                if len(vals) < len(target.elts) - 1:
                    raise PyRaise("ValueError", target)
                parts = vals[:i] + [list(vals[i:len(vals) - rest])] + vals[len(vals) - rest:]
                for t, v in zip(target.elts, parts):
                    self.assign(t.value if isinstance(t, ast.Starred) else t, v, frame)
            else:
                if len(vals) != len(target.elts):
                    raise PyRaise("ValueError", target)
                for t, v in zip(target.elts, vals):
                    self.assign(t, v, frame)
        elif isinstance(target, ast.Subscript):
            c = self.eval(target.value, frame)
            k = self.eval(target.slice, frame)
            if isinstance(c, (dict, list)):
                try:
                    c[k] = val
                except Exception as e:
                    raise PyRaise(type(e).__name__, target)
            else:
                raise NotEvaluable("subscript store on %r" % (c,))
        else:
            raise NotEvaluable("assignment target %s" % type(target).__name__)

    # ------------------------------------------------------------------ statements
    def exec_block(self, stmts, frame):
        for s in stmts:
            self.exec_stmt(s, frame)

    def exec_stmt(self, s, frame):
        self.tick()
        if isinstance(s, ast.Expr):
            self.eval(s.value, frame)
        elif isinstance(s, ast.Assign):
            v = self.eval(s.value, frame)
            for t in s.targets:
                self.assign(t, v, frame)
        elif isinstance(s, ast.AnnAssign):
            if s.value is not None:
                self.assign(s.target, self.eval(s.value, frame), frame)
        elif isinstance(s, ast.AugAssign):
            cur = self.eval(ast.copy_location(_load(s.target), s.target), frame)
            self.assign(s.target, self.binop(s.op, cur, self.eval(s.value, frame), s), frame)
        elif isinstance(s, ast.If):
            v = self.truth(self.eval(s.test, frame), s.test)
            self.trace.append(("if", s, frame.qualname, v))
            self.exec_block(s.body if v else s.orelse, frame)
        elif isinstance(s, ast.Return):
            raise _Return(self.eval(s.value, frame) if s.value is not None else None)
        elif isinstance(s, ast.Raise):
            if s.exc is None:
                if self.cur_exc is None:
                    raise PyRaise("RuntimeError", s)
                raise self.cur_exc
            e = self.eval(s.exc, frame)
            if isinstance(e, ExcClass):
                raise PyRaise(e.name, s)
            if isinstance(e, ExcV):
                raise PyRaise(e.name, s, e.args)
            if isinstance(e, ClassV):
                raise PyRaise(e.cls.name, s)
            if isinstance(e, Obj) and e.cls is not None:
                raise PyRaise(e.cls.name, s)
            raise NotEvaluable("raise of %r" % (e,))
        elif isinstance(s, ast.Pass):
            pass
        elif isinstance(s, (ast.For,)):
            it = self.iterate(self.eval(s.iter, frame), s)
            broke = False
            for x in it:
                self.tick()
                self.assign(s.target, x, frame)
                try:
                    self.exec_block(s.body, frame)
                except _Break:
                    broke = True
                    break
                except _Continue:
                    continue
            if not broke:
                self.exec_block(s.orelse, frame)
        elif isinstance(s, ast.While):
            broke = False
            while self.truth(self.eval(s.test, frame), s.test):
                self.tick()
                try:
                    self.exec_block(s.body, frame)
                except _Break:
                    broke = True
                    break
                except _Continue:
                    continue
            if not broke:
                self.exec_block(s.orelse, frame)
        elif isinstance(s, ast.Break):
            raise _Break()
        elif isinstance(s, ast.Continue):
            raise _Continue()
        elif isinstance(s, ast.Try):
            try:
                try:
                    self.exec_block(s.body, frame)
                except PyRaise as e:
                    for h in s.handlers:
                        if catches(h, [e.name]) and self._really_catches(h, e.name):
                            if h.name:
                                frame.locals[h.name] = ExcV(e.name, list(e.eargs))
                            saved, self.cur_exc = self.cur_exc, e
                            self.trace.append(("except", h, frame.qualname, e.name))
                            try:
                                self.exec_block(h.body, frame)
                            finally:
                                self.cur_exc = saved
                            break
                    else:
                        raise
                else:
                    self.exec_block(s.orelse, frame)
            finally:
                if s.finalbody:
                    self.exec_block(s.finalbody, frame)
        elif isinstance(s, ast.With):
            for item in s.items:
                cm = self.eval(item.context_expr, frame)
                if not isinstance(cm, Sym):
                    raise NotEvaluable("with-statement over %r" % (cm,))
                entered = Sym(("call", ("attr", cm.term, "__enter__"), (), ()))
                self.sym_calls.append((Sym(("attr", cm.term, "__enter__")), [], {}, s, self.qual(), entered))
                if item.optional_vars is not None:
                    self.assign(item.optional_vars, entered, frame)
            self.exec_block(s.body, frame)
        elif isinstance(s, ast.Assert):
            if not self.truth(self.eval(s.test, frame), s.test):
                raise PyRaise("AssertionError", s)
        elif isinstance(s, (ast.FunctionDef,)):
            frame.locals[s.name] = FuncV(None, s, dict(frame.locals), frame.module, "%s.<locals>.%s" % (frame.qualname, s.name), frame.cls)
        elif isinstance(s, (ast.Global, ast.Nonlocal, ast.Delete, ast.Import, ast.ImportFrom)):
            if isinstance(s, (ast.Import, ast.ImportFrom)):
                raise NotEvaluable("local import")
        else:
            raise NotEvaluable("statement %s" % type(s).__name__)

    @staticmethod
    def _really_catches(h, name):
        """pathkit.catches assumes unknown classes derive from Exception; here the raised class is known by name"""
        if h.type is None:
            return True
        ts = h.type.elts if isinstance(h.type, ast.Tuple) else [h.type]
        names = [ast.unparse(t).split(".")[-1] for t in ts]
        sup = _SUPER.get(name, [name, "Exception", "BaseException"])
        return any(n in sup for n in names)

    # ------------------------------------------------------------------ expressions
    def eval(self, e, frame):
        self.tick()
        m = getattr(self, "x_" + type(e).__name__, None)
        if m is None:
            raise NotEvaluable("expression %s: %s" % (type(e).__name__, ast.unparse(e)[:60]))
        return m(e, frame)

    def x_Constant(self, e, f):
        return e.value

    def x_Name(self, e, f):
        if e.id in f.locals:
            return f.locals[e.id]
        return self.module_global(f.module, e.id)

    def x_Attribute(self, e, f):
        return self.get_attr(self.eval(e.value, f), e.attr, e)

    def x_Tuple(self, e, f):
        return tuple(self._elts(e.elts, f))

    def x_List(self, e, f):
        return list(self._elts(e.elts, f))

    def x_Set(self, e, f):
        return set(self._elts(e.elts, f))

    def _elts(self, elts, f):
        out = []
        for x in elts:
            if isinstance(x, ast.Starred):
                out += self.iterate(self.eval(x.value, f), x)
            else:
                out.append(self.eval(x, f))
        return out

    def x_Dict(self, e, f):
        d = {}
        for k, v in zip(e.keys, e.values):
            if k is None:
                d.update(self.eval(v, f))
            else:
                d[self.eval(k, f)] = self.eval(v, f)
        return d

    def x_JoinedStr(self, e, f):
        out, exact = "", True
        for v in e.values:
            if isinstance(v, ast.Constant):
                out += str(v.value)
                continue
            val = self.eval(v.value, f)
            if exact and type(val) in (str, int, bytes, bool, float, type(None)) and (v.format_spec is None or all(isinstance(x, ast.Constant) for x in v.format_spec.values)):
                spec = "" if v.format_spec is None else "".join(str(x.value) for x in v.format_spec.values)
                if v.conversion == 114:
                    val = repr(val)
                elif v.conversion == 115:
                    val = str(val)
                elif v.conversion == 97:
                    val = ascii(val)
                try:
                    out += format(val, spec)
                except Exception as x:
                    raise PyRaise(type(x).__name__, e)
            else:
                exact = False
        return out if exact else TEXT

    def x_FormattedValue(self, e, f):
        self.eval(e.value, f)
        return "<text>"

    def x_IfExp(self, e, f):
        v = self.truth(self.eval(e.test, f), e.test)
        self.trace.append(("ifexp", e, f.qualname, v))
        return self.eval(e.body if v else e.orelse, f)

    def x_BoolOp(self, e, f):
        is_and = isinstance(e.op, ast.And)
        v = None
        for x in e.values:
            v = self.eval(x, f)
            t = self.truth(v, x)
            if is_and and not t:
                return v if not isinstance(v, Free) else False
            if not is_and and t:
                return v if not isinstance(v, Free) else True
        return v if not isinstance(v, Free) else (is_and)

    def x_UnaryOp(self, e, f):
        v = self.eval(e.operand, f)
        if isinstance(e.op, ast.Not):
            return not self.truth(v, e.operand)
        if isinstance(v, Sym):
            return Sym(("unop", type(e.op).__name__, v.term))
        if isinstance(v, Free):
            return Free("op")
        if isinstance(v, Role):
            raise NotEvaluable("arithmetic on a partition value: %s" % ast.unparse(e))
        try:
            return {ast.USub: lambda a: -a, ast.UAdd: lambda a: +a, ast.Invert: lambda a: ~a}[type(e.op)](v)
        except Exception as x:
            raise PyRaise(type(x).__name__, e)

    def x_BinOp(self, e, f):
        return self.binop(e.op, self.eval(e.left, f), self.eval(e.right, f), e)

    def binop(self, op, a, b, node):
        if isinstance(op, ast.Mod) and isinstance(a, str):
            flat = list(b) if isinstance(b, tuple) else [b]
            if a != TEXT and all(type(x) in (str, int, bytes, bool, float, type(None)) for x in flat) and TEXT not in flat:
                try:
                    return a % b
                except Exception as x:
                    raise PyRaise(type(x).__name__, node)
            return TEXT
        for x, y in ((a, b), (b, a)):
            if isinstance(x, Role):
                if isinstance(op, ast.BitAnd) and isinstance(y, int) and not isinstance(y, (Role, bool)) and y == 0xFFFFFFFF and 0 <= int(x) <= y:
                    return x
                raise NotEvaluable("arithmetic on a partition value: %s" % ast.unparse(node))
        if isinstance(a, Sym) or isinstance(b, Sym):
            return Sym(("binop", type(op).__name__, term_of(a), term_of(b)))
        if isinstance(a, Free) or isinstance(b, Free):
            return Free("expr")
        if isinstance(a, Region) or isinstance(b, Region):
            raise NotEvaluable("arithmetic on stream bytes: %s" % ast.unparse(node))
        from .pathkit import _BIN
        fn = _BIN.get(type(op))
        if fn is None:
            if isinstance(op, ast.Div):
                fn = lambda x, y: x / y
            elif isinstance(op, ast.Pow):
                fn = lambda x, y: x ** y
            else:
                raise NotEvaluable("operator in %s" % ast.unparse(node))
        try:
            return fn(a, b)
        except Exception as x:
            raise PyRaise(type(x).__name__, node)

    def x_Compare(self, e, f):
        left = self.eval(e.left, f)
        for op, r in zip(e.ops, e.comparators):
            right = self.eval(r, f)
            res = self.compare(op, left, right, e)
            if not res:
                return False
            left = right
        return True

    def compare(self, op, a, b, node):
        if isinstance(op, (ast.In, ast.NotIn)):
            if isinstance(b, Free) or (isinstance(a, Free) and isinstance(b, (str, bytes))):
                res = self.choose(("in", self.key_of(a), self.key_of(b)), "")
                res = res if isinstance(op, ast.In) else not res
                self.note_choice(node, res)
                self.sym_cmps.append((type(op).__name__, term_of(a), term_of(b), res, node, self.qual()))
                return res
            if isinstance(b, IterV):
                b = self.iterate(b, node)
            if isinstance(b, (list, tuple, set, frozenset, dict)):
                res = any(self.compare(ast.Eq(), a, x, node) for x in list(b.keys() if isinstance(b, dict) else b))
            elif isinstance(b, (str, bytes)) and isinstance(a, (str, bytes, int)) and not isinstance(a, Role):
                try:
                    res = a in b
                except Exception as x:
                    raise PyRaise(type(x).__name__, node)
            else:
                raise NotEvaluable("membership %s" % ast.unparse(node))
            return res if isinstance(op, ast.In) else not res
        if isinstance(op, (ast.Is, ast.IsNot)):
            if isinstance(a, Sym) or isinstance(b, Sym):
                h = self.hooks.get("symcompare")
                r = h(self, "Is", a, b, node) if h is not None else NotImplemented
                if r is not NotImplemented:
                    return r if isinstance(op, ast.Is) else not r
            if isinstance(a, Free) or isinstance(b, Free):
                if a is None or b is None:
                    res = False     # input fields are never None
                else:
                    res = a is b
            else:
                res = a is b if not (isinstance(a, (int, str, bytes)) and isinstance(b, (int, str, bytes))) else (type(a) is type(b) and a == b)
            return res if isinstance(op, ast.Is) else not res
        if isinstance(op, (ast.Eq, ast.NotEq)) and isinstance(a, (tuple, list)) and isinstance(b, (tuple, list)) and type(a) is type(b) \
                and (any(isinstance(x, Free) for x in a) or any(isinstance(x, Free) for x in b)):
            eq = len(a) == len(b) and all(self.compare(ast.Eq(), x, y, node) for x, y in zip(a, b))
            return eq if isinstance(op, ast.Eq) else not eq
        if isinstance(a, Free) or isinstance(b, Free):
            opn = type(op).__name__
            if opn in ("Eq", "NotEq") and isinstance(a, Sym) and isinstance(b, Sym) and a.term == b.term:
                return opn == "Eq"
            h = self.hooks.get("symcompare")
            res = h(self, opn, a, b, node) if h is not None else NotImplemented
            if res is NotImplemented:
                ka, kb = self.key_of(a), self.key_of(b)
                if opn in ("Eq", "NotEq") and repr(kb) < repr(ka):
                    ka, kb = kb, ka          # equality is symmetric
                key = (opn, ka, kb)
                # the negated form must be consistent with the positive one
                neg = {"NotEq": "Eq", "GtE": "Lt", "LtE": "Gt"}.get(opn)
                res = (not self.choose((neg,) + key[1:], "")) if neg else self.choose(key, "")
                self.note_choice(node, res)
            self.sym_cmps.append((opn, term_of(a), term_of(b), res, node, self.qual()))
            return res
        for x, y in ((a, b), (b, a)):
            if isinstance(x, Role):
                if isinstance(y, Role):
                    self.role_cmps.append((x.role, node, self.qual(), None))
                elif isinstance(y, int) and not isinstance(y, bool):
                    x.rec.add(int(y))
                    self.role_cmps.append((x.role, node, self.qual(), int(y)))
                elif isinstance(op, (ast.Eq, ast.NotEq)):
                    pass
                else:
                    raise NotEvaluable("comparison of a partition value with %r" % (y,))
        ra, rb = self.role_of(a), self.role_of(b)
        for r in (ra, rb):
            if r is not None and not isinstance(a if r == ra else b, Role):
                self.role_cmps.append((r, node, self.qual(), None))
        if isinstance(a, (Obj, Region, BufferV)) or isinstance(b, (Obj, Region, BufferV)):
            if isinstance(op, (ast.Eq, ast.NotEq)) and (a is None or b is None):
                return isinstance(op, ast.NotEq)
            if isinstance(op, (ast.Eq, ast.NotEq)) and isinstance(a, Obj) and isinstance(b, Obj) \
                    and not any(o.cls is not None and o.cls.lookup("__eq__") is not None for o in (a, b)):
                return (a is b) == isinstance(op, ast.Eq)      # objects without __eq__ compare by identity
            if isinstance(op, (ast.Eq, ast.NotEq)) and isinstance(a, Obj) != isinstance(b, Obj) and not isinstance(a, (Region, BufferV)) \
                    and not isinstance(b, (Region, BufferV)) and not isinstance(a if not isinstance(a, Obj) else b, Free):
                o = a if isinstance(a, Obj) else b
                if o.cls is None or o.cls.lookup("__eq__") is None:
                    return isinstance(op, ast.NotEq)
            raise NotEvaluable("comparison %s" % ast.unparse(node))
        from .pathkit import _CMP
        try:
            return bool(_CMP[type(op)](a, b))
        except Exception as x:
            raise PyRaise(type(x).__name__, node)

    def x_Subscript(self, e, f):
        v = self.eval(e.value, f)
        s = e.slice
        if isinstance(s, ast.Slice):
            k = slice(*(None if p is None else self.eval(p, f) for p in (s.lower, s.upper, s.step)))
            if any(isinstance(p, (Free, Role)) for p in (k.start, k.stop, k.step)) or (k.step is not None and isinstance(v, Sym)):
                raise NotEvaluable("slice bounds in %s" % ast.unparse(e))
        else:
            k = self.eval(s, f)
        if isinstance(v, Obj) and v.cls is not None:
            fv, _ = self.lookup_method(v.cls, "__getitem__")
            if fv is None:
                raise PyRaise("TypeError", e)
            return self.call_function(fv, [v, k], {}, e)
        if isinstance(v, Sym):
            if isinstance(k, slice):
                return Sym(("slice", v.term, term_of(k.start), term_of(k.stop)))
            return Sym(("sub", v.term, term_of(k)))
        if isinstance(v, Free):
            return Free(v.what + "[]")
        if isinstance(v, Region):
            raise NotEvaluable("indexing raw stream bytes: %s" % ast.unparse(e))
        if isinstance(v, dict) and (isinstance(k, Free) or any(isinstance(x, Free) for x in v)):
            hit = self.dict_find(v, k, e)
            if hit is None:
                raise PyRaise("KeyError", e)
            return v[hit]
        if isinstance(v, IterV):
            raise PyRaise("TypeError", e)
        if isinstance(k, (Free, Role)):
            raise NotEvaluable("index in %s" % ast.unparse(e))
        try:
            r = v[k]
        except (KeyError, IndexError, TypeError) as x:
            pr = PyRaise(type(x).__name__, e)
            pr.on_none = v is None     # None can only have been produced by the interpreted code itself
            raise pr
        if isinstance(k, slice) and self.role_of(v) is not None and isinstance(r, (bytes, tuple, list)) and len(r) and not isinstance(v, (tuple, list)):
            pass
        return r

    def x_Call(self, e, f):
        fn = self.eval(e.func, f)
        args = self._elts(e.args, f)
        kwargs = {}
        for k in e.keywords:
            if k.arg is None:
                kwargs.update(self.eval(k.value, f))
            else:
                kwargs[k.arg] = self.eval(k.value, f)
        return self.call(fn, args, kwargs, e)

    def x_Lambda(self, e, f):
        return FuncV(None, e, dict(f.locals), f.module, "%s.<lambda>" % f.qualname, f.cls)

    def x_NamedExpr(self, e, f):
        v = self.eval(e.value, f)
        self.assign(e.target, v, f)
        return v

    def _comp(self, e, f, gens, emit):
        if not gens:
            emit(f)
            return
        g = gens[0]
        for x in self.iterate(self.eval(g.iter, f), g.iter):
            self.tick()
            self.assign(g.target, x, f)
            if all(self.truth(self.eval(c, f), c) for c in g.ifs):
                self._comp(e, f, gens[1:], emit)

    def x_ListComp(self, e, f):
        out = []
        f2 = Frame(self, f.module, dict(f.locals), f.qualname, f.cls)
        self._comp(e, f2, e.generators, lambda fr: out.append(self.eval(e.elt, fr)))
        return out

    def x_GeneratorExp(self, e, f):
        return IterV(self.x_ListComp(e, f))

    def x_SetComp(self, e, f):
        return set(self.x_ListComp(e, f))

    def x_DictComp(self, e, f):
        out = {}
        f2 = Frame(self, f.module, dict(f.locals), f.qualname, f.cls)
        self._comp(e, f2, e.generators, lambda fr: out.__setitem__(self.eval(e.key, fr), self.eval(e.value, fr)))
        return out


def _load(t):
    import copy
    n = copy.copy(t)
    n.ctx = ast.Load()
    return n


class Frame:
    def __init__(self, interp, module, locals_, qualname, cls=None):
        self.module = module
        self.locals = locals_
        self.qualname = qualname
        self.cls = cls


class _BufMeth:
    def __init__(self, b, name):
        self.b, self.name = b, name

    def __call__(self, it, args, kwargs, node):
        b = self.b
        n = self.name
        if n == "tell":
            return b.pos
        if n == "seek":
            if len(args) != 1 or isinstance(args[0], (Free, Role)) or not isinstance(args[0], int):
                raise NotEvaluable("seek argument")
            b.pos = args[0]
            return b.pos
        if n == "read":
            size = args[0] if args else kwargs.get("size", -1)
            if isinstance(size, (Free, Role)):
                raise NotEvaluable("read size")
            total = int(b.nbytes)
            if size is None or size < 0:
                r = Region(b.pos, None, max(0, total - b.pos))
                b.pos = max(b.pos, total)
            else:
                r = Region(b.pos, size, max(0, min(size, total - b.pos)))
                b.pos += r.avail
            b.reads.append(r)
            return r
        if n == "getbuffer":
            return _MemV(b)
        raise NotEvaluable("buffer method %s" % n)


class _StructMeth:
    def __init__(self, s, name):
        self.s, self.name = s, name

    def __call__(self, it, args, kwargs, node):
        if self.name != "unpack" or len(args) != 1:
            raise NotEvaluable("Struct.%s" % self.name)
        data = args[0]
        if not isinstance(data, Region):
            raise NotEvaluable("unpack of %r" % (data,))
        if data.avail != self.s.size:
            raise PyRaise("error", node)     # struct.error: unpack requires a buffer of N bytes
        order, slots = fmt_slots(self.s.fmt)
        if it.field_provider is None:
            raise NotEvaluable("no field provider")
        return tuple(it.field_provider(it, data.start + off, size, code, order) for off, size, code in slots)


def explore(make_interp, run, max_runs=64):
    """run `run(interp)` for every sequence of choice outcomes (depth first).  -> list of (interp, result)"""
    out = []
    stack = [[]]
    while stack:
        prefix = stack.pop()
        it = make_interp(prefix)
        res = run(it)
        out.append((it, res))
        if len(out) > max_runs:
            raise NotEvaluable("more than %d paths over unconstrained fields" % max_runs)
        taken = it.choices
        for i in range(len(prefix), len(taken)):
            stack.append(taken[:i] + [not taken[i]])
    return out


def all_paths(run, max_runs=512):
    """run(decisions) -> (interp, result) for every sequence of choice outcomes (depth first)"""
    out = []
    stack = [[]]
    while stack:
        prefix = stack.pop()
        it, res = run(prefix)
        out.append((it, res))
        if len(out) > max_runs:
            raise NotEvaluable("more than %d paths over unconstrained values" % max_runs)
        for i in range(len(prefix), len(it.choices)):
            stack.append(it.choices[:i] + [not it.choices[i]])
    return out
