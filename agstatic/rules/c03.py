"""C03 -- LEB128 integers decode to the value their bytes encode.

Rule: readuleb128 / readsleb128 / readuleb128p1 are abstractly interpreted over
a stream of symbolic bytes; every syntactic path (1..5 bytes) must (a) be
selected exactly by the continuation bits, (b) consume exactly that many bytes
and (c) yield bits [7j,7j+7) = byte j [0,7), truncated to 32 bits, zero- or
sign-extended as the DEX specification says.  The writers are interpreted on a
symbolic 32-bit value (paths split by magnitude via exact refinement) and their
abstract output is fed back through the abstract reader: the composition must
be the identity on every bit, and every emitted byte must carry the
continuation flag exactly when another byte follows.
"""
from __future__ import annotations

import ast

from ..absint import Interp, Sym, StreamV, BytesV, Raised, explore, show, Lin, is_exact
from ..bits import Bits, bits_relation
from ..consts import Folder
from ..model import DEX, AnalysisError


def _hooks(m):
    return {"inline_funcs": {"*module*"}}


def _spec_value(nbytes, signed, asg):
    """DEX spec: concatenate 7-bit groups, keep 32 bits; sign-extend from the last group's top bit
    (from bit 31 when five bytes were read)."""
    bl = []
    for j in range(nbytes):
        for i in range(7):
            k = ("s", j, i)
            bl.append(asg.get(k, k))
    bl = bl[:32]
    return Bits.source(bl, signed)


def _expected_len(asg):
    """number of bytes the encoding occupies according to the continuation bits in asg
    (None when a needed continuation bit is not fixed on this path)"""
    for j in range(4):
        b = asg.get(("s", j, 7))
        if b is None:
            return None, j
        if b == 0:
            return j + 1, None
    return 5, None


def run(ctx):
    ctx.explanation = __doc__
    repo = ctx.repo
    m = ctx.mod(DEX)
    folder = Folder(repo)
    for fn, signed, p1 in (("readuleb128", False, 0), ("readsleb128", True, 0), ("readuleb128p1", False, 1)):
        f = m.func(fn)
        ctx.analysed(f)
        _check_reader(ctx, repo, folder, m, f, signed, p1)
    ctx.floor("reader_paths", 15)
    for fn, signed in (("writeuleb128", False), ("writesleb128", True)):
        f = m.func(fn)
        ctx.analysed(f)
        _check_writer(ctx, repo, folder, m, f, signed)
    ctx.floor("writer_paths", 10)
    ctx.analysed(m.func("get_byte"))
    ctx.assume("cm.packer[fmt] is struct.Struct('<'+fmt); buff.read(n) returns the next n bytes or fewer at EOF (then unpack raises)")


STREAM_LEN = 8


def _run_reader(repo, folder, m, f, asg, backing=None):
    it = Interp(repo, folder, asg=asg, hooks=_hooks(m))
    it.max_split = 4
    st = StreamV("buff", backing=backing)
    v = it.call_function(f, [Sym("cm"), st])
    return v, st, it


def _check_reader(ctx, repo, folder, m, f, signed, p1):
    def run(asg):
        a = dict(asg)
        # an input of STREAM_LEN arbitrary bytes followed by end of file: a reader that honours the five-byte limit never
        # reaches the end; one that keeps following continuation bits runs into it (and the exploration stays finite)
        backing = BytesV([[a.get(("s", k, i), ("s", k, i)) for i in range(8)] for k in range(STREAM_LEN)])
        v, st, it = _run_reader(repo, folder, m, f, a, backing=backing)
        return a, v, st.pos

    res = explore(run)
    seen_len = set()
    for asg0, r in res:
        if isinstance(r, Raised):
            ctx.check("reader-accepts", f.qualname, False, f, f.qualname, "%s raises %s on some sequence of %d bytes (an encoding ends with its fifth byte at the latest)" % (
                f.qualname, r, STREAM_LEN), node=r.node, witness=_wit(asg0))
            continue
        asg, v, pos = r
        ctx.count("reader_paths")
        n, missing = _expected_len(asg)
        inst = "%s path bytes=%s cont=%s" % (f.qualname, pos, "".join(str(asg.get(("s", j, 7), "x")) for j in range(5)))
        if n is None:
            ctx.check("continuation", inst, False, f, "continuation bit of byte %d" % missing,
                      "%s returns without testing the continuation bit of byte %d" % (f.qualname, missing), witness=_wit(asg))
            continue
        seen_len.add(n)
        ctx.check("consumed", inst, pos == n, f, "%d-byte encoding" % n,
                  "%s consumes %s bytes for an encoding whose continuation bits say %d" % (f.qualname, pos, n), witness=_wit(asg),
                  detail="consumes exactly %d byte(s)" % n)
        exp = _spec_value(n, signed, asg)
        got = v
        if p1:
            # uleb128p1 = uleb128 - 1 : compare as linear forms
            lg = Lin.of(got) if not isinstance(got, Lin) else got
            ok = False
            if isinstance(got, Bits) and exp.is_const():
                ok = got.subst(asg).is_const() and got.subst(asg).value() == exp.value() - 1
            elif lg is not None and lg.const == -1 and len(lg.terms) == 1:
                (atom, c), = lg.terms.items()
                ok = c == 1 and isinstance(atom, Bits) and atom.subst(asg) == exp
            elif isinstance(got, Bits):
                # some paths may fold to Bits when exact; accept if got+1 == exp
                r1 = got.subst(asg).add(Bits.const(1))
                ok = r1 is not None and r1 == exp
            ctx.check("value", inst, ok, f, "%d-byte uleb128p1 value" % n,
                      "%s yields %s; the specification says uleb128 - 1 = (%s) - 1" % (f.qualname, show(got)[:200], exp.describe()),
                      witness=_wit(asg), detail="= (%s) - 1" % exp.describe())
            continue
        if not is_exact(got):
            gb = got.subst(asg) if isinstance(got, Bits) else None
            if gb is None or bits_relation(gb, exp) != "different":
                raise AnalysisError("%s: the value on the %d-byte path leaves the bit domain (%s); the code uses arithmetic the interpreter cannot follow exactly" % (f.qualname, n, show(got)[:200]))
        ok = isinstance(got, (Bits, int)) and (Bits.const(got) if isinstance(got, int) else got.subst(asg)) == exp
        ctx.check("value", inst, ok, f, "%d-byte %s value" % (n, "sleb128" if signed else "uleb128"),
                  "%s decodes a %d-byte encoding to %s; the DEX specification says %s" % (f.qualname, n, show(got)[:220], exp.describe()),
                  witness=_wit(asg), detail="= %s" % exp.describe())
    for n in range(1, 6):
        ctx.check("lengths", "%s handles %d-byte encodings" % (f.qualname, n), n in seen_len, f, "%d-byte encoding" % n,
                  "%s has no path for %d-byte encodings" % (f.qualname, n))


def _wit(asg):
    by = {}
    for k, v in asg.items():
        if k[0] == "s":
            by.setdefault(k[1], {})[k[2]] = v
    return {"byte%d" % b: "".join(str(bits.get(i, "x")) for i in range(7, -1, -1)) for b, bits in sorted(by.items()) if isinstance(b, int)}


def _check_writer(ctx, repo, folder, m, f, signed):
    reader = m.func("readsleb128" if signed else "readuleb128")
    vbits = [("s", "v", i) for i in range(32)]

    def run(asg):
        a = dict(asg)
        value = Bits.source([a.get(k, k) for k in vbits], signed)
        it = Interp(repo, folder, asg=a, hooks=_hooks(m))
        it.max_split = 4
        out = it.call_function(f, [Sym("cm"), value])
        return a, out, list(it.path)

    res = explore(run)
    lens = set()
    for asg0, r in res:
        if isinstance(r, Raised):
            ctx.check("writer-accepts", f.qualname, False, f, f.qualname, "%s raises %s for some 32-bit value" % (f.qualname, r), node=r.node)
            continue
        asg, out, path = r
        ctx.count("writer_paths")
        value = Bits.source([asg.get(k, k) for k in vbits], signed)
        inst = "%s path %s" % (f.qualname, _vdesc(asg))
        if not is_exact(out) or isinstance(out, (bytes, bytearray)):
            if isinstance(out, (bytes, bytearray)):
                out = BytesV([[(x >> i) & 1 for i in range(8)] for x in out])
            else:
                raise AnalysisError("%s: the encoded bytes leave the abstract domain (%s)" % (f.qualname, show(out)[:200]))
        if not isinstance(out, BytesV) or not out.bytes:
            ctx.check("writer-shape", inst, False, f, f.qualname, "%s does not return the packed bytes (%s)" % (f.qualname, show(out)))
            continue
        n = len(out.bytes)
        lens.add(n)
        # continuation flags: set on all but the last byte
        flags = []
        for by in out.bytes:
            b7 = by[7]
            if isinstance(b7, tuple):
                b7 = asg.get(("s",) + b7[1:], b7)
            flags.append(b7)
        okf = flags[:-1] == [1] * (n - 1) and flags[-1] == 0
        ctx.check("writer-flags", inst, okf, f, "%d-byte output" % n,
                  "%s emits continuation flags %s for a %d-byte encoding" % (f.qualname, flags, n), witness=_vwit(asg),
                  detail="flags %s" % flags)
        ctx.check("writer-length", inst, n <= 5, f, "%d-byte output" % n, "%s emits %d bytes for a 32-bit value" % (f.qualname, n), witness=_vwit(asg))
        # feed the abstract output to the abstract reader
        a2 = dict(asg)
        try:
            back = explore(lambda extra: _run_reader(repo, folder, m, reader, {**a2, **extra}, backing=BytesV([list(b) for b in out.bytes]))[0:2])
        except AnalysisError as e:
            raise
        ok = len(back) >= 1
        detail = ""
        for extra, rr in back:
            if isinstance(rr, Raised):
                ok = False
                detail = "reader raises %s" % rr
                break
            v, st = rr
            full = {**a2, **extra}
            got = Bits.const(v) if isinstance(v, int) else v
            if not (isinstance(got, Bits) and got.subst(full) == value.subst(full) and st.pos == n):
                ok = False
                detail = "read back %s from %d bytes, wrote %s" % (show(got.subst(full) if isinstance(got, Bits) else got)[:200], st.pos, value.subst(full).describe())
                break
        ctx.check("round-trip", inst, ok, f, "%d-byte output" % n,
                  "%s then %s is not the identity: %s" % (f.qualname, reader.qualname, detail), witness=_vwit(asg),
                  detail="read(write(v)) == v bit for bit on the %d-byte class (%s)" % (n, _vdesc(asg)))
    want = {1, 2, 3, 4, 5}
    ctx.check("writer-lengths", "%s produces 1..5 byte encodings" % f.qualname, want <= lens, f, f.qualname,
              "%s never produces encodings of length(s) %s" % (f.qualname, sorted(want - lens)))


def _vdesc(asg):
    fixed = {k[2]: v for k, v in asg.items() if k[0] == "s" and k[1] == "v"}
    return "v[" + "".join(str(fixed.get(i, "x")) for i in range(31, -1, -1)) + "]"


def _vwit(asg):
    return {"value_bits_msb_first": _vdesc(asg)}


MUTATION_TARGETS = [(DEX, "readuleb128"), (DEX, "readsleb128"), (DEX, "readuleb128p1"), (DEX, "writeuleb128"), (DEX, "writesleb128"), (DEX, "get_byte")]
