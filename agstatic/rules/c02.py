"""C02 -- linear-sweep disassembly recovers the instruction stream and terminates.

Clauses decided:
 (a) dispatch: the three-way split of LinearSweepAlgorithm.get_instructions is abstractly
     interpreted for every 16-bit first code unit (thorough: all 65536; quick: every low byte x
     one representative of every class of high bytes the code can distinguish) and both ODEX
     modes: units 0x0100/0x0200/0x0300 go to payload parsing, every other unit (hi<<8)|op goes
     to get_instruction(op); only a nop with a non-zero high byte may be rejected outright.
 (b) termination: every path round the sweep loop passes `idx += obj.get_length()`, and the
     interval of every reachable get_length() is >= 2 (class `length` constants; payload length
     expressions over unsigned fields); max_idx is clamped to len(insn).
 (c) size agreement + re-encoding of payloads: for a grid of sizes/widths the constructor is
     interpreted over a symbolic buffer: bytes consumed == get_length() == len(get_raw()) and
     get_raw() reproduces every consumed bit.  The expressions involved are checked to lie in the
     affine-with-parity fragment, for which agreement on the grid implies agreement everywhere.
 (d) truncation: on a buffer shorter than the payload the constructor must raise.
 (e) DCode.off_to_pos / get_ins_off accumulate get_length() of the same instruction iterator.
Not decided: equality of the yielded stream with an assembled program.
"""
from __future__ import annotations

import ast
import itertools

from ..absint import Interp, Sym, BufV, BytesV, Obj, Raised, explore, show
from ..bits import Bits
from ..cfg import CFG
from ..consts import Folder, Ref, Unknown
from ..model import DEX, AnalysisError, walk_no_nested, parent
from ..spec import dalvik


def run(ctx):
    ctx.explanation = __doc__
    repo = ctx.repo
    m = ctx.mod(DEX)
    folder = Folder(repo)
    sweep = m.func("LinearSweepAlgorithm.get_instructions")
    ctx.analysed(sweep)
    _dispatch(ctx, repo, folder, m, sweep)
    _termination(ctx, repo, folder, m, sweep)
    _payloads(ctx, repo, folder, m)
    _offsets(ctx, m, repo, folder)
    _repeat(ctx, m, repo, folder)


# --------------------------------------------------------------------------- (a)
DECODERS = ("get_instruction", "get_instruction_payload", "get_optimized_instruction")


class _Stop(Exception):
    def __init__(self, value):
        self.value = value


class _Decoded:
    """marker for the object a decoder returns in the abstract run"""

    def __init__(self, kind, op, length):
        self.kind, self.op, self.length = kind, op, length

    def __repr__(self):
        return "<decoded %s %s>" % (self.kind, self.op)


def _sweep_helpers(m, sweep):
    """functions the sweep may delegate to: the other functions of its class and private module-level helpers"""
    names = set()
    if sweep.cls is not None:
        for c in sweep.cls.mro():
            for f in c.methods.values():
                names.add(f.qualname)
    for q, f in m.functions.items():
        if "." not in q and q.startswith("_") and q not in DECODERS:
            names.add(q)
    names.discard(sweep.qualname)
    return names


def _run_sweep(repo, folder, m, sweep, unit, odex, size, buflen, stop_at_first, length_of):
    """abstractly execute get_instructions; -> list of (asg-independent) outcomes, one per path:
       ('yield', [decoded...]) | ('raise', exc) ; decoders are hooked, the first code unit is `unit` at every position"""
    helpers = _sweep_helpers(m, sweep)

    def run(asg):
        routed = []

        def func_hook(it, target, args, kwargs, e, func):
            if target.qualname in DECODERS:
                a = [x.value() if isinstance(x, Bits) and x.is_const() else x for x in args]
                if target.qualname == "get_instruction":
                    d = _Decoded("insn", a[1] if len(a) > 1 else None, length_of("insn", a[1] if len(a) > 1 else None))
                elif target.qualname == "get_instruction_payload":
                    d = _Decoded("payload", a[0] if a else None, length_of("payload", a[0] if a else None))
                else:
                    d = _Decoded("optimized", a[1] if len(a) > 1 else None, length_of("optimized", None))
                routed.append(d)
                return d
            return NotImplemented

        def method_hook(it, recv, name, args, kwargs, e, func):
            if isinstance(recv, _Decoded):
                if name == "get_length":
                    return recv.length
                if name == "get_op_value" and isinstance(recv.op, int):
                    return recv.op
                return Sym("decoded." + name)
            if name == "get_odex_format":
                return odex
            from ..absint import PackerV
            if isinstance(recv, PackerV) and name == "unpack" and recv.fmt.lstrip("<=@") == "H":
                return (unit,)
            return NotImplemented

        yielded = []

        def yield_hook(it, v, e, func):
            if func is sweep or func.qualname in helpers:
                yielded.append(v)
                if stop_at_first:
                    raise _Stop(v)

        it = Interp(repo, folder, asg=dict(asg), hooks={"func": func_hook, "method": method_hook, "yield": yield_hook, "inline_funcs": helpers})
        it.max_split = 0
        buf = BufV("insn", 0, buflen)
        try:
            it.call_function(sweep, [Sym("cm"), size, buf, Sym("idx") if stop_at_first else 0])
        except _Stop:
            pass
        except Raised as r:
            r.final_asg = dict(it.asg)
            raise
        return yielded, routed, dict(it.asg)

    outs = []
    for asg, r in explore(run):
        if isinstance(r, Raised):
            outs.append(("raise", r.exc, r, getattr(r, "final_asg", asg)))
        else:
            outs.append(("yield", r[0], r[1], r[2]))
    return outs


def _dispatch(ctx, repo, folder, m, sweep):
    payload_tbl = folder.global_(m, "DALVIK_OPCODES_PAYLOAD")
    opt_tbl = folder.global_(m, "DALVIK_OPCODES_OPTIMIZED")
    ctx.require(isinstance(payload_tbl, dict) and isinstance(opt_tbl, dict), "payload/optimized tables do not fold")
    ctx.check("payload-table", "DALVIK_OPCODES_PAYLOAD keys", set(payload_tbl) == set(dalvik.PAYLOADS), "DALVIK_OPCODES_PAYLOAD", "keys %s" % sorted(map(hex, payload_tbl)),
              "payload pseudo-opcodes are 0x0100, 0x0200, 0x0300; table has %s" % sorted(map(hex, payload_tbl)), file=m.relpath)
    exp_cls = {0x0100: "PackedSwitch", 0x0200: "SparseSwitch", 0x0300: "FillArrayData"}
    for k, v in payload_tbl.items():
        cn = v[0].name if isinstance(v, list) and v and isinstance(v[0], Ref) else None
        ctx.check("payload-table", "0x%04x" % k, exp_cls.get(k) == cn, "DALVIK_OPCODES_PAYLOAD", "0x%04x: %s" % (k, cn),
                  "payload 0x%04x must be parsed by %s, table says %s" % (k, exp_cls.get(k), cn), file=m.relpath)

    # classes of high bytes the code can distinguish: every constant of the sweep (and of the helpers it
    # delegates to) and every table key
    consts = {0, 0xFF, 0x100, 0xFFFF}
    roots = [sweep.node] + [m.functions[q].node for q in _sweep_helpers(m, sweep) if q in m.functions]
    for r in roots:
        for n in ast.walk(r):
            if isinstance(n, ast.Constant) and isinstance(n.value, int) and not isinstance(n.value, bool) and 0 <= n.value <= 0xFFFF:
                consts.add(n.value)
    consts.update(payload_tbl)
    consts.update(opt_tbl)
    his = sorted({c >> 8 for c in consts} | {(c >> 8) + 1 for c in consts if (c >> 8) < 0xFF} | {max((c >> 8) - 1, 0) for c in consts} | {0x7F, 0x80})
    if ctx.tier == "thorough":
        his = list(range(256))
    ctx.extra["dispatch_high_bytes"] = ["0x%02x" % h for h in his]

    LO = [("s", "u", i) for i in range(8)]

    def classify(hi, odex):
        """-> list of (low byte: int | None (= every value not singled out on this path), outcome)"""
        unit = Bits.source(list(LO) + [(hi >> i) & 1 for i in range(8)], False)
        outs = _run_sweep(repo, folder, m, sweep, unit, odex, Sym("size"), None, True, lambda kind, op: Sym("len"))
        res = []
        for o in outs:
            asg = o[3]
            lob = [asg.get(k) for k in LO]
            lo = sum(b << i for i, b in enumerate(lob)) if all(b is not None for b in lob) else None
            if o[0] == "raise":
                res.append((lo, ("raise", o[1]), asg))
                continue
            if not o[1]:
                continue  # loop not entered on this path
            d = o[1][0]
            if not isinstance(d, _Decoded):
                raise AnalysisError("sweep: the object yielded for units 0x%02x__ does not come from one of the decoders (%s) - outside the analysable fragment" % (hi, show(d)[:60]))
            op = d.op
            if isinstance(op, Bits):
                op = op.subst(asg)
                op = op.value() if op.is_const() else op
            res.append((lo, (d.kind, op), asg))
        if not res:
            raise AnalysisError("sweep: no path of the abstract run reaches a decoder for units 0x%02x__" % hi)
        return res

    n = 0
    bad = {}
    lo_sym = Bits.source(list(LO), False)
    for odex in (False, True):
        for hi in his:
            n += 256
            for lo, got, asg in classify(hi, odex):
                if lo is not None:
                    unit = (hi << 8) | lo
                    if unit in dalvik.PAYLOADS:
                        ok = got == ("payload", unit)
                    elif odex and unit in opt_tbl:
                        ok = got[0] in ("optimized", "insn")
                    else:
                        ok = got == ("insn", lo)
                        if not ok and lo == 0x00 and hi != 0 and got[0] == "raise" and got[1].endswith("InvalidInstruction"):
                            ok = True  # a nop with a non-zero high byte is invalid anyway
                    ex = unit
                else:
                    # every low byte this path did not single out: must be decoded as the ordinary opcode in the low byte
                    ok = got[0] == "insn" and isinstance(got[1], Bits) and got[1] == lo_sym.subst(asg)
                    ex = (hi << 8) | 0x12
                if not ok:
                    key = (odex, lo if lo in (0x00, 0xFF) else "other", got[0], show(got[1])[:40] if not isinstance(got[1], (int, str)) else str(got[1])[:40])
                    bad.setdefault(key, []).append(ex)
    ctx.count("dispatch_units", n)
    ctx.ob("dispatch", "%d (unit, odex) combinations routed" % n, not bad, "each unit goes to the decoder the Dalvik format assigns")
    for (odex, lo, kind, what), units in sorted(bad.items(), key=str):
        ex = units[0]
        ctx.check("dispatch", "unit 0x%04x odex=%s" % (ex, odex), False, sweep,
                  "low byte %s odex=%s -> %s %s" % ("0x%02x" % lo if isinstance(lo, int) else lo, odex, kind, what),
                  "first code unit 0x%04x (and %d more with the same shape, odex=%s) is routed to %s %s; the Dalvik format says %s" % (
                      ex, len(units) - 1, odex, kind, what,
                      "get_instruction(0x%02x)" % (ex & 0xFF)),
                  node=sweep.node, witness={"unit": "0x%04x" % ex, "bytes": "%02x %02x" % (ex & 0xFF, ex >> 8), "count": len(units)})
    ctx.floor("dispatch_units", 2 * 256 * 8)


# --------------------------------------------------------------------------- (b)
def _interval(e, env):
    """interval of a non-negative integer expression; env: ast.unparse(text) -> (lo, hi)"""
    t = ast.unparse(e)
    if t in env:
        return env[t]
    if isinstance(e, ast.Constant) and isinstance(e.value, int):
        return (e.value, e.value)
    if isinstance(e, ast.Call) and ast.unparse(e.func).endswith("calcsize") and e.args and isinstance(e.args[0], ast.Constant):
        import struct
        v = struct.calcsize(e.args[0].value)
        return (v, v)
    if isinstance(e, ast.BinOp):
        a, b = _interval(e.left, env), _interval(e.right, env)
        if a is None or b is None or a[0] < 0 or b[0] < 0:
            return None
        if isinstance(e.op, ast.Add):
            return (a[0] + b[0], a[1] + b[1])
        if isinstance(e.op, ast.Mult):
            return (a[0] * b[0], a[1] * b[1])
        if isinstance(e.op, ast.FloorDiv) and b[0] > 0:
            return (a[0] // b[1], a[1] // b[0])
        if isinstance(e.op, ast.LShift):
            return (a[0] << b[0], a[1] << b[1])
    return None


def _termination(ctx, repo, folder, m, sweep):
    # the sweep is executed abstractly to completion on small codes: `size` code units declared, a buffer of L bytes,
    # every decoded object has length `ln`; it must yield exactly min(2*size, L) // ln objects (bound clamped to the
    # buffer, offset advanced by get_length() on every path round the loop) and terminate.
    cases = [(4, 8, 2, 0x000E), (4, 6, 2, 0x000E), (4, 12, 2, 0x0000), (6, 12, 4, 0x0013), (3, 6, 6, 0x0014), (0, 4, 2, 0x000E),
             (5, 10, 2, 0x0000), (4, 8, 2, 0x01FF), (6, 12, 12, 0x0100)]
    for size, buflen, ln, unit in cases:
        ctx.count("sweep_runs")
        inst = "declared %d code units, buffer of %d bytes, first unit 0x%04x, instructions of %d bytes" % (size, buflen, unit, ln)
        try:
            outs = _run_sweep(repo, folder, m, sweep, unit, False, size, buflen, False, lambda kind, op: ln)
        except AnalysisError as e:
            if "not bounded by abstract evaluation" in str(e):
                ctx.check("progress", inst, False, sweep, "sweep loop makes no progress",
                          "the sweep loop does not terminate on a code of %d bytes: its offset is not advanced by the length of the decoded instruction on every path" % min(2 * size, buflen),
                          node=sweep.node)
                continue
            raise
        if len(outs) > 8:
            raise AnalysisError("sweep: the concrete-size run split into %d paths (%s): a condition of the sweep is outside the abstract domain" % (len(outs), inst))
        for o in outs:
            _judge_sweep_run(ctx, sweep, o, size, buflen, ln, inst)
    ctx.floor("sweep_runs", 6)
    _length_constants(ctx, repo, folder, m)


def _judge_sweep_run(ctx, sweep, o, size, buflen, ln, inst):
    if True:
        if o[0] == "raise":
            if o[1] == "NonTermination":
                ctx.check("progress", inst, False, sweep, "sweep loop makes no progress",
                          "the sweep loop does not terminate: its state repeats without the offset advancing by the decoded instruction's length", node=o[2].node)
            else:
                ctx.check("progress", inst, False, sweep, "sweep raises %s" % o[1], "the sweep raises %s on a code of well-formed instructions (%s)" % (o[2], inst), node=o[2].node)
            return
        want = min(2 * size, buflen) // ln
        got = len(o[1])
        ctx.check("bound", inst, got == want, sweep, "sweep yields %d of %d instructions" % (got, want),
                  "the sweep yields %d instruction(s) where the code holds %d (%s): the sweep must cover min(declared size, buffer length) and advance by get_length()" % (got, want, inst),
                  node=sweep.node, detail="yields %d instruction(s)" % want)


def _length_constants(ctx, repo, folder, m):
    # get_length intervals
    table = folder.global_(m, "DALVIK_OPCODES_FORMAT")
    if not isinstance(table, dict):
        raise AnalysisError("DALVIK_OPCODES_FORMAT does not fold to a constant dict (the table is built by code the constant folder does not evaluate)")
    seen = set()
    for op, row in sorted(table.items()):
        cls = row[0].obj
        if cls.name in seen:
            continue
        seen.add(cls.name)
        ln = cls.lookup_attr("length")
        v = folder.fold(ln, cls.module) if ln is not None else None
        gl = cls.lookup("get_length")
        simple = gl is not None and any(isinstance(n, ast.Return) and n.value is not None and ast.unparse(n.value) == "self.length" for n in ast.walk(gl.node))
        ctx.require(simple, "%s.get_length is not `return self.length`" % cls.name)
        if cls.name == "Instruction00x":
            init = cls.lookup("__init__")
            from ..cfg import raises_only
            ctx.check("length>=2", cls.name, raises_only(init.node.body), init, "%s.length" % cls.name,
                      "%s has length %s and can be constructed: the sweep would not advance" % (cls.name, v))
            continue
        ctx.count("length_constants")
        ctx.check("length>=2", cls.name, isinstance(v, int) and v >= 2 and v % 2 == 0, cls.lookup("get_length"), "%s.length = %s" % (cls.name, v),
                  "%s.length is %r: the sweep needs an even length >= 2 to make progress" % (cls.name, v), detail="length %s" % v)
    ctx.floor("length_constants", 26)
    for cname in ("FillArrayData", "SparseSwitch", "PackedSwitch"):
        cls = m.cls(cname)
        gl = cls.lookup("get_length")
        ctx.require(gl is not None, "%s.get_length vanished" % cname)
        ctx.analysed(gl)
        # lower bound of get_length over all header values: evaluate it on the smallest header (size 0)
        # and rely on the payload grid of clause (c) for its shape
        # (monotone in the unsigned header fields by the fragment check of clause (c))


def _field_intervals(repo, folder, cls, init):
    return {}


# --------------------------------------------------------------------------- (c)(d)
_ALLOWED_LEN_OPS = (ast.Add, ast.Mult, ast.FloorDiv, ast.Mod)


def _payloads(ctx, repo, folder, m):
    grids = {
        "PackedSwitch": (0x0100, [dict(size=s) for s in (0, 1, 2, 3, 5)]),
        "SparseSwitch": (0x0200, [dict(size=s) for s in (0, 1, 2, 3, 5)]),
        "FillArrayData": (0x0300, [dict(size=s, width=w) for s in (0, 1, 2, 3, 4, 7) for w in (1, 2, 3, 4, 8)]),
    }
    spec_len = {
        "PackedSwitch": lambda p: 8 + 4 * p["size"],
        "SparseSwitch": lambda p: 4 + 8 * p["size"],
        "FillArrayData": lambda p: 8 + 2 * ((p["size"] * p["width"] + 1) // 2),
    }
    for cname, (ident, grid) in grids.items():
        cls = m.cls(cname)
        init, gl, gr = cls.lookup("__init__"), cls.lookup("get_length"), cls.lookup("get_raw")
        for f in (init, gl, gr):
            ctx.require(f is not None, "%s: constructor/get_length/get_raw vanished" % cname)
            ctx.analysed(f)
        # fragment check: the length arithmetic uses only + * //const %const over fields
        for f in (init, gl):
            for n in walk_no_nested(f.node):
                if isinstance(n, ast.BinOp) and isinstance(n.op, ast.Mod) and isinstance(n.left, (ast.Constant, ast.JoinedStr)) and isinstance(getattr(n.left, "value", None), str):
                    continue  # string formatting, not arithmetic
                if isinstance(n, ast.BinOp) and isinstance(n.op, (ast.FloorDiv, ast.Mod)):
                    c = folder.fold(n.right, m)
                    ctx.require(isinstance(c, int) and c in (1, 2), "%s: %s leaves the affine-with-parity fragment" % (f.qualname, ast.unparse(n)))
                if isinstance(n, ast.BinOp) and isinstance(n.op, (ast.Pow, ast.LShift, ast.RShift, ast.Div)) and "size" in ast.unparse(n):
                    raise AnalysisError("%s: %s leaves the affine-with-parity fragment" % (f.qualname, ast.unparse(n)))
        for p in grid:
            ctx.count("payload_cases")
            need = spec_len[cname](p)
            hdr = _header_bytes(cname, ident, p)
            inst = "%s %s" % (cname, " ".join("%s=%d" % kv for kv in sorted(p.items())))
            # full buffer
            r = _run_payload(repo, folder, cls, init, gl, gr, hdr, need + 10)
            if isinstance(r, Raised):
                ctx.check("payload-size", inst, False, init, "%s raises" % cname, "%s raises %s on a complete payload (%s)" % (cname, r, inst), node=r.node)
            else:
                consumed, length, raw, _fields = r
                ok = consumed == need and length == need
                ctx.check("payload-size", inst, ok, gl if length != need else init, "%s size agreement" % cname,
                          "%s: constructor reads %s bytes, get_length() is %s, the Dalvik payload is %d bytes" % (inst, consumed, show(length), need),
                          detail="consumed == get_length() == %d" % need)
                if isinstance(raw, (Sym,)) or (not isinstance(raw, BytesV) and raw is not None and not isinstance(raw, (bytes, bytearray, int, str, list, tuple))):
                    raise AnalysisError("%s.get_raw(): result %s is outside the interpreter's fragment" % (cname, show(raw)[:160]))
                rok = isinstance(raw, BytesV) and len(raw.bytes) == need
                why = ""
                if rok:
                    for k in range(need):
                        exp = hdr.get(k)
                        for i in range(8):
                            e = ((exp >> i) & 1) if exp is not None else ("s", k, i)
                            if raw.bytes[k][i] != e:
                                rok = False
                                why = "byte %d bit %d is %s, input is %s" % (k, i, raw.bytes[k][i], e)
                                break
                        if not rok:
                            break
                else:
                    why = "get_raw() is %s, expected %d bytes" % (show(raw), need)
                ctx.check("payload-raw", inst, rok, gr, "%s re-encoding" % cname,
                          "%s: get_raw() does not reproduce the payload bytes: %s" % (inst, why), detail="get_raw() == the %d input bytes" % need)
            # field meaning: keys/targets/first_key are signed 32-bit values at their payload offsets
            if not isinstance(r, Raised):
                _payload_fields(ctx, cls, cname, inst, p, r[3], init)
            # truncated buffers: must raise
            for avail in sorted({need - 1, need - 2, max(need - 4, 0), 8, 6} - {need}):
                if avail < 0 or avail >= need:
                    continue
                if avail < (8 if cname != "SparseSwitch" else 4):
                    continue  # header itself short: struct.error from the fixed-format unpack (covered by the interpreter's slice rule)
                ctx.count("truncation_cases")
                r = _run_payload(repo, folder, cls, init, gl, gr, hdr, avail)
                ok = isinstance(r, Raised) and (r.exc.endswith("InvalidInstruction") or r.exc.endswith("error"))
                got = "raises %s" % r if isinstance(r, Raised) else "returns an instruction of length %s (re-encodes to %s bytes)" % (
                    show(r[1]), len(r[2].bytes) if isinstance(r[2], BytesV) else "?")
                ctx.check("truncation", "%s on %d of %d bytes" % (inst, avail, need), ok, init, "%s truncated payload accepted" % cname,
                          "%s over a buffer of %d bytes (payload needs %d): constructor %s; a payload that does not lie inside the code must be an invalid instruction" % (
                              inst, avail, need, got),
                          witness={"payload": inst, "available": avail, "needed": need}, detail="raises on %d of %d bytes" % (avail, need))
    ctx.floor("payload_cases", 30)
    ctx.floor("truncation_cases", 30)


def _s32(off):
    return Bits.source([("s", off + k, i) for k in range(4) for i in range(8)], True)


def _payload_fields(ctx, cls, cname, inst, p, fields, init):
    """Dalvik: packed-switch-payload first_key int, targets int[size]; sparse-switch-payload keys int[size], targets int[size]
    (all signed 32-bit, branch targets relative to the switch opcode)"""
    n = p["size"]
    if cname == "PackedSwitch":
        exp = {"get_targets": [_s32(8 + 4 * i) for i in range(n)]}
        fk = fields.get("first_key")
        ctx.check("payload-fields", inst + " first_key", isinstance(fk, Bits) and fk == _s32(4), init, "PackedSwitch.first_key",
                  "%s: first_key is %s; the payload defines a signed 32-bit value at bytes 4..7" % (inst, show(fk)[:160]),
                  detail="first_key = signed bytes 4..7")
        gk = fields.get("get_keys")
        if isinstance(gk, list) and n:
            # keys are first_key + i
            from ..absint import Lin
            ok = len(gk) == n
            for i, k in enumerate(gk if ok else []):
                l = Lin.of(k) if not isinstance(k, Lin) else k
                want = Lin({_s32(4): 1}, i).simplify()
                want = Lin.of(want) if not isinstance(want, Lin) else want
                if l is None or l != want:
                    ok = False
            ctx.check("payload-fields", inst + " keys", ok, cls.lookup("get_keys"), "PackedSwitch.get_keys",
                      "%s: get_keys() is %s; expected first_key + 0..size-1" % (inst, show(gk)[:200]), detail="keys = first_key + i")
    elif cname == "SparseSwitch":
        exp = {"get_keys": [_s32(4 + 4 * i) for i in range(n)], "get_targets": [_s32(4 + 4 * n + 4 * i) for i in range(n)]}
    else:
        return
    for g, want in exp.items():
        got = fields.get(g)
        if isinstance(got, Sym):
            raise AnalysisError("%s.%s(): result %s is outside the interpreter's fragment" % (cname, g, show(got)[:120]))
        ok = isinstance(got, (list, tuple)) and len(got) == len(want) and all(isinstance(a, Bits) and a == b for a, b in zip(got, want))
        bad = ""
        if not ok and isinstance(got, (list, tuple)) and len(got) == len(want):
            for i, (a, b) in enumerate(zip(got, want)):
                if not (isinstance(a, Bits) and a == b):
                    bad = "entry %d is %s, the payload defines %s" % (i, show(a)[:120], b.describe())
                    break
        ctx.check("payload-fields", "%s %s" % (inst, g), ok, cls.lookup(g) or init, "%s.%s" % (cname, g),
                  "%s: %s() does not return the signed 32-bit table entries of the payload: %s" % (inst, g, bad or show(got)[:200]),
                  detail="%s = signed 32-bit entries at their payload offsets" % g)


def _header_bytes(cname, ident, p):
    import struct
    if cname == "FillArrayData":
        b = struct.pack("<HHI", ident, p["width"], p["size"])
    else:
        b = struct.pack("<HH", ident, p["size"])
    return dict(enumerate(b))


def _run_payload(repo, folder, cls, init, gl, gr, hdr, avail):
    asg = {}
    for k, byte in hdr.items():
        for i in range(8):
            asg[("s", k, i)] = (byte >> i) & 1

    def r(extra):
        it = Interp(repo, folder, asg={**asg, **extra}, hooks={"inline_funcs": {"*module*"}})
        it.max_split = 4
        o = it.new_obj(cls)
        buf = BufV("buff", 0, avail)
        it.call_function(init, [Sym("cm"), buf], recv=o)
        from ..absint import is_exact
        for k, v in o.attrs.items():
            if k not in ("CM", "cm", "notes") and not is_exact(v):
                raise AnalysisError("%s.__init__: attribute %s is %s - outside the interpreter's fragment" % (cls.name, k, show(v)[:120]))
        consumed = 0
        for ev in it.events:
            if ev[0] == "unpack":
                consumed = max(consumed, ev[1][2] + ev[1][3])
        for v in o.attrs.values():
            if isinstance(v, BufV) and v.length is not None:
                consumed = max(consumed, v.start + v.length)
        length = it.call_function(gl, [], recv=o)
        if isinstance(length, Bits) and length.is_const():
            length = length.value()
        raw = it.call_function(gr, [], recv=o)
        fields = {}
        for g in ("get_keys", "get_targets", "get_values", "get_data"):
            fn = cls.lookup(g)
            if fn is not None:
                try:
                    fields[g] = it.call_function(fn, [], recv=o)
                except Raised as ex:
                    fields[g] = ex
        fields["first_key"] = o.attrs.get("first_key")
        return consumed, length, raw, fields

    res = explore(r)
    if len(res) != 1:
        raise AnalysisError("%s: payload interpretation split into %d paths" % (cls.name, len(res)))
    return res[0][1]


# --------------------------------------------------------------------------- (e)
def _offsets(ctx, m, repo=None, folder=None):
    """DCode.off_to_pos / get_ins_off are executed abstractly on three instructions of symbolic lengths L0, L1, L2 (>= 2):
    off_to_pos(S_k) must be k and get_ins_off(S_k) the k-th instruction for the prefix sums S_0 = 0, S_1 = L0,
    S_2 = L0 + L1; an address that is not a prefix sum gives -1 / None."""
    repo = repo or ctx.repo
    folder = folder or Folder(repo)
    dcode = m.cls("DCode")
    L = [Sym("L0"), Sym("L1"), Sym("L2")]
    from ..absint import Lin

    class _Ins:
        def __init__(self, k):
            self.k = k

        def __repr__(self):
            return "<ins %d>" % self.k

    ins = [_Ins(0), _Ins(1), _Ins(2)]
    sums = [0, L[0], (Lin.of(L[0]) + Lin.of(L[1])).simplify()]
    off_inside = (Lin.of(L[0]) + Lin({}, 1)).simplify()   # L0 + 1: inside instruction 1 (lengths are >= 2)
    off_beyond = (Lin.of(L[0]) + Lin.of(L[1]) + Lin.of(L[2])).simplify()

    def lin(v):
        return v if isinstance(v, Lin) else Lin.of(v)

    def compare(it, op, a, b, node, func):
        if isinstance(op, (ast.Is, ast.IsNot)) and (a is None or b is None):
            other = b if a is None else a
            if other is None:
                return isinstance(op, ast.Is)
            if isinstance(other, (Sym, Lin, _Ins, int)):
                return isinstance(op, ast.IsNot)  # symbolic addresses / instructions are objects, never None
            return NotImplemented
        la, lb = lin(a) if not isinstance(a, (_Ins,)) else None, lin(b) if not isinstance(b, (_Ins,)) else None
        if la is None or lb is None or not isinstance(op, (ast.Eq, ast.NotEq, ast.Lt, ast.LtE, ast.Gt, ast.GtE)):
            return NotImplemented
        d = la + lb.scale(-1)
        # every L is >= 2: decide the sign of a difference whose coefficients all have one sign
        coeffs = list(d.terms.values())
        if not coeffs:
            diff_sign = (d.const > 0) - (d.const < 0)
        elif all(c > 0 for c in coeffs) and d.const + 2 * sum(coeffs) > 0:
            diff_sign = 1
        elif all(c < 0 for c in coeffs) and d.const + 2 * sum(coeffs) < 0:
            diff_sign = -1
        else:
            return NotImplemented
        return {ast.Eq: diff_sign == 0, ast.NotEq: diff_sign != 0, ast.Lt: diff_sign < 0, ast.LtE: diff_sign <= 0,
                ast.Gt: diff_sign > 0, ast.GtE: diff_sign >= 0}[type(op)]

    def method(it, recv, name, args, kwargs, e, func):
        if isinstance(recv, _Ins):
            if name == "get_length":
                return L[recv.k]
            return Sym("ins.%s" % name)
        if isinstance(recv, Obj) and recv.cls is dcode and name == "get_instructions":
            return list(ins)
        return NotImplemented

    helpers = {f.qualname for c in dcode.mro() for f in c.methods.values() if f.name not in ("get_instructions",)}
    for name, expect in (("off_to_pos", lambda k: k), ("get_ins_off", lambda k: ins[k])):
        f = dcode.lookup(name)
        ctx.require(f is not None, "DCode.%s vanished" % name)
        ctx.analysed(f)
        cases = [(sums[k], expect(k), "address of instruction %d" % k) for k in range(3)]
        cases += [(off_inside, -1 if name == "off_to_pos" else None, "address inside instruction 1"),
                  (off_beyond, -1 if name == "off_to_pos" else None, "address behind the last instruction")]
        for off, want, what in cases:
            ctx.count("offset_cases")

            def run(asg, off=off):
                it = Interp(repo, folder, asg=dict(asg), hooks={"compare": compare, "method": method, "inline_funcs": helpers}, unknown_cond="error")
                o = Obj(dcode, "dcode")
                o.attrs["cached_instructions"] = list(ins)
                return it.call_function(f, [off], recv=o)

            res = explore(run)
            ctx.require(len(res) == 1, "DCode.%s: abstract run split into %d paths" % (name, len(res)))
            got = res[0][1]
            if isinstance(got, Raised):
                ctx.check("offsets", "DCode.%s(%s)" % (name, what), False, f, "DCode.%s raises %s" % (name, got.exc),
                          "DCode.%s raises %s for the %s" % (name, got, what), node=got.node)
                continue
            if isinstance(got, Bits) and got.is_const():
                got = got.value()
            if isinstance(got, (Sym, Lin)):
                raise AnalysisError("DCode.%s: result %s is outside the interpreter's fragment" % (name, show(got)[:120]))
            ctx.check("offsets", "DCode.%s(%s)" % (name, what), got is want or got == want, f, "DCode.%s(%s) -> %s" % (name, what, show(got)[:40]),
                      "DCode.%s returns %s for the %s; instruction offsets are the prefix sums of get_length(), expected %s" % (name, show(got)[:60], what, show(want)[:40]),
                      detail="%s -> %s" % (what, show(want)[:40]))
    ctx.floor("offset_cases", 10)

def _repeat(ctx, m, repo=None, folder=None):
    """DCode.get_instructions is executed twice on one DCode object, with the sweep (LinearSweepAlgorithm.get_instructions) replaced by
    (a) a sweep that yields two instructions and (b) a sweep that yields one instruction and then reports an invalid instruction:
    the second disassembly must report exactly what the first did -- the same instructions, resp. the invalid instruction again
    (a cache that survives a failed sweep would silently turn broken code into a shorter valid stream)."""
    repo = repo or ctx.repo
    folder = folder or Folder(repo)
    dcode = m.cls("DCode")
    f = dcode.lookup("get_instructions")
    ctx.require(f is not None, "DCode.get_instructions vanished")
    ctx.analysed(f)
    sweep = m.cls("LinearSweepAlgorithm").lookup("get_instructions")
    ctx.require(sweep is not None, "LinearSweepAlgorithm.get_instructions vanished")

    class _Ins:
        def __init__(self, k):
            self.k = k

        def __repr__(self):
            return "<ins %d>" % self.k

    ins = [_Ins(0), _Ins(1)]
    calls = []
    for label, fails in (("valid code", False), ("code with an invalid instruction after the first one", True)):
        def func_hook(it, target, args, kwargs, e, func, fails=fails):
            if target is sweep:
                calls.append(1)
                if fails:
                    # the generator yields the decodable prefix and then raises: consumers that filled a container keep the prefix
                    it.__dict__["_partial_yield"] = [ins[0]]
                    raise Raised("InvalidInstruction", e, "invalid instruction (model sweep)")
                return list(ins)
            return NotImplemented

        def method(it, recv, name, args, kwargs, e, func):
            if isinstance(recv, _Ins):
                return Sym("ins.%s" % name)
            return NotImplemented

        helpers = {g.qualname for c in dcode.mro() for g in c.methods.values()}

        def run(asg, func_hook=func_hook):
            it = Interp(repo, folder, asg=dict(asg), hooks={"func": func_hook, "method": method, "inline_funcs": helpers})
            o = Obj(dcode, "dcode")
            o.attrs.update(CM=Sym("cm"), size=Sym("size"), insn=Sym("insn"), idx=0, cached_instructions=None, notes={})
            out = []
            for _ in range(2):
                try:
                    r = it.call_function(f, [], recv=o)
                    out.append(("ok", list(r) if isinstance(r, (list, tuple)) else r))
                except Raised as ex:
                    out.append(("raises", ex.exc))
            return out

        res = explore(run)
        ctx.require(len(res) == 1 and not isinstance(res[0][1], Raised), "DCode.get_instructions: the repeated run is outside the interpreter's fragment (%d paths)" % len(res))
        first, second = res[0][1]
        ctx.count("repeat_cases")
        if first[0] == "ok" and not (isinstance(first[1], list) and all(isinstance(x, _Ins) for x in first[1])):
            raise AnalysisError("DCode.get_instructions: the result %s is outside the interpreter's fragment" % show(first[1])[:100])
        want = ("raises", "InvalidInstruction") if fails else ("ok", ins)
        ok1 = first == want or (first[0] == "ok" and not fails and first[1] == ins)
        ctx.check("repeat", "DCode.get_instructions on %s, first disassembly" % label, ok1, f, "first disassembly of %s -> %s" % (label, first[0]),
                  "DCode.get_instructions on %s gives %s, expected %s" % (label, show(first)[:80], show(want)[:80]))
        ok2 = second == first
        ctx.check("repeat", "DCode.get_instructions on %s, second disassembly" % label, ok2, f, "second disassembly of %s -> %s" % (label, second[0]),
                  "a second DCode.get_instructions on %s gives %s although the first gave %s: the outcome of disassembling the same code depends on an earlier call" % (
                      label, show(second)[:80], show(first)[:80]), detail="second run = first run")
    ctx.floor("repeat_cases", 2)


MUTATION_TARGETS = [(DEX, "LinearSweepAlgorithm.get_instructions"), (DEX, "get_instruction_payload"),
                    (DEX, "FillArrayData.__init__"), (DEX, "FillArrayData.get_length"), (DEX, "FillArrayData.get_raw"),
                    (DEX, "SparseSwitch.__init__"), (DEX, "SparseSwitch.get_length"), (DEX, "SparseSwitch.get_raw"),
                    (DEX, "PackedSwitch.__init__"), (DEX, "PackedSwitch.get_length"), (DEX, "PackedSwitch.get_raw"),
                    (DEX, "DCode.off_to_pos"), (DEX, "DCode.get_ins_off")]
