"""Unordered-iteration analysis (used by C22).

Three layers, all purely syntactic/abstract (nothing is executed):

1. `Pkg` -- a flow-insensitive, context-insensitive *type inference* over a
   set of modules (allocation-site abstraction for containers, class-based
   abstraction for instances).  A type is a frozenset of atoms:
   'int' (any number/bool), 'str' (str/bytes), 'none', 'top' (unknown),
   ('obj', Class), ('site', sid) (a list/set/dict/iterator allocation site),
   ('tup', (T0, T1, ...)), ('tupv', T).  Element types of container sites grow
   monotonically through every alias until a fixpoint is reached.
2. effect summaries of functions: which objects (self / a parameter / a free
   variable) receive *ordered* mutations (list.append ...), *keyed* mutations
   (set.add, d[k] = v ...) or attribute rebinding.
3. `classify(...)`: for every expression that may evaluate to a `set`, what the
   context does with it -- order-insensitive or order-sensitive.
"""
from __future__ import annotations

import ast

import networkx as nx

from .cfg import CFG
from .model import AnalysisError

TOP = frozenset(["top"])
INT = frozenset(["int"])
STR = frozenset(["str"])
NONE = frozenset(["none"])
BOT = frozenset()

MAX_DEPTH = 5


def _depth(t, d=0):
    m = d
    for a in t:
        if isinstance(a, tuple):
            if a[0] == "tup":
                for c in a[1]:
                    m = max(m, _depth(c, d + 1))
            elif a[0] == "tupv":
                m = max(m, _depth(a[1], d + 1))
    return m


def join(a, b):
    if not b:
        return a
    if not a:
        return b
    if a == b or b <= a:
        return a
    r = a | b
    tups = [x for x in r if isinstance(x, tuple) and x[0] in ("tup", "tupv")]
    if len(tups) > 1:
        by = {}
        var = None
        rest = [x for x in r if not (isinstance(x, tuple) and x[0] in ("tup", "tupv"))]
        for x in tups:
            if x[0] == "tupv":
                var = x[1] if var is None else join(var, x[1])
            else:
                k = len(x[1])
                if k in by:
                    by[k] = tuple(join(p, q) for p, q in zip(by[k], x[1]))
                else:
                    by[k] = x[1]
        if var is not None or len(by) > 2:
            for comps in by.values():
                for c in comps:
                    var = c if var is None else join(var, c)
            rest.append(("tupv", var if var is not None else BOT))
        else:
            for comps in by.values():
                rest.append(("tup", comps))
        r = frozenset(rest)
    if _depth(r) > MAX_DEPTH:
        return TOP
    return r


def joins(ts):
    r = BOT
    for t in ts:
        r = join(r, t)
    return r


def tup(*comps):
    return frozenset([("tup", tuple(comps))])


class Scope:
    def __init__(self, sid, kind, node, parent, relpath, cls, qualname):
        self.id = sid
        self.kind = kind  # 'module' | 'func' | 'lambda'
        self.node = node
        self.parent = parent
        self.relpath = relpath
        self.cls = cls  # class name for methods
        self.qualname = qualname
        self.bound = set()
        self.params = []
        self.vararg = None
        self.kwarg = None
        self.is_gen = False
        self.is_static = False
        self.is_property = False
        self.declared_free = set()

    def __repr__(self):
        return "<Scope %s:%s>" % (self.relpath, self.qualname)


class ClsInfo:
    def __init__(self, name, relpath, node):
        self.name = name
        self.relpath = relpath
        self.node = node
        self.bases = []
        self.methods = {}
        self.attrs = {}
        self.custom_hash = False


PURE_BUILTINS = {
    "len", "isinstance", "issubclass", "hasattr", "getattr", "min", "max", "any", "all", "sum", "abs", "int", "str",
    "repr", "bool", "float", "range", "enumerate", "zip", "sorted", "reversed", "list", "tuple", "set", "frozenset",
    "dict", "defaultdict", "iter", "next", "ord", "chr", "hex", "type", "id", "hash", "map", "filter", "format",
    "bytes", "bytearray", "round", "divmod", "callable", "super", "object", "OrderedDict", "deque", "print",
    "NotImplementedError", "RuntimeWarning", "ValueError", "TypeError", "KeyError", "IndexError", "Exception",
    "RuntimeError", "StopIteration", "AssertionError",
}

LIST_ORDERED = {"append", "extend", "insert", "appendleft", "extendleft"}
KEYED_MUT = {"add", "discard", "update", "setdefault", "remove", "clear", "difference_update", "intersection_update",
             "symmetric_difference_update", "popitem", "sort", "reverse"}
SET_ALGEBRA = {"union", "intersection", "difference", "symmetric_difference", "copy"}
SET_PRED = {"issubset", "issuperset", "isdisjoint"}
STR_TO_STR = {"join", "format", "strip", "lstrip", "rstrip", "lower", "upper", "replace", "title", "capitalize",
              "zfill", "ljust", "rjust", "center", "decode", "encode", "format_map", "expandtabs", "swapcase",
              "casefold", "translate", "removeprefix", "removesuffix"}
STR_TO_INT = {"startswith", "endswith", "find", "rfind", "index", "rindex", "count", "isdigit", "isalpha",
              "isalnum", "isspace", "isupper", "islower", "isidentifier", "isnumeric", "isdecimal"}
STR_TO_LIST = {"split", "rsplit", "splitlines", "partition", "rpartition"}


class Table(dict):
    """dict that records which scope read which key (dependency tracking for the worklist)."""

    def __init__(self, pkg, name):
        super().__init__()
        self.pkg = pkg
        self.name = name

    def get(self, key, default=None):
        cur = self.pkg._cur
        if cur is not None:
            self.pkg._deps.setdefault((self.name, key), set()).add(cur)
        return dict.get(self, key, default)


class Pkg:
    """type inference over `trees` (relpath -> ast.Module)."""

    def __init__(self, trees, dotted_of=None):
        self.trees = trees
        self.dotted = dotted_of or {rp: (rp[:-len("/__init__.py")] if rp.endswith("/__init__.py") else rp[:-3]).replace("/", ".") for rp in trees}
        self.by_dotted = {v: k for k, v in self.dotted.items()}
        self.scopes = {}
        self.scope_of_node = {}  # id(FunctionDef/Lambda/Module) -> Scope
        self.classes = {}
        self.modfuncs = {}  # (relpath, name) -> Scope
        self.imports = {}  # relpath -> {name: (dotted module, attr|None)}
        self.methods_by_name = {}
        self._cur = None
        self._deps = {}
        self._dirty = set()
        self._stmt = None
        self.trace = None  # set to {} to record where 'top' first entered a table entry
        self.env = Table(self, "env")
        self.ret = Table(self, "ret")
        self.yields = Table(self, "yields")
        self.attr = Table(self, "attr")
        self.attr_wild = Table(self, "wild")
        self.site_kind = {}
        self.elem = Table(self, "elem")
        self.val = Table(self, "val")
        self.site_node = {}
        self.site_scope = {}
        self.changed = False
        self.passes = 0
        self._nscope = 0
        for rp, tree in trees.items():
            self._index_module(rp, tree)
        for c in self.classes.values():
            for m in c.methods:
                self.methods_by_name.setdefault(m, []).append(c.methods[m])
        self._sub = {}
        for c in self.classes.values():
            for b in c.bases:
                self._sub.setdefault(b, set()).add(c.name)
        self._mro_cache = {}
        self._rel_cache = {}
        self._root_cache = {}

    # ------------------------------------------------------------------ index
    def _new_scope(self, kind, node, parent, relpath, cls, qualname):
        self._nscope += 1
        s = Scope(self._nscope, kind, node, parent, relpath, cls, qualname)
        self.scopes[s.id] = s
        self.scope_of_node[id(node)] = s
        return s

    def _index_module(self, rp, tree):
        for par in ast.walk(tree):
            for ch in ast.iter_child_nodes(par):
                ch._parent = par
        tree._parent = None
        ms = self._new_scope("module", tree, None, rp, None, "<module>")
        self.imports[rp] = {}
        self._module_scope = getattr(self, "_module_scope", {})
        self._module_scope[rp] = ms
        self._index_body(tree.body, ms, rp, None, "")
        self._collect_bound(ms)

    def _index_body(self, body, sc, rp, cls, prefix):
        for n in body:
            self._index_stmt(n, sc, rp, cls, prefix)

    def _index_stmt(self, n, sc, rp, cls, prefix):
        if isinstance(n, (ast.FunctionDef, ast.AsyncFunctionDef)):
            self._index_func(n, sc, rp, cls, prefix)
        elif isinstance(n, ast.ClassDef):
            if sc.kind == "module":
                ci = self.classes.get(n.name)
                if ci is None:
                    ci = ClsInfo(n.name, rp, n)
                    self.classes[n.name] = ci
                for b in n.bases:
                    if isinstance(b, ast.Name):
                        ci.bases.append(b.id)
                    elif isinstance(b, ast.Attribute):
                        ci.bases.append(b.attr)
                for m in n.body:
                    if isinstance(m, (ast.FunctionDef, ast.AsyncFunctionDef)):
                        fs = self._index_func(m, sc, rp, n.name, n.name + ".")
                        ci.methods[m.name] = fs
                        if m.name in ("__hash__", "__eq__"):
                            ci.custom_hash = True
                    elif isinstance(m, ast.Assign):
                        for t in m.targets:
                            if isinstance(t, ast.Name):
                                ci.attrs[t.id] = m.value
                                if t.id in ("__hash__", "__eq__"):
                                    ci.custom_hash = True
                    elif isinstance(m, ast.AnnAssign) and isinstance(m.target, ast.Name) and m.value is not None:
                        ci.attrs[m.target.id] = m.value
                for k in n.keywords:
                    if k.arg == "metaclass":
                        ci.metaclass = True
            # nested classes inside functions: not modelled (instances are 'top')
        elif isinstance(n, ast.Import):
            for a in n.names:
                if a.asname:
                    self.imports[rp][a.asname] = (a.name, None)
                else:
                    self.imports[rp][a.name.split(".")[0]] = (a.name.split(".")[0], None)
        elif isinstance(n, ast.ImportFrom):
            base = n.module or ""
            if n.level:
                pk = self.dotted[rp].split(".")
                pk = pk[: len(pk) - n.level]
                base = ".".join(pk + ([n.module] if n.module else []))
            for a in n.names:
                self.imports[rp][a.asname or a.name] = (base, a.name)
        elif isinstance(n, (ast.If, ast.Try, ast.With, ast.For, ast.While)):
            for sub in ast.iter_child_nodes(n):
                if isinstance(sub, ast.stmt):
                    self._index_stmt(sub, sc, rp, cls, prefix)
                elif isinstance(sub, ast.ExceptHandler):
                    for s2 in sub.body:
                        self._index_stmt(s2, sc, rp, cls, prefix)
        # lambdas anywhere in this statement (not inside nested defs -- those are indexed with their def)
        if not isinstance(n, (ast.FunctionDef, ast.AsyncFunctionDef, ast.ClassDef)):
            self._index_lambdas(n, sc, rp, cls, prefix)

    def _index_lambdas(self, n, sc, rp, cls, prefix):
        stack = [n]
        while stack:
            x = stack.pop()
            for ch in ast.iter_child_nodes(x):
                if isinstance(ch, (ast.FunctionDef, ast.AsyncFunctionDef, ast.ClassDef)):
                    continue
                if isinstance(ch, ast.stmt) and ch is not n:
                    # nested statements are indexed by _index_stmt for compound statements of interest,
                    # but statements inside other compound bodies (e.g. while inside for) need lambdas too
                    pass
                if isinstance(ch, ast.Lambda):
                    ls = self._new_scope("lambda", ch, sc, rp, cls, prefix + "<lambda>")
                    self._set_params(ls, ch.args)
                    self._index_lambdas(ch.body, ls, rp, cls, prefix)
                    if isinstance(ch.body, ast.Lambda):
                        pass
                    continue
                stack.append(ch)

    def _set_params(self, fs, a):
        fs.params = [x.arg for x in a.posonlyargs + a.args]
        fs.kwonly = [x.arg for x in a.kwonlyargs]
        fs.vararg = a.vararg.arg if a.vararg else None
        fs.kwarg = a.kwarg.arg if a.kwarg else None
        fs.bound.update(fs.params)
        fs.bound.update(fs.kwonly)
        if fs.vararg:
            fs.bound.add(fs.vararg)
        if fs.kwarg:
            fs.bound.add(fs.kwarg)

    def _index_func(self, n, sc, rp, cls, prefix):
        qn = prefix + n.name
        fs = self._new_scope("func", n, sc, rp, cls if sc.kind == "module" else sc.cls, qn)
        fs.defcls = cls if sc.kind == "module" else None  # class whose body directly contains the def
        self._set_params(fs, n.args)
        for d in n.decorator_list:
            ds = ast.unparse(d)
            if ds == "staticmethod":
                fs.is_static = True
            elif ds == "classmethod":
                fs.is_classmethod = True
            elif ds == "property":
                fs.is_property = True
            elif ds.endswith(".setter"):
                fs.is_setter = True
        if sc.kind == "module" and cls is None:
            self.modfuncs[(rp, n.name)] = fs
        fs.nested = {}
        # body: nested defs, lambdas
        stack = list(n.body)
        while stack:
            x = stack.pop()
            if isinstance(x, (ast.FunctionDef, ast.AsyncFunctionDef)):
                sub = self._index_func(x, fs, rp, None, qn + ".")
                fs.nested[x.name] = sub
                continue
            if isinstance(x, ast.ClassDef):
                continue
            if isinstance(x, ast.Lambda):
                ls = self._new_scope("lambda", x, fs, rp, fs.cls, qn + ".<lambda>")
                self._set_params(ls, x.args)
                self._index_lambdas(x.body, ls, rp, fs.cls, qn + ".")
                continue
            if isinstance(x, (ast.Yield, ast.YieldFrom)):
                fs.is_gen = True
            stack.extend(ast.iter_child_nodes(x))
        self._collect_bound(fs)
        return fs

    def _collect_bound(self, sc):
        body = sc.node.body if not isinstance(sc.node, ast.Lambda) else []
        stack = list(body)
        while stack:
            x = stack.pop()
            if isinstance(x, (ast.FunctionDef, ast.AsyncFunctionDef, ast.ClassDef)):
                sc.bound.add(x.name)
                continue
            if isinstance(x, ast.Lambda):
                continue
            if isinstance(x, ast.Name) and isinstance(x.ctx, (ast.Store, ast.Del)):
                sc.bound.add(x.id)
            elif isinstance(x, (ast.Global, ast.Nonlocal)):
                sc.declared_free.update(x.names)
            elif isinstance(x, (ast.Import, ast.ImportFrom)):
                for a in x.names:
                    sc.bound.add(a.asname or a.name.split(".")[0])
            elif isinstance(x, ast.ExceptHandler) and x.name:
                sc.bound.add(x.name)
            stack.extend(ast.iter_child_nodes(x))
        sc.bound -= sc.declared_free

    # ------------------------------------------------------------ class tools
    def mro(self, name):
        r = self._mro_cache.get(name)
        if r is None:
            r, seen = [], set()

            def walk(c):
                if c in seen:
                    return
                seen.add(c)
                r.append(c)
                ci = self.classes.get(c)
                if ci:
                    for b in ci.bases:
                        walk(b)

            walk(name)
            self._mro_cache[name] = r
        return r

    def descendants(self, name):
        out, stack = set(), [name]
        while stack:
            c = stack.pop()
            for d in self._sub.get(c, ()):
                if d not in out:
                    out.add(d)
                    stack.append(d)
        return out

    def related(self, name):
        r = self._rel_cache.get(name)
        if r is None:
            r = list(self.mro(name))
            for d in sorted(self.descendants(name)):
                for k in self.mro(d):
                    if k not in r:
                        r.append(k)
            self._rel_cache[name] = r
        return r

    def lookup_method(self, cname, m, after=None):
        """definers of method m visible from an instance whose static class is cname
        (own MRO first definer + overrides in descendants)."""
        out = []
        mro = self.mro(cname)
        if after is not None:
            mro = mro[mro.index(after) + 1:] if after in mro else []
        for k in mro:
            ci = self.classes.get(k)
            if ci and m in ci.methods:
                out.append(ci.methods[m])
                break
        if after is None:
            for d in sorted(self.descendants(cname)):
                ci = self.classes.get(d)
                if ci and m in ci.methods and ci.methods[m] not in out:
                    out.append(ci.methods[m])
        return out

    # ------------------------------------------------------------------ tables
    def root_class(self, cname):
        r = self._root_cache.get(cname)
        if r is None:
            r = cname
            for k in self.mro(cname):
                if k in self.classes:
                    r = k
            # single-inheritance chains only: otherwise keep the class itself
            ci = self.classes.get(cname)
            if ci is None or any(len(self.classes[k].bases) > 1 for k in self.mro(cname) if k in self.classes):
                r = cname
            self._root_cache[cname] = r
        return r

    def widen(self, t):
        """more than 6 instance atoms: replace each class by the root of its (package) hierarchy --
        sound because attribute/method lookup on ('obj', C) already covers every descendant of C."""
        objs = [a for a in t if isinstance(a, tuple) and a[0] == "obj"]
        if len(objs) <= 1:
            return t
        if len(objs) > 6:
            return frozenset(a for a in t if a not in objs) | frozenset(("obj", self.root_class(a[1])) for a in objs)
        # absorption: a class whose hierarchy root is already present adds nothing
        drop = [a for a in objs if self.root_class(a[1]) != a[1] and ("obj", self.root_class(a[1])) in t]
        return t - frozenset(drop) if drop else t

    def upd(self, table, key, t):
        if not t:
            return
        old = dict.get(table, key, BOT)
        new = self.widen(join(old, t))
        if new != old:
            table[key] = new
            self.changed = True
            d = self._deps.get((table.name, key))
            if d:
                self._dirty |= d
            if table.name == "attr":
                d = self._deps.get(("attrname", key[1]))
                if d:
                    self._dirty |= d
            if self.trace is not None and "top" in new and "top" not in old:
                self.trace[(table.name, key)] = (self.scopes[self._cur].qualname if self._cur else None,
                                                 getattr(self._stmt, "lineno", None))

    def new_site(self, node, kind, sc, tag=""):
        sid = (sc.relpath, getattr(node, "lineno", 0), getattr(node, "col_offset", 0), kind + tag)
        if sid not in self.site_kind:
            self.site_kind[sid] = kind
            self.site_node[sid] = node
            self.site_scope[sid] = sc
            self.changed = True
        return sid

    def site_ty(self, sid):
        return frozenset([("site", sid)])

    def sites(self, t, kind=None):
        return [a[1] for a in t if isinstance(a, tuple) and a[0] == "site" and (kind is None or self.site_kind[a[1]] == kind)]

    def elem_of(self, t):
        """type of the elements produced by iterating a value of type t"""
        r = BOT
        for a in t:
            if a == "top":
                r = join(r, TOP)
            elif a == "str":
                r = join(r, STR)
            elif isinstance(a, tuple):
                if a[0] == "site":
                    r = join(r, self.elem.get(a[1], BOT))
                elif a[0] == "tup":
                    r = joins([r] + list(a[1]))
                elif a[0] == "tupv":
                    r = join(r, a[1])
                elif a[0] == "obj":
                    for f in self.lookup_method(a[1], "__iter__"):
                        r = join(r, self.elem_of(self.ret_of(f)))
                    if a[1] not in self.classes:
                        r = join(r, TOP)
        return r

    def ret_of(self, fs):
        if fs.is_gen:
            sid = self.new_site(fs.node, "iter", fs, "gen")
            self.upd(self.elem, sid, self.yields.get(fs.id, BOT))
            return self.site_ty(sid)
        return self.ret.get(fs.id, BOT)

    # ------------------------------------------------------------- name lookup
    def lookup(self, name, sc):
        s = sc
        while s is not None:
            if name in s.bound:
                if s.kind != "module":
                    nested = getattr(s, "nested", {})
                    if name in nested and not self.env.get((s.id, name)):
                        return frozenset([("func", nested[name].id)])
                    return self.env.get((s.id, name), BOT)
                break
            s = s.parent
        # module level
        ms = self._module_scope[sc.relpath]
        r = self.resolve_global(name, ms.relpath)
        if r is not None:
            return r
        if name in ms.bound:
            return self.env.get((ms.id, name), BOT)
        if name in ("True", "False"):
            return INT
        return TOP

    def resolve_global(self, name, rp, _seen=None):
        """package function / class / module referenced by a global name -> marker type, else None"""
        if (rp, name) in self.modfuncs:
            return frozenset([("func", self.modfuncs[(rp, name)].id)])
        if name in self.classes and self.classes[name].relpath == rp:
            return frozenset([("cls", name)])
        imp = self.imports.get(rp, {}).get(name)
        if imp is not None:
            mod, attr = imp
            if attr is None:
                if mod in self.by_dotted:
                    return frozenset([("mod", self.by_dotted[mod])])
                return TOP
            if mod + "." + attr in self.by_dotted:
                return frozenset([("mod", self.by_dotted[mod + "." + attr])])
            if mod in self.by_dotted:
                _seen = _seen or set()
                if (mod, attr) in _seen:
                    return TOP
                _seen.add((mod, attr))
                rp2 = self.by_dotted[mod]
                r = self.resolve_global(attr, rp2, _seen)
                if r is not None:
                    return r
                ms = self._module_scope[rp2]
                if attr in ms.bound:
                    return self.env.get((ms.id, attr), BOT)
                return TOP
            return TOP
        return None

    # ------------------------------------------------------------------ attrs
    def attr_of_class(self, cname, a):
        if cname not in self.classes:
            return TOP
        r = BOT
        known = False
        for k in self.related(cname):
            t = self.attr.get((k, a))
            if t is not None:
                r = join(r, t)
                known = True
            ci = self.classes.get(k)
            if ci is None:
                r = join(r, TOP)  # external base class
                continue
            if a in ci.attrs:
                known = True
                r = join(r, self.ev(ci.attrs[a], self._module_scope[ci.relpath]))
            m = ci.methods.get(a)
            if m is not None:
                known = True
                if m.is_property:
                    r = join(r, self.ret_of(m))
                elif not getattr(m, "is_setter", False):
                    r = join(r, frozenset([("func", m.id)]))
            if getattr(ci, "metaclass", False):
                r = join(r, TOP)
        r = join(r, self.attr_wild.get(a, BOT))
        if not known and not r:
            return TOP
        return r

    def attr_by_name(self, a):
        r = TOP
        if self._cur is not None:
            self._deps.setdefault(("attrname", a), set()).add(self._cur)
        for (k, an), t in self.attr.items():
            if an == a:
                r = join(r, t)
        for ci in self.classes.values():
            if a in ci.attrs:
                r = join(r, self.ev(ci.attrs[a], self._module_scope[ci.relpath]))
            m = ci.methods.get(a)
            if m is not None and m.is_property:
                r = join(r, self.ret_of(m))
        return join(r, self.attr_wild.get(a, BOT))

    def load_attr(self, t, a):
        r = BOT
        unknown = not t
        for x in t:
            if x == "top":
                unknown = True
            elif isinstance(x, tuple) and x[0] == "obj":
                r = join(r, self.attr_of_class(x[1], a))
            elif isinstance(x, tuple) and x[0] == "mod":
                g = self.resolve_global(a, x[1])
                if g is None:
                    ms = self._module_scope[x[1]]
                    g = self.env.get((ms.id, a), BOT) if a in ms.bound else TOP
                r = join(r, g)
            elif x == "none":
                pass
            elif x in ("int", "str"):
                r = join(r, TOP)
            elif isinstance(x, tuple) and x[0] in ("site", "tup", "tupv", "func", "cls"):
                r = join(r, TOP)
        if unknown:
            r = join(r, self.attr_by_name(a))
        return r

    def store_attr(self, t, a, v):
        unknown = not t
        for x in t:
            if x == "top":
                unknown = True
            elif isinstance(x, tuple) and x[0] == "obj":
                if x[1] in self.classes:
                    self.upd(self.attr, (x[1], a), v)
        if unknown:
            self.upd(self.attr_wild, a, v)

    # ------------------------------------------------------------------- calls
    def bind_call(self, fs, pos, kws, self_t=None, star=False):
        params = list(fs.params)
        if self_t is not None and params:
            self.upd(self.env, (fs.id, params[0]), self_t)
            params = params[1:]
        for p, t in zip(params, pos):
            self.upd(self.env, (fs.id, p), t if t else BOT)
        if len(pos) > len(params) and fs.vararg:
            self.upd(self.env, (fs.id, fs.vararg), TOP)
        for k, t in kws.items():
            if k is None:
                continue
            if k in fs.params or k in getattr(fs, "kwonly", ()):
                self.upd(self.env, (fs.id, k), t)
        if star:
            for p in params[len(pos):]:
                self.upd(self.env, (fs.id, p), TOP)

    def call_scope(self, fs, pos, kws, self_t=None, star=False):
        self.bind_call(fs, pos, kws, self_t, star)
        return self.ret_of(fs)

    def instantiate(self, cname, pos, kws, star=False):
        me = frozenset([("obj", cname)])
        for f in self.lookup_method(cname, "__init__")[:1]:
            self.bind_call(f, pos, kws, me, star)
        return me

    def callees(self, n, sc):
        """package scopes a call may invoke: list of (Scope, receiver expr|None, bind_self: bool)"""
        f = n.func
        out = []
        if isinstance(f, ast.Name):
            t = self.lookup(f.id, sc)
            for a in t:
                if isinstance(a, tuple) and a[0] == "func":
                    out.append((self.scopes[a[1]], None, False))
                elif isinstance(a, tuple) and a[0] == "cls":
                    for i in self.lookup_method(a[1], "__init__")[:1]:
                        out.append((i, None, "ctor"))
        elif isinstance(f, ast.Attribute):
            if isinstance(f.value, ast.Call) and isinstance(f.value.func, ast.Name) and f.value.func.id == "super":
                cur = self._method_scope(sc)
                if cur is not None and cur.cls:
                    for m in self.lookup_method(cur.cls, f.attr, after=cur.cls):
                        out.append((m, "super", True))
                return out
            rt = self.ev(f.value, sc)
            unknown = not rt
            for a in rt:
                if a == "top":
                    unknown = True
                elif isinstance(a, tuple) and a[0] == "obj":
                    ms = self.lookup_method(a[1], f.attr)
                    for m in ms:
                        if (m, f.value, True) not in out:
                            out.append((m, f.value, not m.is_static))
                    if a[1] not in self.classes:
                        unknown = True
                elif isinstance(a, tuple) and a[0] == "mod":
                    g = self.resolve_global(f.attr, a[1])
                    for b in g or ():
                        if isinstance(b, tuple) and b[0] == "func":
                            out.append((self.scopes[b[1]], None, False))
                        elif isinstance(b, tuple) and b[0] == "cls":
                            for i in self.lookup_method(b[1], "__init__")[:1]:
                                out.append((i, None, "ctor"))
                elif isinstance(a, tuple) and a[0] == "cls":
                    ms = self.lookup_method(a[1], f.attr)
                    for m in ms[:1]:
                        out.append((m, None, False))
            if unknown and not self.sites(rt):
                for m in self.methods_by_name.get(f.attr, ()):
                    if not any(o[0] is m for o in out):
                        out.append((m, f.value, not m.is_static))
        return out

    def _method_scope(self, sc):
        s = sc
        while s is not None and s.kind != "module":
            if s.kind == "func" and getattr(s, "defcls", None):
                return s
            s = s.parent
        return None

    def self_type(self, sc):
        m = self._method_scope(sc)
        if m is None or not m.params:
            return BOT
        return self.env.get((m.id, m.params[0]), BOT)

    def ev_call(self, n, sc):
        f = n.func
        pos, star = [], False
        for a in n.args:
            if isinstance(a, ast.Starred):
                star = True
                self.ev(a.value, sc)
            else:
                pos.append(self.ev(a, sc))
        kws = {}
        for k in n.keywords:
            kws[k.arg] = self.ev(k.value, sc)
            if k.arg is None:
                star = True
        if isinstance(f, ast.Name):
            t = self.lookup(f.id, sc)
            marker = [a for a in t if isinstance(a, tuple) and a[0] in ("func", "cls")]
            if marker:
                r = BOT
                for a in marker:
                    if a[0] == "func":
                        r = join(r, self.call_scope(self.scopes[a[1]], pos, kws, None, star))
                    else:
                        r = join(r, self.instantiate(a[1], pos, kws, star))
                if "top" in t:
                    r = join(r, TOP)
                return r
            if t == TOP or not t:
                return self.builtin_call(f.id, n, pos, kws, sc)
            return TOP
        if isinstance(f, ast.Attribute):
            if isinstance(f.value, ast.Call) and isinstance(f.value.func, ast.Name) and f.value.func.id == "super":
                cur = self._method_scope(sc)
                r = BOT
                if cur is not None and cur.cls:
                    ms = self.lookup_method(cur.cls, f.attr, after=cur.cls)
                    for m in ms:
                        r = join(r, self.call_scope(m, pos, kws, self.self_type(sc), star))
                    if not ms:
                        r = TOP
                else:
                    r = TOP
                return r
            rt = self.ev(f.value, sc)
            return self.method_call(rt, f.attr, n, pos, kws, sc, star)
        self.ev(f, sc)
        return TOP

    def method_call(self, rt, m, n, pos, kws, sc, star=False):
        r = BOT
        unknown = not rt
        a0 = pos[0] if pos else BOT
        for a in rt:
            if a == "top":
                unknown = True
            elif a == "str":
                if m in STR_TO_STR:
                    r = join(r, STR)
                elif m in STR_TO_INT:
                    r = join(r, INT)
                elif m in STR_TO_LIST:
                    sid = self.new_site(n, "list", sc, "split")
                    self.upd(self.elem, sid, STR)
                    r = join(r, self.site_ty(sid))
                else:
                    r = join(r, TOP)
            elif a in ("int", "none"):
                if a == "int":
                    r = join(r, INT)
            elif isinstance(a, tuple) and a[0] == "site":
                r = join(r, self.container_call(a[1], m, n, pos, kws, sc))
            elif isinstance(a, tuple) and a[0] == "obj":
                ms = self.lookup_method(a[1], m)
                for f in ms:
                    r = join(r, self.call_scope(f, pos, kws, None if f.is_static else frozenset([a]), star))
                if not ms:
                    # callable attribute / external class
                    at = self.attr_of_class(a[1], m) if a[1] in self.classes else TOP
                    r = join(r, TOP)
                    if a[1] not in self.classes:
                        unknown = True
            elif isinstance(a, tuple) and a[0] == "mod":
                g = self.resolve_global(m, a[1])
                got = False
                for b in g or ():
                    if isinstance(b, tuple) and b[0] == "func":
                        r = join(r, self.call_scope(self.scopes[b[1]], pos, kws, None, star))
                        got = True
                    elif isinstance(b, tuple) and b[0] == "cls":
                        r = join(r, self.instantiate(b[1], pos, kws, star))
                        got = True
                if not got:
                    r = join(r, TOP)
            elif isinstance(a, tuple) and a[0] == "cls":
                ms = self.lookup_method(a[1], m)
                for f in ms[:1]:
                    if f.is_static or getattr(f, "is_classmethod", False):
                        r = join(r, self.call_scope(f, pos, kws, frozenset([a]) if getattr(f, "is_classmethod", False) else None, star))
                    else:
                        r = join(r, self.call_scope(f, pos[1:], kws, pos[0] if pos else BOT, star))
                if not ms:
                    r = join(r, TOP)
            elif isinstance(a, tuple) and a[0] in ("tup", "tupv"):
                r = join(r, INT if m in ("index", "count") else TOP)
            else:
                r = join(r, TOP)
        if unknown:
            r = join(r, TOP)
            if not self.sites(rt):
                for f in self.methods_by_name.get(m, ()):
                    r = join(r, self.call_scope(f, pos, kws, None, star))
        return r

    def container_call(self, sid, m, n, pos, kws, sc):
        k = self.site_kind[sid]
        a0 = pos[0] if pos else BOT
        a1 = pos[1] if len(pos) > 1 else BOT
        me = self.site_ty(sid)
        if k == "list":
            if m == "append":
                self.upd(self.elem, sid, a0)
                return NONE
            if m == "extend":
                self.upd(self.elem, sid, self.elem_of(a0))
                return NONE
            if m == "insert":
                self.upd(self.elem, sid, a1)
                return NONE
            if m == "pop":
                return self.elem.get(sid, BOT)
            if m == "copy":
                return me
            if m in ("index", "count"):
                return INT
            if m in ("remove", "sort", "reverse", "clear"):
                return NONE
            return TOP
        if k == "set":
            if m == "add":
                self.upd(self.elem, sid, a0)
                return NONE
            if m in ("update", "symmetric_difference_update"):
                for p in pos:
                    self.upd(self.elem, sid, self.elem_of(p))
                return NONE
            if m in ("discard", "remove", "clear", "difference_update", "intersection_update"):
                return NONE
            if m == "pop":
                return self.elem.get(sid, BOT)
            if m in SET_ALGEBRA:
                ns = self.new_site(n, "set", sc, m)
                self.upd(self.elem, ns, self.elem.get(sid, BOT))
                if m in ("union", "symmetric_difference"):
                    for p in pos:
                        self.upd(self.elem, ns, self.elem_of(p))
                return self.site_ty(ns)
            if m in SET_PRED:
                return INT
            return TOP
        if k == "dict":
            if m == "get":
                self.upd(self.elem, sid, a0)
                r = self.val.get(sid, BOT)
                return join(r, a1 if len(pos) > 1 else NONE)
            if m == "setdefault":
                self.upd(self.elem, sid, a0)
                self.upd(self.val, sid, a1 if len(pos) > 1 else NONE)
                return self.val.get(sid, BOT)
            if m == "pop":
                r = self.val.get(sid, BOT)
                return join(r, a1) if len(pos) > 1 else r
            if m == "popitem":
                return tup(self.elem.get(sid, BOT), self.val.get(sid, BOT))
            if m in ("items", "keys", "values"):
                ns = self.new_site(n, "iter", sc, m)
                if m == "items":
                    self.upd(self.elem, ns, tup(self.elem.get(sid, BOT), self.val.get(sid, BOT)))
                elif m == "keys":
                    self.upd(self.elem, ns, self.elem.get(sid, BOT))
                else:
                    self.upd(self.elem, ns, self.val.get(sid, BOT))
                return self.site_ty(ns)
            if m == "copy":
                return me
            if m == "update":
                for p in pos:
                    for s2 in self.sites(p, "dict"):
                        self.upd(self.elem, sid, self.elem.get(s2, BOT))
                        self.upd(self.val, sid, self.val.get(s2, BOT))
                return NONE
            if m == "clear":
                return NONE
            return TOP
        return TOP

    def default_factory(self, f, sc, n):
        """type produced by a defaultdict factory expression"""
        if isinstance(f, ast.Name):
            if f.id in ("set", "frozenset"):
                return self.site_ty(self.new_site(n, "set", sc, "dflt"))
            if f.id == "list":
                return self.site_ty(self.new_site(n, "list", sc, "dflt"))
            if f.id == "dict":
                return self.site_ty(self.new_site(n, "dict", sc, "dflt"))
            if f.id in ("int", "float", "bool"):
                return INT
            if f.id == "str":
                return STR
            t = self.lookup(f.id, sc)
            r = BOT
            for a in t:
                if isinstance(a, tuple) and a[0] == "func":
                    r = join(r, self.ret_of(self.scopes[a[1]]))
                elif isinstance(a, tuple) and a[0] == "cls":
                    r = join(r, frozenset([("obj", a[1])]))
            return r or TOP
        if isinstance(f, ast.Lambda):
            ls = self.scope_of_node.get(id(f))
            if ls is not None:
                return self.ev(f.body, ls)
        return TOP

    def builtin_call(self, name, n, pos, kws, sc):
        a0 = pos[0] if pos else BOT
        if name in ("set", "frozenset"):
            sid = self.new_site(n, "set", sc)
            self.upd(self.elem, sid, self.elem_of(a0))
            return self.site_ty(sid)
        if name in ("list", "sorted", "reversed", "deque"):
            sid = self.new_site(n, "list", sc)
            self.upd(self.elem, sid, self.elem_of(a0))
            return self.site_ty(sid)
        if name == "tuple":
            return frozenset([("tupv", self.elem_of(a0))])
        if name in ("dict", "OrderedDict"):
            sid = self.new_site(n, "dict", sc)
            for s2 in self.sites(a0, "dict"):
                self.upd(self.elem, sid, self.elem.get(s2, BOT))
                self.upd(self.val, sid, self.val.get(s2, BOT))
            for k, v in kws.items():
                if k is not None:
                    self.upd(self.elem, sid, STR)
                    self.upd(self.val, sid, v)
            return self.site_ty(sid)
        if name == "defaultdict":
            sid = self.new_site(n, "dict", sc)
            if n.args and not isinstance(n.args[0], ast.Starred):
                self.upd(self.val, sid, self.default_factory(n.args[0], sc, n.args[0]))
            return self.site_ty(sid)
        if name == "enumerate":
            sid = self.new_site(n, "iter", sc)
            self.upd(self.elem, sid, tup(INT, self.elem_of(a0)))
            return self.site_ty(sid)
        if name == "zip":
            sid = self.new_site(n, "iter", sc)
            self.upd(self.elem, sid, tup(*[self.elem_of(p) for p in pos]) if pos else BOT)
            return self.site_ty(sid)
        if name == "range":
            sid = self.new_site(n, "iter", sc)
            self.upd(self.elem, sid, INT)
            return self.site_ty(sid)
        if name in ("iter", "filter"):
            sid = self.new_site(n, "iter", sc)
            self.upd(self.elem, sid, self.elem_of(pos[-1] if pos else BOT))
            return self.site_ty(sid)
        if name == "map":
            sid = self.new_site(n, "iter", sc)
            self.upd(self.elem, sid, TOP)
            return self.site_ty(sid)
        if name in ("len", "int", "abs", "sum", "ord", "id", "hash", "bool", "float", "isinstance", "issubclass",
                    "hasattr", "any", "all", "round", "callable"):
            return INT
        if name in ("str", "repr", "chr", "hex", "format", "bytes", "bytearray", "oct", "bin"):
            return STR
        if name in ("min", "max"):
            r = self.elem_of(a0) if len(pos) == 1 else joins(pos)
            if "default" in kws:
                r = join(r, kws["default"])
            return r
        if name == "next":
            r = self.elem_of(a0)
            if len(pos) > 1:
                r = join(r, pos[1])
            return r
        if name == "print":
            return NONE
        return TOP

    # -------------------------------------------------------------- expressions
    def ev(self, n, sc):
        m = getattr(self, "ev_" + n.__class__.__name__, None)
        if m is None:
            for ch in ast.iter_child_nodes(n):
                if isinstance(ch, ast.expr):
                    self.ev(ch, sc)
            return TOP
        return m(n, sc)

    def ev_Constant(self, n, sc):
        v = n.value
        if v is None:
            return NONE
        if isinstance(v, (bool, int, float, complex)):
            return INT
        if isinstance(v, (str, bytes)):
            return STR
        return TOP

    def ev_Name(self, n, sc):
        return self.lookup(n.id, sc)

    def ev_Attribute(self, n, sc):
        return self.load_attr(self.ev(n.value, sc), n.attr)

    def ev_Call(self, n, sc):
        return self.ev_call(n, sc)

    def ev_Subscript(self, n, sc):
        t = self.ev(n.value, sc)
        is_slice = isinstance(n.slice, ast.Slice)
        kt = BOT
        if is_slice:
            for p in (n.slice.lower, n.slice.upper, n.slice.step):
                if p is not None:
                    self.ev(p, sc)
        else:
            kt = self.ev(n.slice, sc)
        r = BOT
        for a in t:
            if a == "top":
                r = join(r, TOP)
            elif a == "str":
                r = join(r, STR)
            elif isinstance(a, tuple) and a[0] == "site":
                k = self.site_kind[a[1]]
                if k == "dict":
                    self.upd(self.elem, a[1], kt)
                    r = join(r, self.val.get(a[1], BOT))
                elif is_slice:
                    r = join(r, frozenset([a]))
                else:
                    r = join(r, self.elem.get(a[1], BOT))
            elif isinstance(a, tuple) and a[0] == "tup":
                if is_slice:
                    r = join(r, frozenset([("tupv", joins(a[1]))]))
                elif isinstance(n.slice, ast.Constant) and isinstance(n.slice.value, int) and -len(a[1]) <= n.slice.value < len(a[1]):
                    r = join(r, a[1][n.slice.value])
                else:
                    r = join(r, joins(a[1]))
            elif isinstance(a, tuple) and a[0] == "tupv":
                r = join(r, frozenset([a]) if is_slice else a[1])
            elif isinstance(a, tuple) and a[0] == "obj":
                ms = self.lookup_method(a[1], "__getitem__")
                for f in ms:
                    r = join(r, self.call_scope(f, [kt], {}, frozenset([a])))
                if not ms:
                    r = join(r, TOP)
            elif a == "none":
                pass
            else:
                r = join(r, TOP)
        return r

    def ev_BinOp(self, n, sc):
        l = self.ev(n.left, sc)
        r = self.ev(n.right, sc)
        return self.binop(l, n.op, r, n, sc)

    def binop(self, l, op, r, n, sc):
        out = BOT
        if isinstance(op, ast.Mod) and "str" in l:
            out = join(out, STR)
            if l == STR:
                return out
        lsets, rsets = self.sites(l, "set"), self.sites(r, "set")
        if isinstance(op, (ast.BitOr, ast.BitAnd, ast.Sub, ast.BitXor)) and (lsets or rsets):
            ns = self.new_site(n, "set", sc, "op")
            for s in lsets:
                self.upd(self.elem, ns, self.elem.get(s, BOT))
            if isinstance(op, (ast.BitOr, ast.BitXor)) or not lsets:
                for s in rsets:
                    self.upd(self.elem, ns, self.elem.get(s, BOT))
            out = join(out, self.site_ty(ns))
        llists, rlists = self.sites(l, "list"), self.sites(r, "list")
        if isinstance(op, ast.Add) and (llists or rlists):
            ns = self.new_site(n, "list", sc, "op")
            for s in llists + rlists:
                self.upd(self.elem, ns, self.elem.get(s, BOT))
            out = join(out, self.site_ty(ns))
        if isinstance(op, ast.Mult) and (llists or rlists):
            out = join(out, frozenset(("site", s) for s in llists + rlists))
        if isinstance(op, ast.Add):
            if "str" in l and "str" in r:
                out = join(out, STR)
            if any(isinstance(a, tuple) and a[0] in ("tup", "tupv") for a in l | r):
                out = join(out, frozenset([("tupv", join(self.elem_of(l), self.elem_of(r)))]))
        if isinstance(op, ast.Mult) and ("str" in l or "str" in r):
            out = join(out, STR)
        lu = "top" in l or not l
        ru = "top" in r or not r
        if "int" in l and "int" in r:
            out = join(out, INT)
        elif ("int" in l and ru) or ("int" in r and lu):
            # number (op) unknown: a number, or TypeError -- the analysed package defines no reflected operators
            out = join(out, INT)
        if lu and ru:
            out = join(out, TOP)
        elif not out:
            out = TOP
        return out

    def ev_UnaryOp(self, n, sc):
        self.ev(n.operand, sc)
        return INT

    def ev_BoolOp(self, n, sc):
        return joins([self.ev(v, sc) for v in n.values])

    def ev_Compare(self, n, sc):
        self.ev(n.left, sc)
        for c in n.comparators:
            self.ev(c, sc)
        return INT

    def ev_IfExp(self, n, sc):
        self.ev(n.test, sc)
        return join(self.ev(n.body, sc), self.ev(n.orelse, sc))

    def _seq_elems(self, elts, sc):
        r = BOT
        for e in elts:
            if isinstance(e, ast.Starred):
                r = join(r, self.elem_of(self.ev(e.value, sc)))
            else:
                r = join(r, self.ev(e, sc))
        return r

    def ev_List(self, n, sc):
        sid = self.new_site(n, "list", sc)
        self.upd(self.elem, sid, self._seq_elems(n.elts, sc))
        return self.site_ty(sid)

    def ev_Set(self, n, sc):
        sid = self.new_site(n, "set", sc)
        self.upd(self.elem, sid, self._seq_elems(n.elts, sc))
        return self.site_ty(sid)

    def ev_Tuple(self, n, sc):
        if any(isinstance(e, ast.Starred) for e in n.elts):
            return frozenset([("tupv", self._seq_elems(n.elts, sc))])
        return frozenset([("tup", tuple(self.ev(e, sc) for e in n.elts))])

    def ev_Dict(self, n, sc):
        sid = self.new_site(n, "dict", sc)
        for k, v in zip(n.keys, n.values):
            if k is None:
                for s2 in self.sites(self.ev(v, sc), "dict"):
                    self.upd(self.elem, sid, self.elem.get(s2, BOT))
                    self.upd(self.val, sid, self.val.get(s2, BOT))
            else:
                self.upd(self.elem, sid, self.ev(k, sc))
                self.upd(self.val, sid, self.ev(v, sc))
        return self.site_ty(sid)

    def _comp_gens(self, gens, sc):
        for g in gens:
            self.bind(g.target, self.elem_of(self.ev(g.iter, sc)), sc)
            for c in g.ifs:
                self.ev(c, sc)

    def ev_ListComp(self, n, sc):
        self._comp_gens(n.generators, sc)
        sid = self.new_site(n, "list", sc)
        self.upd(self.elem, sid, self.ev(n.elt, sc))
        return self.site_ty(sid)

    def ev_SetComp(self, n, sc):
        self._comp_gens(n.generators, sc)
        sid = self.new_site(n, "set", sc)
        self.upd(self.elem, sid, self.ev(n.elt, sc))
        return self.site_ty(sid)

    def ev_GeneratorExp(self, n, sc):
        self._comp_gens(n.generators, sc)
        sid = self.new_site(n, "iter", sc)
        self.upd(self.elem, sid, self.ev(n.elt, sc))
        return self.site_ty(sid)

    def ev_DictComp(self, n, sc):
        self._comp_gens(n.generators, sc)
        sid = self.new_site(n, "dict", sc)
        self.upd(self.elem, sid, self.ev(n.key, sc))
        self.upd(self.val, sid, self.ev(n.value, sc))
        return self.site_ty(sid)

    def ev_JoinedStr(self, n, sc):
        for v in n.values:
            if isinstance(v, ast.FormattedValue):
                self.ev(v.value, sc)
        return STR

    def ev_FormattedValue(self, n, sc):
        self.ev(n.value, sc)
        return STR

    def ev_Lambda(self, n, sc):
        ls = self.scope_of_node.get(id(n))
        if ls is None:
            return TOP
        return frozenset([("func", ls.id)])

    def ev_Starred(self, n, sc):
        return self.elem_of(self.ev(n.value, sc))

    def ev_NamedExpr(self, n, sc):
        t = self.ev(n.value, sc)
        self.bind(n.target, t, sc)
        return t

    def ev_Yield(self, n, sc):
        fs = self._func_scope(sc)
        if n.value is not None and fs is not None:
            self.upd(self.yields, fs.id, self.ev(n.value, sc))
        return TOP

    def ev_YieldFrom(self, n, sc):
        fs = self._func_scope(sc)
        if fs is not None:
            self.upd(self.yields, fs.id, self.elem_of(self.ev(n.value, sc)))
        return TOP

    def ev_Await(self, n, sc):
        self.ev(n.value, sc)
        return TOP

    def ev_Slice(self, n, sc):
        return TOP

    def _func_scope(self, sc):
        s = sc
        while s is not None and s.kind == "lambda":
            s = s.parent
        return s if s is not None and s.kind == "func" else None

    # ---------------------------------------------------------------- binding
    def owner_scope(self, name, sc):
        s = sc
        while s is not None:
            if name in s.bound:
                return s
            s = s.parent
        return self._module_scope[sc.relpath]

    def bind(self, target, t, sc):
        if isinstance(target, ast.Name):
            o = self.owner_scope(target.id, sc)
            self.upd(self.env, (o.id, target.id), t)
        elif isinstance(target, ast.Attribute):
            self.store_attr(self.ev(target.value, sc), target.attr, t)
        elif isinstance(target, ast.Subscript):
            bt = self.ev(target.value, sc)
            is_slice = isinstance(target.slice, ast.Slice)
            kt = BOT if is_slice else self.ev(target.slice, sc)
            for s in self.sites(bt):
                k = self.site_kind[s]
                if k == "dict":
                    self.upd(self.elem, s, kt)
                    self.upd(self.val, s, t)
                elif k == "list":
                    self.upd(self.elem, s, self.elem_of(t) if is_slice else t)
        elif isinstance(target, (ast.Tuple, ast.List)):
            n = len(target.elts)
            starred = any(isinstance(e, ast.Starred) for e in target.elts)
            for i, e in enumerate(target.elts):
                ct = BOT
                for a in t:
                    if isinstance(a, tuple) and a[0] == "tup" and len(a[1]) == n and not starred:
                        ct = join(ct, a[1][i])
                    elif isinstance(a, tuple) and a[0] == "tup":
                        ct = join(ct, joins(a[1]))
                    else:
                        ct = join(ct, self.elem_of(frozenset([a])))
                if isinstance(e, ast.Starred):
                    sid = self.new_site(e, "list", sc, "star")
                    self.upd(self.elem, sid, ct)
                    self.bind(e.value, self.site_ty(sid), sc)
                else:
                    self.bind(e, ct, sc)
        elif isinstance(target, ast.Starred):
            self.bind(target.value, t, sc)

    # -------------------------------------------------------------- statements
    def run_body(self, body, sc):
        for s in body:
            self.run_stmt(s, sc)

    def run_stmt(self, s, sc):
        self._stmt = s
        if isinstance(s, ast.Assign):
            t = self.ev(s.value, sc)
            for tg in s.targets:
                self.bind(tg, t, sc)
        elif isinstance(s, ast.AugAssign):
            cur = self.ev(self._as_load(s.target), sc)
            v = self.ev(s.value, sc)
            for sid in self.sites(cur, "list"):
                if isinstance(s.op, ast.Add):
                    self.upd(self.elem, sid, self.elem_of(v))
            for sid in self.sites(cur, "set"):
                if isinstance(s.op, (ast.BitOr, ast.BitXor)):
                    self.upd(self.elem, sid, self.elem_of(v))
            t = self.binop(cur, s.op, v, s, sc)
            keep = frozenset(a for a in cur if isinstance(a, tuple) and a[0] == "site")
            self.bind(s.target, join(t, keep), sc)
        elif isinstance(s, ast.AnnAssign):
            if s.value is not None:
                self.bind(s.target, self.ev(s.value, sc), sc)
        elif isinstance(s, (ast.For, ast.AsyncFor)):
            self.bind(s.target, self.elem_of(self.ev(s.iter, sc)), sc)
            self.run_body(s.body, sc)
            self.run_body(s.orelse, sc)
        elif isinstance(s, ast.While):
            self.ev(s.test, sc)
            self.run_body(s.body, sc)
            self.run_body(s.orelse, sc)
        elif isinstance(s, ast.If):
            self.ev(s.test, sc)
            self.run_body(s.body, sc)
            self.run_body(s.orelse, sc)
        elif isinstance(s, (ast.With, ast.AsyncWith)):
            for it in s.items:
                t = self.ev(it.context_expr, sc)
                if it.optional_vars is not None:
                    r = BOT
                    for a in t:
                        if isinstance(a, tuple) and a[0] == "obj":
                            for f in self.lookup_method(a[1], "__enter__"):
                                r = join(r, self.call_scope(f, [], {}, frozenset([a])))
                    self.bind(it.optional_vars, r or TOP, sc)
            self.run_body(s.body, sc)
        elif isinstance(s, ast.Try):
            self.run_body(s.body, sc)
            for h in s.handlers:
                if h.name:
                    o = self.owner_scope(h.name, sc)
                    self.upd(self.env, (o.id, h.name), TOP)
                self.run_body(h.body, sc)
            self.run_body(s.orelse, sc)
            self.run_body(s.finalbody, sc)
        elif isinstance(s, ast.Return):
            fs = self._func_scope(sc)
            t = self.ev(s.value, sc) if s.value is not None else NONE
            if fs is not None:
                self.upd(self.ret, fs.id, t)
        elif isinstance(s, ast.Expr):
            self.ev(s.value, sc)
        elif isinstance(s, (ast.Raise,)):
            if s.exc is not None:
                self.ev(s.exc, sc)
        elif isinstance(s, ast.Assert):
            self.ev(s.test, sc)
        elif isinstance(s, ast.Delete):
            pass
        elif isinstance(s, (ast.FunctionDef, ast.AsyncFunctionDef)):
            fs = self.scope_of_node.get(id(s))
            if fs is not None:
                a = s.args
                pos = a.posonlyargs + a.args
                for p, d in zip(pos[len(pos) - len(a.defaults):], a.defaults):
                    self.upd(self.env, (fs.id, p.arg), self.ev(d, sc))
                for p, d in zip(a.kwonlyargs, a.kw_defaults):
                    if d is not None:
                        self.upd(self.env, (fs.id, p.arg), self.ev(d, sc))
        elif isinstance(s, ast.ClassDef):
            pass
        elif isinstance(s, ast.Match):
            self.ev(s.subject, sc)
            for c in s.cases:
                self.run_body(c.body, sc)

    @staticmethod
    def _as_load(t):
        import copy
        c = copy.copy(t)
        c.ctx = ast.Load()
        return c

    # ------------------------------------------------------------------ solve
    def _run_scope(self, sc):
        self._cur = sc.id
        if sc.kind == "module":
            self.run_body(sc.node.body, sc)
            for ci in self.classes.values():
                if ci.relpath == sc.relpath:
                    for m in ci.methods.values():
                        self.run_stmt(m.node, sc)  # parameter defaults of methods
        elif sc.kind == "func":
            if getattr(sc, "defcls", None) and not sc.is_static and sc.params:
                self.upd(self.env, (sc.id, sc.params[0]), frozenset([("obj", sc.defcls)]))
            if sc.vararg:
                self.upd(self.env, (sc.id, sc.vararg), frozenset([("tupv", TOP)]))
            if sc.kwarg:
                self.upd(self.env, (sc.id, sc.kwarg), TOP)
            self.run_body(sc.node.body, sc)
        else:
            self.upd(self.ret, sc.id, self.ev(sc.node.body, sc))
        self._cur = None

    def solve(self, max_runs=60):
        """chaotic iteration: a scope is re-run when a table entry it read has grown."""
        order = sorted(self.scopes.values(), key=lambda s: s.id)
        runs = {}
        for phase in (1, 2):
            self._dirty = set(self.scopes)
            while self._dirty:
                self.passes += 1
                todo = [sc for sc in order if sc.id in self._dirty]
                self._dirty = set()
                for sc in todo:
                    runs[sc.id] = runs.get(sc.id, 0) + 1
                    if runs[sc.id] > max_runs:
                        raise AnalysisError("type inference did not converge (%s re-run %d times)" % (sc.qualname, max_runs))
                    self._run_scope(sc)
            if phase == 1:
                # parameters no call inside the package ever binds are unknown (entry points)
                for sc in order:
                    if sc.kind in ("func", "lambda"):
                        ps = list(sc.params)
                        if getattr(sc, "defcls", None) and not sc.is_static and ps:
                            ps = ps[1:]
                        for p in ps + list(getattr(sc, "kwonly", ())):
                            if not dict.get(self.env, (sc.id, p)):
                                self.env[(sc.id, p)] = TOP
        self.total_runs = sum(runs.values())
        return self

    # ------------------------------------------------------- element categories
    def categories(self, t, _d=0):
        """set of categories of a (set-element) type: int | str | obj | custom | unknown"""
        out = set()
        for a in t:
            if a in ("int", "none"):
                out.add("int")
            elif a == "str":
                out.add("str")
            elif a == "top":
                out.add("unknown")
            elif isinstance(a, tuple):
                if a[0] == "obj":
                    ci = self.classes.get(a[1])
                    if ci is None:
                        out.add("unknown")
                    elif any(self.classes[k].custom_hash for k in self.related(a[1]) if k in self.classes):
                        out.add("custom")
                    else:
                        out.add("obj")
                elif a[0] == "tup":
                    if _d > 4:
                        out.add("unknown")
                    for c in a[1]:
                        out |= self.categories(c, _d + 1) if c else {"unknown"}
                elif a[0] == "tupv":
                    out |= self.categories(a[1], _d + 1) if a[1] else set()
                elif a[0] in ("func", "cls", "mod"):
                    out.add("obj")
                else:
                    out.add("unknown")
        return out

    def set_kind(self, t):
        """(kind, categories) of the elements of the set sites in t.
        kind: 'empty' | 'int' (order-deterministic) | 'nondet' (identity/str hashed) | 'unknown'"""
        et = joins(self.elem.get(s, BOT) for s in self.sites(t, "set"))
        cats = self.categories(et)
        if not cats:
            return "empty", cats, et
        if cats & {"obj", "str"}:
            return "nondet", cats, et
        if cats <= {"int"}:
            return "int", cats, et
        return "unknown", cats, et


def show_ty(pkg, t, d=0):
    parts = []
    for a in sorted(t, key=repr):
        if isinstance(a, str):
            parts.append(a)
        elif a[0] == "obj":
            parts.append(a[1])
        elif a[0] == "site":
            k = pkg.site_kind[a[1]]
            if d > 2:
                parts.append(k)
            elif k == "dict":
                parts.append("dict[%s -> %s]" % (show_ty(pkg, pkg.elem.get(a[1], BOT), d + 1), show_ty(pkg, pkg.val.get(a[1], BOT), d + 1)))
            else:
                parts.append("%s[%s]" % (k, show_ty(pkg, pkg.elem.get(a[1], BOT), d + 1)))
        elif a[0] == "tup":
            parts.append("(%s)" % ", ".join(show_ty(pkg, c, d + 1) for c in a[1]))
        elif a[0] == "tupv":
            parts.append("(%s, ...)" % show_ty(pkg, a[1], d + 1))
        else:
            parts.append(a[0])
    parts = sorted(set(parts))
    if len(parts) > 6:
        parts = parts[:6] + ["..."]
    return "|".join(parts) if parts else "bottom"
