"""Obligation / finding bookkeeping, known-findings protocol, evidence and replay."""
from __future__ import annotations

import ast
import hashlib
import json
import os
import random
import time

from .model import AnalysisError, Repo, norm

VERIF = os.path.dirname(os.path.dirname(os.path.abspath(__file__)))


class Finding:
    def __init__(self, prop, rule, qualname, construct, message, file=None, line=None, witness=None):
        self.prop = prop
        self.rule = rule
        self.qualname = qualname
        self.construct = norm(construct) if construct is not None else ""
        self.message = message
        self.file = file
        self.line = line
        self.witness = witness

    def key(self):
        return (self.prop, self.rule, self.qualname, self.construct)

    def as_dict(self):
        d = dict(property=self.prop, rule=self.rule, qualname=self.qualname, construct=self.construct,
                 message=self.message, file=self.file, line=self.line)
        if self.witness is not None:
            d["witness"] = self.witness
        return d


class Ctx:
    """One run of one property's rule set."""

    def __init__(self, prop, tier, repo_root, seed=0, evidence_dir=None, quiet=False):
        self.prop = prop
        self.tier = tier
        self.seed = seed
        self.repo_root = repo_root
        self.t0 = time.time()
        self.repo = Repo(repo_root)
        self.obligations = []  # (rule, instance, ok, detail)
        self.findings: list[Finding] = []
        self.notes: list[str] = []
        self.assumptions: list[str] = []
        self.explanation = ""
        self.counts: dict[str, int] = {}
        self.floors: dict[str, tuple] = {}
        self.functions_analysed: set[str] = set()
        self.extra: dict = {}
        self._path_opaque = None      # set by ctx.path(asg): the abstract path under judgement went through an unevaluated condition
        self.deferred: list[str] = []  # failing obligations on such paths: nothing is established there (-> exit 2 unless a real finding exists)
        self.evidence_dir = evidence_dir or os.path.join(VERIF, "evidence")
        self.quiet = quiet
        from . import absint as _absint
        _absint.ON_PATH = self.path

    # ---- bookkeeping -------------------------------------------------
    def mod(self, rel):
        return self.repo.mod(rel)

    def analysed(self, func):
        self.functions_analysed.add("%s:%s" % (func.file, func.qualname))

    def ob(self, rule, instance, ok, detail=""):
        """record one obligation (a rule instance that was examined)."""
        self.obligations.append((rule, str(instance), bool(ok), detail))
        return ok

    def finding(self, rule, func_or_qualname, construct, message, node=None, file=None, witness=None):
        if hasattr(func_or_qualname, "qualname"):
            f = func_or_qualname
            qn = f.qualname
            file = file or f.file
            line = getattr(node, "lineno", None) or f.line
        else:
            qn = func_or_qualname
            line = getattr(node, "lineno", None)
        fd = Finding(self.prop, rule, qn, construct, message, file, line, witness)
        for x in self.findings:
            if x.key() == fd.key():
                return x
        self.findings.append(fd)
        return fd

    def path(self, asg):
        """declare the abstract path the following obligations are judged on (asg as returned by absint.explore); None = no path.
        A path whose assignment contains a choice on an unevaluated condition (key ('c', ...)) may be infeasible: a failing obligation
        on it is not a finding but an undecided instance."""
        self._path_opaque = None
        if asg is not None:
            ck = next((k for k in asg if isinstance(k, tuple) and k and k[0] == "c"), None)
            if ck is not None:
                from . import absint as _absint
                # a concrete witness for all exact-but-unrefinable comparisons on the path establishes its feasibility
                if not _absint.path_witness(asg):
                    self._path_opaque = ck

    def check(self, rule, instance, ok, func, construct, message, node=None, witness=None, detail="", file=None):
        """obligation + finding when it fails."""
        if not ok and self._path_opaque is not None:
            self.deferred.append("%s [%s]: fails only on a path through the unevaluated condition `%s` (feasibility not established): %s" % (
                rule, str(instance)[:80], str(self._path_opaque[1])[:100], message[:300]))
            return ok
        self.ob(rule, instance, ok, detail or ("" if ok else message))
        if not ok:
            self.finding(rule, func, construct, message, node=node, witness=witness, file=file)
        return ok

    def count(self, name, n=1):
        self.counts[name] = self.counts.get(name, 0) + n

    def floor(self, name, minimum, actual=None):
        """no vacuous passes: the number of matched instances must not fall below
        what was confirmed by hand on the reference tree."""
        actual = self.counts.get(name, 0) if actual is None else actual
        self.floors[name] = (actual, minimum)
        if actual < minimum:
            raise AnalysisError(
                "instance floor not met for %s: matched %d, expected >= %d "
                "(the rule no longer finds the constructs it is about)" % (name, actual, minimum))

    def require(self, cond, what):
        if not cond:
            raise AnalysisError(what)

    def note(self, s):
        if s not in self.notes:
            self.notes.append(s)

    def assume(self, s):
        if s not in self.assumptions:
            self.assumptions.append(s)


# ---------------------------------------------------------------------------
def load_known():
    p = os.path.join(VERIF, "known_findings.json")
    if not os.path.exists(p):
        return []
    with open(p) as fh:
        out = list(json.load(fh).get("findings", []))
    d = os.path.join(VERIF, "known_findings.d")
    if os.path.isdir(d):
        for f in sorted(os.listdir(d)):
            if f.endswith(".json"):
                with open(os.path.join(d, f)) as fh:
                    out += json.load(fh).get("findings", [])
    return out


def _match_known(f: Finding, known):
    for k in known:
        if k.get("status", "known") != "known":
            continue  # 'fixed' entries suppress nothing
        if (k["property"] == f.prop and k["rule"] == f.rule and k["qualname"] == f.qualname
                and norm(k["construct"]) == f.construct):
            return k
    return None


def finish(ctx: Ctx, error: str | None = None):
    """print result lines, write replay + evidence, return exit code."""
    if error is None and ctx.deferred:
        error = ctx.deferred[0] + (" (and %d more undecided instances)" % (len(ctx.deferred) - 1) if len(ctx.deferred) > 1 else "")
    known = load_known()
    new, listed = [], []
    for f in ctx.findings:
        k = _match_known(f, known)
        (listed if k else new).append((f, k))
    out = []
    for f, k in listed:
        out.append("KNOWN-FINDING: property=%s %s:%s %s [%s] %s -- %s" % (
            f.prop, f.file, f.line, f.qualname, f.rule, f.construct[:120], k.get("what", f.message)))
    replay_dir = os.path.join(VERIF, "replay", ctx.prop)
    replays = []
    if new:
        os.makedirs(replay_dir, exist_ok=True)
    for f, _ in new:
        h = hashlib.sha1(repr(f.key()).encode()).hexdigest()[:12]
        p = os.path.join(replay_dir, "%s_%s.json" % (f.rule.replace("/", "_"), h))
        with open(p, "w") as fh:
            json.dump(dict(f.as_dict(), repo=ctx.repo_root, tier=ctx.tier,
                           replay_cmd="./check %s --tier %s --repo %s" % (ctx.prop, ctx.tier, ctx.repo_root)),
                      fh, indent=1, default=str)
        replays.append(p)
        out.append("FINDING %s:%s %s [%s] %s -- %s" % (f.file, f.line, f.qualname, f.rule, f.construct[:160], f.message))
        out.append("VIOLATION property=%s replay=%s" % (ctx.prop, p))
    if error:
        out.append("ANALYSIS-ERROR property=%s %s" % (ctx.prop, error))
    # a concrete, individually justified finding outranks a later analysis error
    code = 1 if new else (2 if error else 0)

    # ---- evidence ------------------------------------------------------
    obs = ctx.obligations
    distinct = {(r, i) for r, i, ok, d in obs}
    rnd = random.Random(ctx.seed)
    samples_src = [dict(rule=r, instance=i, ok=ok, detail=d) for r, i, ok, d in obs if d]
    if len(samples_src) > 12:
        # keep failing ones + a seeded sample
        bad = [s for s in samples_src if not s["ok"]][:6]
        rest = [s for s in samples_src if s["ok"]]
        samples = bad + rnd.sample(rest, min(len(rest), 12 - len(bad)))
    else:
        samples = samples_src or [dict(rule=r, instance=i, ok=ok) for r, i, ok, d in obs[:8]]
    files = [dict(path=p, sha256=ctx.repo.modules[p].sha256) for p in sorted(ctx.repo.consulted)]
    cov = dict(
        explanation=ctx.explanation or "static analysis of the repository source (no execution)",
        rule=ctx.explanation,
        obligations=len(obs),
        discharged=sum(1 for o in obs if o[2]),
        evaluations=len(obs),
        distinct_nontrivial=len(distinct),
        samples=samples,
        rules={r: sum(1 for o in obs if o[0] == r) for r in sorted({o[0] for o in obs})},
        instance_counts={k: dict(matched=v[0], floor=v[1]) for k, v in ctx.floors.items()},
        counts=ctx.counts,
        files=files,
        functions_analysed=sorted(ctx.functions_analysed),
        known_findings=[f.as_dict() for f, _ in listed],
        new_findings=[f.as_dict() for f, _ in new],
        notes=ctx.notes,
        analysis_error=error,
        checker_cmd="./check %s --tier %s" % (ctx.prop, ctx.tier),
        trusted_base=["CPython ast module", "agstatic abstract domains", "agstatic/spec tables written from the public format documents"],
        exhaustive=False,
    )
    cov.update(ctx.extra)
    ev = dict(
        property_id=ctx.prop, tier=ctx.tier, seed=ctx.seed, level="other",
        coverage=cov,
        assumptions=ctx.assumptions,
        wall_s=round(time.time() - ctx.t0, 3),
        violations=len(new),
    )
    os.makedirs(ctx.evidence_dir, exist_ok=True)
    with open(os.path.join(ctx.evidence_dir, "%s.json" % ctx.prop), "w") as fh:
        json.dump(ev, fh, indent=1, default=str)
    import sys
    try:
        if not ctx.quiet:
            print("%s tier=%s repo=%s obligations=%d discharged=%d known=%d new=%d wall=%.2fs" % (
                ctx.prop, ctx.tier, ctx.repo_root, len(obs), cov["discharged"], len(listed), len(new), ev["wall_s"]))
        for l in out:
            print(l)
        sys.stdout.flush()
    except BrokenPipeError:
        # reader went away (e.g. `| head -1`): keep the verdict, drop the rest of the text
        try:
            sys.stdout = open(os.devnull, "w")
        except OSError:
            pass
    return code
