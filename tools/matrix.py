#!/venv/bin/python
"""Developer tool: run EVERY registered check against EVERY kept patch (seeded/* breaking, benign/* behaviour-preserving),
each applied to a scratch copy of /repo/androguard, and write seeded/MATRIX.json and benign/MATRIX.json:
{patch: {check: rc}} (only non-zero rcs are stored).  usage: tools/matrix.py [seeded|benign] [-j N]"""
import concurrent.futures as cf, glob, json, os, shutil, subprocess, sys, tempfile, time
V = "/verif"
which = [a for a in sys.argv[1:] if a in ("seeded", "benign")] or ["seeded", "benign"]
jobs = int(sys.argv[sys.argv.index("-j") + 1]) if "-j" in sys.argv else 14
props = [c["property_id"] for c in json.load(open(V + "/MANIFEST.json"))["checks"]]


def one(path):
    name = os.path.basename(os.path.dirname(path))
    tmp = tempfile.mkdtemp(prefix="mtx_")
    res = {}
    try:
        shutil.copytree("/repo/androguard", os.path.join(tmp, "androguard"), ignore=shutil.ignore_patterns("__pycache__"))
        p = subprocess.run(["patch", "-p1", "-s", "-i", path], cwd=tmp, capture_output=True, text=True)
        if p.returncode != 0:
            return name, {"_apply": "failed"}
        for prop in props:
            r = subprocess.run([os.path.join(V, "check"), prop, "--repo", tmp, "--evidence-dir", os.path.join(tmp, "ev")], capture_output=True, text=True, cwd=V)
            if r.returncode != 0:
                lines = [l[:240] for l in (r.stdout + r.stderr).splitlines() if l.startswith(("FINDING", "ANALYSIS-ERROR"))][:1]
                res[prop] = dict(rc=r.returncode, line=lines[0] if lines else "")
        return name, res
    finally:
        shutil.rmtree(tmp, ignore_errors=True)


for kind in which:
    t0 = time.time()
    paths = sorted(glob.glob("%s/%s/*/patch.diff" % (V, kind)))
    out = {}
    with cf.ThreadPoolExecutor(jobs) as ex:
        for name, res in ex.map(one, paths):
            out[name] = res
    head = subprocess.run(["git", "-C", "/repo", "rev-parse", "--short", "HEAD"], capture_output=True, text=True).stdout.strip()
    json.dump(dict(repo_head=head, checks=props, results=out), open("%s/%s/MATRIX.json" % (V, kind), "w"), indent=1)
    if kind == "benign":
        fa = {n: sorted(p for p, r in res.items() if isinstance(r, dict) and r.get("rc") == 1) for n, res in out.items()}
        und = {n: sorted(p for p, r in res.items() if isinstance(r, dict) and r.get("rc") == 2) for n, res in out.items()}
        print("benign: %d patches; with false alarms: %s" % (len(out), {n: v for n, v in fa.items() if v}))
        print("        undecided: %s" % {n: v for n, v in und.items() if v})
    else:
        missed = [n for n, res in out.items() if not any(isinstance(r, dict) and r.get("rc") == 1 for r in res.values())]
        print("seeded: %d patches; not caught by any check: %s" % (len(out), missed))
    print("  (%.0f s)" % (time.time() - t0))
