"""C38 -- cleaned file names are portable.

Fact-preservation analysis of `androguard.misc.clean_file_name` by a small
path-sensitive abstract interpreter over its body (no execution).  A string
value is abstracted by

    may   : set of code points that can occur in it      (regex classes via regexlang)
    last  : set of code points its last character can be
    nonempty, and an upper bound of its length as a max of linear forms over
    symbolic lengths (len(ext), ...)

Transfer functions are derived from the *meaning* of each statement:
`re.sub(P, r, x)` is a character cleaner when every match of P is exactly one
character (set taken from the regex AST), a tail cleaner when P is such a set
followed by `$`/`\\Z`; `x[:N]` is a cut (length <= N only if N is provably >= 0;
the last character becomes arbitrary); `format`/`+`/`%` concatenate;
`rsplit`/`split`/`splitext` produce sub-strings; `if len(x) > N` refines the
bound on the else branch; `if re.match(P, replace): raise` refines the
replacement; `while os.path.isfile(os.path.join(d, f))` establishes
"join(d, f) is not an existing file" on exit, killed by any later assignment.

At every `return` the five facts of the property must hold:
  chars  -- no character of  < > : " / \\ | ? *  or 0x00-0x1f in the name
  tail   -- the name does not end with space or dot
  len    -- at most 230 characters
  dir    -- the result is os.path.join(<directory part of the input>, name), name has no separator
  unique -- if `unique` is truthy the result was tested not to be an existing file after its last change
A failing fact is reported at the statement that destroys it (or at the last
statement that attempts to establish it).
"""
from __future__ import annotations

import ast
from dataclasses import dataclass, field, replace as dc_replace

from ..model import AnalysisError, norm, dotted, walk_no_nested
from .. import regexlang as RL
from ..regexlang import CharSet

MISC = "androguard/misc.py"
OWN_MUTATION_ADEQUACY = True  # the thorough tier runs its own in-memory mutants
RESERVED = CharSet.of('<>:"/\\|?*') | CharSet.range(0, 0x1F)
TAIL_BAD = CharSet.of(" .")
SEPS = CharSet.of("/\\")
MAXLEN = 230
FULL = CharSet.full()
FACTS = ("chars", "tail", "len", "dir", "unique")


def _err(msg):
    raise AnalysisError("clean_file_name: " + msg)


# ---------------------------------------------------------------------------
# linear forms over symbolic lengths; a bound is the max of a set of forms
# ---------------------------------------------------------------------------
class Atoms:
    def __init__(self):
        self.hi = {}
        self.names = {}
        self.by_key = {}
        self.ctx = {}  # per-path refinements of the upper bounds (set by the interpreter for the state it works on)

    def new(self, name, hi=None, key=None):
        """one atom per (program site, role, bound): re-evaluating a site yields the same symbol"""
        k = (key, name, hi)
        if key is not None and k in self.by_key:
            return self.by_key[k]
        i = len(self.hi) + 1
        self.hi[i] = hi
        self.names[i] = name
        if key is not None:
            self.by_key[k] = i
        return i

    def get_hi(self, a):
        h, r = self.hi[a], self.ctx.get(a)
        if r is None:
            return h
        return r if h is None else min(h, r)


def lin_atom(a):
    return (0, ((a, 1),))


def lin_add(x, y, sign=1):
    d = dict(x[1])
    for a, c in y[1]:
        d[a] = d.get(a, 0) + sign * c
    return (x[0] + sign * y[0], tuple(sorted((a, c) for a, c in d.items() if c)))


def lin_max(x, atoms):
    v = x[0]
    for a, c in x[1]:
        if c > 0:
            h = atoms.get_hi(a)
            if h is None:
                return None
            v += c * h
    return v


def lin_min(x, atoms):
    v = x[0]
    for a, c in x[1]:
        if c < 0:
            h = atoms.get_hi(a)
            if h is None:
                return None  # -inf
            v += c * h
    return v


def mx_add(A, B, sign=1):
    if sign == 1:
        return frozenset(lin_add(a, b) for a in A for b in B)
    if len(B) != 1:
        return None
    b = next(iter(B))
    return frozenset(lin_add(a, b, -1) for a in A)


def mx_max(A, atoms):
    """max value of max(A) -> int or None (unbounded)"""
    out = None
    for a in A:
        v = lin_max(a, atoms)
        if v is None:
            return None
        out = v if out is None else max(out, v)
    return out


def mx_nonneg(A, atoms):
    for a in A:
        v = lin_min(a, atoms)
        if v is not None and v >= 0:
            return True
    return False


def mx_show(A, atoms):
    def one(l):
        parts = [str(l[0])] if l[0] or not l[1] else []
        for a, c in l[1]:
            parts.append(("%+d*" % c if abs(c) != 1 else ("+" if c > 0 else "-")) + atoms.names[a])
        return " ".join(parts).lstrip("+")
    xs = sorted(one(l) for l in A)
    return xs[0] if len(xs) == 1 else "max(%s)" % ", ".join(xs)


# ---------------------------------------------------------------------------
# abstract values
# ---------------------------------------------------------------------------
@dataclass(frozen=True)
class S:
    """a string"""
    may: CharSet = FULL
    last: CharSet = FULL
    nonempty: bool = False
    ub: frozenset | None = None       # len <= max(ub)
    exact: frozenset | None = None    # len == max(exact)
    tag: str | None = None            # 'param0' for the untouched input path
    fresh: object = None              # directory value d such that os.path.join(d, <this value>) was tested not to be an existing file
    must: CharSet = CharSet.EMPTY     # characters that certainly occur
    tok: int = 0                      # identity of the concrete string this value stands for (aliases share it)
    hist: tuple = field(default=(), compare=False)


@dataclass(frozen=True)
class I:
    """an int; val = max of linear forms, or None when unknown"""
    val: frozenset | None = None


@dataclass(frozen=True)
class PathDir:
    """directory component of the input path"""
    pass


@dataclass(frozen=True)
class NotDir:
    """a value that is known NOT to be the directory of the input for some inputs; `why` names the witness"""
    why: str


@dataclass(frozen=True)
class Tup:
    items: tuple


@dataclass(frozen=True)
class JoinV:
    """os.path.join(d, name)"""
    d: object
    name: object


@dataclass(frozen=True)
class Seq:
    """an iterable every element of which is one of `elems`; infinite = never exhausted (itertools.count)"""
    elems: tuple
    infinite: bool = False


@dataclass(frozen=True)
class Fork:
    """alternative results of one evaluation (several returns of a helper, found/not found of a partition, next(...))"""
    alts: tuple


@dataclass(frozen=True)
class Top:
    what: str = "?"


ONE = frozenset([(1, ())])
ZERO = frozenset([(0, ())])


def const_str(s):
    cs = CharSet.of(s)
    n = frozenset([(len(s), ())])
    return S(cs, CharSet.of(s[-1:]) if s else CharSet.EMPTY, bool(s), n, n, must=cs)


def digits_str():
    return S(CharSet.of("0123456789-"), CharSet.of("0123456789"), True, None, None)


def concat(a: S, b: S):
    may = a.may | b.may
    last = b.last if b.nonempty else (b.last | a.last)
    ub = mx_add(a.ub, b.ub) if a.ub is not None and b.ub is not None else None
    exact = mx_add(a.exact, b.exact) if a.exact is not None and b.exact is not None else None
    if ub is not None and len(ub) > 16:
        ub = None
    if exact is not None and len(exact) > 4:
        exact = None
    return S(may, last, a.nonempty or b.nonempty, ub, exact, must=a.must | b.must)


@dataclass
class State:
    env: dict
    falsy: frozenset = frozenset()          # names known to be falsy on this path
    bounds: tuple = ()                      # ((atom, hi), ...) refinements valid on this path
    mem: frozenset = frozenset()            # (token, char, bool): on this path the string `token` does / does not contain char

    def key(self):
        return (tuple(sorted(self.env.items(), key=lambda kv: kv[0])), self.falsy, self.bounds, self.mem)

    def copy(self):
        return State(dict(self.env), self.falsy, self.bounds, self.mem)


class Opaque(Exception):
    """the value of an unknown call is used as (part of) a string: the whole expression is unknown"""

    def __init__(self, top):
        self.top = top


class Frame:
    def __init__(self, fnode):
        self.fnode = fnode
        self.returns = []   # (state, node, value)
        self.loops = []     # [{'breaks': [...], 'continues': [...]}]


INFINITE_ITER = ("itertools.count", "itertools.repeat", "itertools.cycle")
PROBES = ("os.path.isfile", "os.path.exists", "os.path.lexists")


# ---------------------------------------------------------------------------
class Interp:
    def __init__(self, fnode, sink, module=None):
        self.module = module or {}
        self.funcs = self.module.get("funcs", {})
        self.consts = self.module.get("consts", {})
        self.root = fnode
        self.sink = sink
        self.atoms = Atoms()
        self.frames = [Frame(fnode)]
        self.in_loop = 0
        self.toks = {}
        self.pieces = {}   # token of a concatenation -> its piece values
        self.stats = dict(char_cleaners=0, tail_cleaners=0, cuts=0, refinements=0, uniq_loops=0, guards=0, concat=0, splits=0, helpers=0)
        self.seen_sites = {k: set() for k in self.stats}
        self.notes = []
        a = fnode.args
        self.params = [x.arg for x in a.posonlyargs + a.args]
        if not self.params:
            _err("no parameters")
        self.p0 = self.params[0]
        allp = self.params + [x.arg for x in a.kwonlyargs]
        for need in ("unique", "replace"):
            if need not in allp:
                _err("parameter %r vanished" % need)
        defaults = dict(zip(reversed(self.params), reversed(a.defaults)))
        d = defaults.get("replace")
        if d is not None and not (isinstance(d, ast.Constant) and isinstance(d.value, str) and len(d.value) == 1):
            _err("default of `replace` is not a one-character literal")

    @property
    def fn(self):
        return self.frames[-1].fnode

    def token(self, *key):
        t = self.toks.get(key)
        if t is None:
            t = self.toks[key] = len(self.toks) + 1
        return t

    def site(self, kind, node):
        if id(node) not in self.seen_sites[kind]:
            self.seen_sites[kind].add(id(node))
            self.stats[kind] += 1

    def initial(self):
        env = {}
        for p in self.params + [x.arg for x in self.root.args.kwonlyargs]:
            if p == self.p0:
                env[p] = S(tag="param0", tok=self.token("param", p))
            elif p == "replace":
                env[p] = S(FULL, FULL, True, ONE, ONE, tok=self.token("param", p))
            else:
                env[p] = Top("param " + p)
        return State(env)

    # ---- joins ---------------------------------------------------------------
    def join(self, vals):
        vals = list(dict.fromkeys(vals))
        if len(vals) == 1:
            return vals[0]
        if all(isinstance(v, S) for v in vals):
            may, last = CharSet.EMPTY, CharSet.EMPTY
            ub = frozenset()
            for v in vals:
                may, last = may | v.may, last | v.last
                ub = None if (ub is None or v.ub is None) else ub | v.ub
            if ub is not None and len(ub) > 16:
                ub = None
            fresh = vals[0].fresh if all(v.fresh == vals[0].fresh for v in vals) else None
            # provenance of the alternative that violates most (it is the one a finding will be about)
            worst = max(vals, key=lambda v: (sum(1 for ok in self.facts(v).values() if not ok), len(v.hist)))
            must = vals[0].must
            for v in vals[1:]:
                must = must & v.must
            return S(may, last, all(v.nonempty for v in vals), ub, None, None, fresh, must, self.token("join", tuple(v.tok for v in vals)), worst.hist)
        if all(isinstance(v, Seq) for v in vals):
            el = []
            for v in vals:
                el += [x for x in v.elems if x not in el]
            return Seq(tuple(el), all(v.infinite for v in vals))
        if all(isinstance(v, I) for v in vals):
            return I()
        if all(isinstance(v, Tup) and len(v.items) == len(vals[0].items) for v in vals):
            return Tup(tuple(self.join([v.items[i] for v in vals]) for i in range(len(vals[0].items))))
        for v in vals:
            if isinstance(v, Top) and v.what.startswith("call "):
                return v
        return Top("join")

    def collapse(self, v):
        return self.join(list(v.alts)) if isinstance(v, Fork) else v

    # ---- expressions -----------------------------------------------------
    def ev(self, e, st, stmt):
        return self.collapse(self.evf(e, st, stmt))

    def evf(self, e, st, stmt):
        try:
            return self.ev1(e, st, stmt)
        except Opaque as o:
            return o.top

    def ev1(self, e, st, stmt):
        if isinstance(e, ast.Constant):
            if isinstance(e.value, str):
                return const_str(e.value)
            if type(e.value) is int:
                return I(frozenset([(e.value, ())]))
            return Top("const")
        if isinstance(e, ast.Name):
            if e.id in st.env:
                return st.env[e.id]
            c = self.consts.get(e.id)
            if isinstance(c, ast.Constant) and (isinstance(c.value, str) or type(c.value) is int):
                return self.ev1(c, st, stmt)
            return Top("global " + e.id)
        if isinstance(e, ast.JoinedStr):
            acc = const_str("")
            parts, pieces = [], []
            for v in e.values:
                if isinstance(v, ast.Constant):
                    pieces.append(const_str(v.value))
                elif isinstance(v, ast.FormattedValue) and v.format_spec is None and v.conversion == -1:
                    pv = self.ev(v.value, st, stmt)
                    parts.append(pv)
                    pieces.append(self.as_str(pv))
                else:
                    pieces.append(S())
                acc = concat(acc, pieces[-1])
            self.site("concat", e)
            return self.derived(acc, stmt, parts, None, self.concat_kind(parts), pieces)
        if isinstance(e, ast.BinOp):
            l, r = self.ev(e.left, st, stmt), self.ev(e.right, st, stmt)
            if isinstance(e.op, ast.Add):
                if isinstance(l, S) and isinstance(r, S):
                    self.site("concat", e)
                    return self.derived(concat(l, r), stmt, [l, r], None, "concat", [l, r])
                if isinstance(l, I) and isinstance(r, I):
                    return I(mx_add(l.val, r.val)) if l.val is not None and r.val is not None else I()
                if isinstance(l, S) or isinstance(r, S):
                    ls, rs = self.as_str(l), self.as_str(r)
                    return self.derived(concat(ls, rs), stmt, [l, r], None, self.concat_kind([l, r]), [ls, rs])
                return I() if (isinstance(l, I) or isinstance(r, I)) else Top("binop")
            if isinstance(e.op, ast.Sub) and isinstance(l, I) and isinstance(r, I):
                if l.val is not None and r.val is not None:
                    return I(mx_add(l.val, r.val, -1))
                return I()
            if isinstance(e.op, ast.Mod) and isinstance(l, S) and isinstance(e.left, ast.Constant):
                return self.percent(e.left.value, e.right, st, stmt)
            if isinstance(l, I) or isinstance(r, I):
                return I()
            return Top("binop")
        if isinstance(e, ast.IfExp):
            return self.join([self.ev(e.body, st, stmt), self.ev(e.orelse, st, stmt)])
        if isinstance(e, ast.Subscript):
            return self.subscript(e, st, stmt)
        if isinstance(e, ast.Call):
            return self.call(e, st, stmt)
        if isinstance(e, ast.Tuple):
            return Tup(tuple(self.ev(x, st, stmt) for x in e.elts))
        if isinstance(e, ast.List):
            return Seq(tuple(self.ev(x, st, stmt) for x in e.elts))
        if isinstance(e, (ast.GeneratorExp, ast.ListComp)):
            return self.comprehension(e, st, stmt)
        if isinstance(e, ast.Attribute):
            d = dotted(e)
            if d in ("os.sep", "os.path.sep"):
                return S(SEPS, SEPS, True, ONE, ONE, tag="sep", must=CharSet.EMPTY)
            if d in ("os.extsep", "os.curdir"):
                return const_str(".")
            return Top(d or "attr")
        if isinstance(e, (ast.Compare, ast.BoolOp, ast.UnaryOp)):
            return Top("bool")
        return Top(type(e).__name__)

    def as_str(self, v):
        v = self.collapse(v)
        if isinstance(v, S):
            return v
        if isinstance(v, I):
            return digits_str()
        if isinstance(v, Top):
            raise Opaque(v if v.what.startswith("call ") else Top("call <%s>" % v.what))
        return S()

    @staticmethod
    def concat_kind(parts):
        # a decimal rendering of an int inside the concatenation = a numbering suffix
        return "append-counter" if any(isinstance(p, I) for p in parts) else "concat"

    def derived(self, new: S, stmt, inputs, attempt, kind="other", pieces=None):
        """attach provenance: history of the primary string input + this step"""
        hist = ()
        for i in inputs:
            if isinstance(i, S) and i.hist:
                hist = i.hist
                break
        att = frozenset([attempt]) if attempt else frozenset()
        if hist and hist[-1][0] is stmt:
            att = att | hist[-1][2]
            if kind in ("other", "concat") and hist[-1][4] not in ("other", "concat"):
                kind = hist[-1][4]
            hist = hist[:-1]
        tok = self.token(id(stmt), kind, tuple((i.tok if isinstance(i, S) else repr(i)) for i in inputs), new.may, new.last, new.ub, new.exact)
        if pieces is not None:
            self.pieces[tok] = tuple(pieces)
        return dc_replace(new, fresh=None, tok=tok, hist=hist + ((stmt, self.facts(new), att, self.fn, kind),))

    def facts(self, v: S):
        m = mx_max(v.ub, self.atoms) if v.ub is not None else None
        return dict(chars=not (v.may & RESERVED), tail=not (v.last & TAIL_BAD), len=m is not None and m <= MAXLEN)

    # ---- string formatting ---------------------------------------------------
    def format_pieces(self, fmt, args, kwargs):
        import string
        acc = const_str("")
        self.last_pieces = pieces = []
        auto = 0
        try:
            parsed = list(string.Formatter().parse(fmt))
        except ValueError:
            self.last_pieces = None
            return S()
        for lit, fieldname, spec, conv in parsed:
            if lit:
                pieces.append(const_str(lit))
                acc = concat(acc, pieces[-1])
            if fieldname is None:
                continue
            if spec or conv:
                pieces.append(S())
                acc = concat(acc, S())
                continue
            if fieldname == "":
                v = args[auto] if auto < len(args) else Top()
                auto += 1
            elif fieldname.isdigit():
                v = args[int(fieldname)] if int(fieldname) < len(args) else Top()
            else:
                v = kwargs.get(fieldname, Top())
            pieces.append(self.as_str(v))
            acc = concat(acc, pieces[-1])
        return acc

    def percent(self, fmt, right, st, stmt):
        vals = [self.ev(x, st, stmt) for x in right.elts] if isinstance(right, ast.Tuple) else [self.ev(right, st, stmt)]
        acc = const_str("")
        pieces = []
        i = k = 0
        while i < len(fmt):
            if fmt[i] == "%" and i + 1 < len(fmt):
                c = fmt[i + 1]
                if c == "%":
                    pieces.append(const_str("%"))
                elif c in "sd" and k < len(vals):
                    pieces.append(self.as_str(vals[k]))
                    k += 1
                else:
                    return Top("call %-format")
                i += 2
            else:
                pieces.append(const_str(fmt[i]))
                i += 1
            acc = concat(acc, pieces[-1])
        return self.derived(acc, stmt, vals, None, self.concat_kind(vals), pieces)

    # ---- subscripts ---------------------------------------------------------
    def fresh_exact(self, name, ub, site=None):
        hi = mx_max(ub, self.atoms) if ub is not None else None
        a = self.atoms.new(name, hi, id(site) if site is not None else None)
        return frozenset([lin_atom(a)])

    def subscript(self, e, st, stmt):
        x = self.ev(e.value, st, stmt)
        if isinstance(x, Tup) and isinstance(e.slice, ast.Constant) and type(e.slice.value) is int and -len(x.items) <= e.slice.value < len(x.items):
            return x.items[e.slice.value]
        if not isinstance(x, S):
            return x if isinstance(x, Top) and x.what.startswith("call ") else Top("subscript")
        sl = e.slice
        if not isinstance(sl, ast.Slice):
            return self.derived(S(x.may, x.may, True, ONE, ONE), stmt, [x], None)
        if sl.step is not None:
            return self.derived(S(x.may, x.may, False, x.ub, None), stmt, [x], "len")
        if sl.upper is None:
            # suffix x[k:]: the last character is kept when anything is left
            ex = self.fresh_exact("len(%s)" % norm(e)[:30], x.ub, e)
            new = S(x.may, x.last, False, x.ub if x.ub is not None else ex, ex)
            return self.derived(new, stmt, [x], None)
        self.site("cuts", e)
        n = self.ev(sl.upper, st, stmt)
        ub = x.ub
        why = None
        if isinstance(n, I) and n.val is not None:
            if mx_nonneg(n.val, self.atoms):
                cand = n.val
                if ub is None:
                    ub = cand
                else:
                    a, b = mx_max(cand, self.atoms), mx_max(ub, self.atoms)
                    if b is None or (a is not None and a <= b):
                        ub = cand
            else:
                why = "the bound %s can be negative, so the slice only removes characters from the end and guarantees no length" % mx_show(n.val, self.atoms)
        else:
            why = "the bound %s is not a known non-negative quantity" % norm(sl.upper)
        new = S(x.may, x.may, False, ub, None)
        new = dc_replace(new, exact=self.fresh_exact("len(%s)" % norm(e)[:30], ub, e))
        out = self.derived(new, stmt, [x], "len", "cut")
        if why:
            self.notes.append((stmt, why))
        return out

    # ---- regexes ---------------------------------------------------------------
    def const_expr(self, e):
        """follow a name to its single defining expression (local of the current function, module constant)"""
        for _ in range(4):
            if not isinstance(e, ast.Name):
                break
            v = None
            for n in walk_no_nested(self.fn):
                if isinstance(n, ast.Assign) and len(n.targets) == 1 and isinstance(n.targets[0], ast.Name) and n.targets[0].id == e.id:
                    v = n.value if v is None else False
            if v is None and e.id in self.consts:
                v = self.consts[e.id]
            if v in (None, False):
                break
            e = v
        return e

    def regex_of(self, parg):
        parg = self.const_expr(parg)
        if isinstance(parg, ast.Constant) and isinstance(parg.value, str):
            try:
                return RL.Regex(parg.value)
            except RL.Unsupported:
                return None
        return None

    def regex_call(self, e):
        """re.<op>(P, a, b..) or <compiled>.<op>(a, b..) -> (Regex|None, op, [arg exprs]) ; None if not a regex call"""
        if not (isinstance(e, ast.Call) and isinstance(e.func, ast.Attribute)) or e.func.attr not in ("sub", "match", "search", "fullmatch"):
            return None
        base = e.func.value
        if isinstance(base, ast.Name) and base.id == "re":
            if not e.args:
                return None
            return self.regex_of(e.args[0]), e.func.attr, list(e.args[1:]), bool(e.keywords)
        c = self.const_expr(base)
        if isinstance(c, ast.Call) and dotted(c.func) == "re.compile" and c.args:
            plain = len(c.args) == 1 and not c.keywords
            return (self.regex_of(c.args[0]) if plain else None), e.func.attr, list(e.args), bool(e.keywords)
        return None

    # ---- calls ---------------------------------------------------------------
    def call(self, e, st, stmt):
        d = dotted(e.func)
        args = e.args
        if d == "len" and len(args) == 1:
            v = self.ev(args[0], st, stmt)
            if isinstance(v, S) and v.exact is not None:
                return I(v.exact)
            return I()
        if d == "str" and len(args) == 1:
            v = self.ev(args[0], st, stmt)
            return v if isinstance(v, S) else self.as_str(v)
        if d in ("max", "min") and len(args) == 2 and not e.keywords:
            a, b = self.ev(args[0], st, stmt), self.ev(args[1], st, stmt)
            if d == "max" and isinstance(a, I) and isinstance(b, I) and a.val is not None and b.val is not None:
                return I(a.val | b.val)
            return I()
        rc = self.regex_call(e)
        if rc is not None:
            rx, rop, rargs, haskw = rc
            if rop == "sub" and len(rargs) >= 2:
                return self.re_sub(e, rx, rargs, haskw, st, stmt)
            return Top("match")
        if d == "os.path.split" and len(args) == 1:
            v = self.ev(args[0], st, stmt)
            if isinstance(v, S) and v.tag == "param0":
                base = S(FULL - CharSet.of("/"), FULL - CharSet.of("/"), False, None, None)
                return Tup((PathDir(), self.derived(base, stmt, [], None)))
            return Tup((Top("dir"), S()))
        if d == "os.path.dirname" and len(args) == 1:
            v = self.ev(args[0], st, stmt)
            if isinstance(v, PathDir):
                return NotDir("it is the parent of the input's directory ('/some/dir/name' -> '/some')")
            return PathDir() if isinstance(v, S) and v.tag == "param0" else Top("dir")
        if d == "os.path.basename" and len(args) == 1:
            v = self.ev(args[0], st, stmt)
            if isinstance(v, S):
                return self.derived(S(v.may - CharSet.of("/"), v.last - CharSet.of("/"), False, v.ub, None), stmt, [v], None)
            return S()
        if d == "os.path.join" and len(args) == 2:
            return JoinV(self.ev(args[0], st, stmt), self.ev(args[1], st, stmt))
        if d == "os.path.splitext" and len(args) == 1:
            v = self.ev(args[0], st, stmt)
            if isinstance(v, S):
                return self.split_parts(v, CharSet.of("."), stmt, keep_sep_in_last=True)
            return Tup((S(), S()))
        if d in INFINITE_ITER:
            return Seq((I(),), True)
        if d == "range":
            return Seq((I(),))
        if d == "itertools.chain":
            el, inf = [], False
            for a in args:
                v = self.ev(a, st, stmt)
                if isinstance(v, Seq):
                    el += [x for x in v.elems if x not in el]
                    inf = inf or v.infinite
                elif isinstance(v, Tup):
                    el += [x for x in v.items if x not in el]
                else:
                    return v if isinstance(v, Top) and v.what.startswith("call ") else Top("chain")
            return Seq(tuple(el), inf)
        if d == "next" and args:
            v = self.ev(args[0], st, stmt)
            if isinstance(v, Seq) and v.elems:
                alts = list(v.elems) + ([self.ev(args[1], st, stmt)] if len(args) > 1 else [])
                return Fork(tuple(alts)) if len(alts) > 1 else alts[0]
            return v if isinstance(v, Top) and v.what.startswith("call ") else Top("next")
        if d in ("list", "tuple", "iter") and len(args) == 1:
            v = self.ev(args[0], st, stmt)
            return v if isinstance(v, (Seq, Tup)) else (v if isinstance(v, Top) and v.what.startswith("call ") else Top(d))
        if isinstance(e.func, ast.Attribute):
            recv = e.func.value
            meth = e.func.attr
            if isinstance(recv, ast.Constant) and isinstance(recv.value, str) and meth == "format":
                vals = [self.ev(a, st, stmt) for a in args]
                kw = {k.arg: self.ev(k.value, st, stmt) for k in e.keywords if k.arg}
                self.site("concat", e)
                allv = vals + list(kw.values())
                acc = self.format_pieces(recv.value, vals, kw)
                return self.derived(acc, stmt, allv, None, self.concat_kind(allv), self.last_pieces)
            x = self.ev(recv, st, stmt)
            if isinstance(x, S):
                return self.str_method(x, meth, e, st, stmt)
            if isinstance(x, Top) and x.what.startswith("call "):
                return x
        # helper of the same module: interpreted on the abstract arguments (all paths, loops included)
        if isinstance(e.func, ast.Name) and e.func.id in self.funcs and e.func.id not in st.env:
            return self.call_function(e, self.funcs[e.func.id], st, stmt)
        # unknown call: value unknown; if it ends up in the returned name the analysis gives up (exit 2)
        return Top("call " + (d or "?"))

    def call_function(self, call, fnode, st, stmt):
        name = fnode.name
        if len(self.frames) > 4 or any(f.fnode is fnode for f in self.frames):
            return Top("call " + name)
        if any(isinstance(n, (ast.Yield, ast.YieldFrom)) for n in walk_no_nested(fnode)):
            return Top("call " + name)
        a = fnode.args
        params = [x.arg for x in a.posonlyargs + a.args]
        if a.vararg or a.kwarg or any(isinstance(x, ast.Starred) for x in call.args) or len(call.args) > len(params):
            return Top("call " + name)
        env = {}
        defaults = dict(zip(reversed(params), reversed(a.defaults)))
        kws = {k.arg: k.value for k in call.keywords if k.arg}
        for i, p in enumerate(params):
            if i < len(call.args):
                env[p] = self.ev(call.args[i], st, stmt)
            elif p in kws:
                env[p] = self.ev(kws[p], st, stmt)
            elif p in defaults:
                env[p] = self.ev(defaults[p], State({}), stmt)
            else:
                return Top("call " + name)
        self.site("helpers", fnode)
        fr = Frame(fnode)
        self.frames.append(fr)
        saved_loop = self.in_loop
        self.in_loop = 0
        try:
            rest = self.block(fnode.body, [State(env, frozenset(), st.bounds)])
        finally:
            self.frames.pop()
            self.in_loop = saved_loop
            self.atoms.ctx = dict(st.bounds)
        vals = [v for _s, _n, v in fr.returns] + [Top("None") for _ in rest]
        vals = list(dict.fromkeys(vals))
        if not vals:
            return Top("None")
        return vals[0] if len(vals) == 1 else Fork(tuple(vals))

    def comprehension(self, e, st, stmt):
        if len(e.generators) != 1 or not isinstance(e.generators[0].target, ast.Name):
            return Top("comprehension")
        g = e.generators[0]
        it = self.ev(g.iter, st, stmt)
        if isinstance(it, Tup):
            it = Seq(it.items)
        if not isinstance(it, Seq):
            return it if isinstance(it, Top) and it.what.startswith("call ") else Top("comprehension")
        var = g.target.id
        probe_dir = None
        for c in g.ifs:
            p = self.probe_of(c)
            if p and p[0] == "absent" and isinstance(p[2], ast.Name) and p[2].id == var:
                sub = st.copy()
                sub.env[var] = S()
                probe_dir = self.ev(p[1], sub, stmt)
        out = []
        for el in it.elems:
            sub = st.copy()
            sub.env[var] = el
            v = self.ev(e.elt, sub, stmt)
            if probe_dir is not None and isinstance(v, S) and isinstance(e.elt, ast.Name) and e.elt.id == var:
                v = dc_replace(v, fresh=probe_dir)
                self.site("uniq_loops", e)
            if v not in out:
                out.append(v)
        return Seq(tuple(out), it.infinite and not g.ifs)

    def str_method(self, x, meth, e, st, stmt):
        args = e.args
        if meth in ("rsplit", "split") and len(args) == 2 and isinstance(args[0], ast.Constant) and isinstance(args[0].value, str) \
                and args[0].value and isinstance(args[1], ast.Constant) and args[1].value == 1:
            if len(args[0].value) == 1:
                return self.split_parts(x, CharSet.of(args[0].value), stmt, right=(meth == "rsplit"))
            return Tup((self.sub_any(x, stmt), self.sub_any(x, stmt)))
        sepv = self.ev(args[0], st, stmt) if len(args) >= 1 else None
        if x.tag == "param0" and meth in ("rpartition", "rsplit") and isinstance(sepv, S) and sepv.exact == ONE and sepv.may and sepv.may.issubset(SEPS) \
                and (meth == "rpartition" and len(args) == 1 or meth == "rsplit" and len(args) == 2 and isinstance(args[1], ast.Constant) and args[1].value == 1):
            # textual split of the input path at its last separator: the head is NOT os.path.dirname for a file directly below the root
            head = NotDir("the text before the last separator is '' for a file directly below the root ('/name'), where the directory is '/': "
                          "os.path.join('', name) is a relative path")
            base = self.derived(S(FULL - sepv.may, FULL - sepv.may, False, None, None), stmt, [], None)
            whole = self.derived(S(FULL - sepv.may, FULL - sepv.may, False, None, None), stmt, [], None)
            if meth == "rsplit":
                return Tup((head, base))
            return Fork((Tup((head, sepv, base)), Tup((PathDir(), const_str(""), whole))))
        if meth in ("rpartition", "partition") and len(args) == 1 and isinstance(args[0], ast.Constant) and isinstance(args[0].value, str) and len(args[0].value) == 1:
            sep = args[0].value
            head, tail = self.split_parts(x, CharSet.of(sep), stmt, right=(meth == "rpartition")).items
            empty = const_str("")
            found = Tup((head, const_str(sep), tail))
            notfound = Tup((empty, empty, x)) if meth == "rpartition" else Tup((x, empty, empty))
            known = self.contains(x, sep, st)
            if known is True:
                return found
            if known is False:
                return notfound
            return Fork((found, notfound))
        if meth in ("rfind", "find", "index", "rindex", "count"):
            return I()
        if meth == "translate" and len(args) == 1 and not e.keywords:
            tab = self.translate_table(args[0], st, stmt)
            if tab is None:
                return Top("call str.translate")
            out = x
            for cs, r in tab:
                self.site("char_cleaners", e)
                out = self.char_sub(out, cs, r, stmt)
            return out
        if meth in ("rstrip", "strip") and len(args) <= 1:
            if not args:
                cs = RL.category_set("CATEGORY_SPACE", False)
            elif isinstance(args[0], ast.Constant) and isinstance(args[0].value, str):
                cs = CharSet.of(args[0].value)
            else:
                return self.sub_any(x, stmt)
            self.site("tail_cleaners", e)
            return self.derived(S(x.may, x.may - cs, False, x.ub, None), stmt, [x], "tail", "tail-cleaner")
        if meth == "replace" and len(args) == 2 and all(isinstance(a, ast.Constant) and isinstance(a.value, str) for a in args) and len(args[0].value) == 1:
            return self.char_sub(x, CharSet.of(args[0].value), const_str(args[1].value), stmt)
        if meth in ("lower", "upper", "casefold", "title", "swapcase", "capitalize"):
            return self.derived(S(FULL if x.may != CharSet.EMPTY else x.may, FULL, x.nonempty, None, None), stmt, [x], None)
        if meth == "lstrip":
            return self.derived(S(x.may, x.last, False, x.ub, None), stmt, [x], None)
        if meth in ("startswith", "endswith", "isdigit", "isalpha"):
            return Top("bool")
        return Top("call str." + meth)  # a method this analysis does not model: undecided, never a verdict

    def fold_codepoints(self, e, depth=0):
        """constant set of code points: [ord(c) for c in 'lit'], list(range(..)), literals, +, module constants"""
        if depth > 6:
            return None
        e = self.const_expr(e)
        if isinstance(e, ast.Constant) and type(e.value) is int:
            return {e.value}
        if isinstance(e, ast.Constant) and isinstance(e.value, str):
            return {ord(c) for c in e.value}
        if isinstance(e, ast.Call) and dotted(e.func) == "ord" and len(e.args) == 1:
            a = self.const_expr(e.args[0])
            if isinstance(a, ast.Constant) and isinstance(a.value, str) and len(a.value) == 1:
                return {ord(a.value)}
            return None
        if isinstance(e, (ast.List, ast.Tuple, ast.Set)):
            out = set()
            for x in e.elts:
                v = self.fold_codepoints(x, depth + 1) if not (isinstance(x, ast.Constant) and isinstance(x.value, str)) else None
                if v is None:
                    return None
                out |= v
            return out
        if isinstance(e, ast.BinOp) and isinstance(e.op, (ast.Add, ast.BitOr)):
            a, b = self.fold_codepoints(e.left, depth + 1), self.fold_codepoints(e.right, depth + 1)
            return a | b if a is not None and b is not None else None
        if isinstance(e, ast.Call) and dotted(e.func) in ("list", "set", "tuple", "frozenset", "sorted") and len(e.args) == 1:
            return self.fold_codepoints(e.args[0], depth + 1)
        if isinstance(e, ast.Call) and dotted(e.func) == "range" and 1 <= len(e.args) <= 2 and not e.keywords:
            b = [self.const_expr(a) for a in e.args]
            if all(isinstance(a, ast.Constant) and type(a.value) is int for a in b):
                return set(range(*[a.value for a in b]))
            return None
        if isinstance(e, ast.Call) and dotted(e.func) == "map" and len(e.args) == 2 and dotted(e.args[0]) == "ord":
            a = self.const_expr(e.args[1])
            return {ord(c) for c in a.value} if isinstance(a, ast.Constant) and isinstance(a.value, str) else None
        if isinstance(e, (ast.ListComp, ast.SetComp, ast.GeneratorExp)) and len(e.generators) == 1 and not e.generators[0].ifs \
                and isinstance(e.generators[0].target, ast.Name):
            g = e.generators[0]
            src = self.const_expr(g.iter)
            if isinstance(e.elt, ast.Call) and dotted(e.elt.func) == "ord" and len(e.elt.args) == 1 and isinstance(e.elt.args[0], ast.Name) \
                    and e.elt.args[0].id == g.target.id and isinstance(src, ast.Constant) and isinstance(src.value, str):
                return {ord(c) for c in src.value}
            if isinstance(e.elt, ast.Name) and e.elt.id == g.target.id:
                return self.fold_codepoints(g.iter, depth + 1)
        return None

    def translate_table(self, e, st, stmt):
        """str.translate table with one replacement for a constant set of characters -> [(CharSet, replacement S)] or None"""
        e = self.const_expr(e)
        if isinstance(e, ast.Call) and dotted(e.func) == "str.maketrans" and len(e.args) == 1:
            e = self.const_expr(e.args[0])
        cps, rep = None, None
        if isinstance(e, ast.Call) and dotted(e.func) == "dict.fromkeys" and 1 <= len(e.args) <= 2:
            cps = self.fold_codepoints(e.args[0])
            rep = e.args[1] if len(e.args) == 2 else ast.Constant(None)
        elif isinstance(e, ast.DictComp) and len(e.generators) == 1 and not e.generators[0].ifs and isinstance(e.generators[0].target, ast.Name):
            g = e.generators[0]
            keys = ast.ListComp(elt=e.key, generators=e.generators)
            cps = self.fold_codepoints(keys)
            rep = e.value
            if any(isinstance(n, ast.Name) and n.id == g.target.id for n in ast.walk(rep)):
                return None
        if cps is None or rep is None or any(not (0 <= c <= 0x10FFFF) for c in cps):
            return None
        if isinstance(rep, ast.Constant) and rep.value is None:
            r = const_str("")
        else:
            r = self.ev(rep, st, stmt)
        if not isinstance(r, S):
            return None
        return [(CharSet((c, c) for c in cps), r)]

    def sub_any(self, x, stmt):
        return self.derived(S(x.may, x.may, False, x.ub, self.fresh_exact("len(part)", x.ub, stmt)), stmt, [x], None)

    def split_parts(self, x, sep, stmt, right=True, keep_sep_in_last=False):
        """(head, tail) of x split once at `sep`"""
        self.site("splits", stmt)
        hx = self.fresh_exact("len(head)", x.ub, stmt)
        head = S(x.may, x.may, False, x.ub if x.ub is not None else hx, hx)
        if right:
            t_may = x.may if keep_sep_in_last else (x.may - sep)
            t_last = x.last if keep_sep_in_last else (x.last - sep)
            t_nonempty = not (x.last & sep) if not keep_sep_in_last else False
            tail = S(t_may, t_last, t_nonempty and x.nonempty or (t_nonempty and not keep_sep_in_last), x.ub, None)
        else:
            tail = S(x.may, x.last, False, x.ub, None)
        tx = self.fresh_exact("len(ext)" if right else "len(rest)", x.ub, stmt)
        tail = dc_replace(tail, exact=tx, ub=tail.ub if tail.ub is not None else tx)
        return Tup((self.derived(head, stmt, [x], None, "split"), self.derived(tail, stmt, [x], None, "split")))

    def keeps_len(self, r):
        m = mx_max(r.ub, self.atoms) if r.ub is not None else None
        return m is not None and m <= 1

    def char_sub(self, x, cs, r, stmt):
        """every character of cs in x is replaced by r"""
        hit = bool(x.may & cs)
        may = (x.may - cs) | (r.may if hit else CharSet.EMPTY)
        if not (x.last & cs):
            last = x.last
        elif r.nonempty:
            last = (x.last - cs) | r.last
        else:
            last = may
        k = self.keeps_len(r)
        return self.derived(S(may, last, x.nonempty and r.nonempty, x.ub if k else None, x.exact if (k and r.nonempty) else None), stmt, [x], "chars", "char-cleaner")

    def re_sub(self, e, rx, rargs, haskw, st, stmt):
        x = self.ev(rargs[1], st, stmt)
        r = self.ev(rargs[0], st, stmt)
        if not isinstance(x, S):
            return self.as_str(x)
        if not isinstance(r, S) or len(rargs) > 2 or haskw or rx is None:
            return Top("call re.sub")  # replacement function / count / flags / non-literal pattern: undecided
        try:
            cs = RL.single_char_language(rx)
            tc = RL.trailing_char_class(rx) if cs is None else None
        except RL.Unsupported:
            cs = tc = None
        if cs is not None:
            self.site("char_cleaners", e)
            return self.char_sub(x, cs, r, stmt)
        if tc is not None:
            self.site("tail_cleaners", e)
            tset, _kind = tc
            may = x.may | (r.may if (x.may & tset) else CharSet.EMPTY)
            if not (x.last & tset):
                last = x.last
            elif r.nonempty:
                last = (x.last - tset) | r.last
            else:
                last = may
            k = self.keeps_len(r)
            return self.derived(S(may, last, x.nonempty and r.nonempty, x.ub if k else None, x.exact if (k and r.nonempty) else None), stmt, [x], "tail", "tail-cleaner")
        return self.derived(S(x.may | r.may, x.may | r.may, False, None, None), stmt, [x], None)

    # ---- statements ----------------------------------------------------------
    def assign(self, st, name, val, stmt):
        if self.in_loop and isinstance(val, I) and val.val is not None and not (isinstance(stmt, ast.Assign) and isinstance(stmt.value, ast.Constant)):
            val = I()  # widening: counters computed inside a loop are unknown
        st.env[name] = val
        if name in st.falsy:
            st.falsy = st.falsy - {name}

    def block(self, stmts, states):
        for s in stmts:
            if not states:
                break
            states = self.stmt(s, states)
        return states

    def dedupe(self, states):
        out, seen = [], set()
        for s in states:
            k = s.key()
            if k not in seen:
                seen.add(k)
                out.append(s)
        if len(out) > 3000:
            _err("more than 3000 abstract path states (outside the fragment)")
        return out

    def bind_target(self, st, target, v, stmt):
        if isinstance(target, ast.Name):
            self.assign(st, target.id, v, stmt)
        elif isinstance(target, (ast.Tuple, ast.List)) and all(isinstance(x, ast.Name) for x in target.elts):
            items = v.items if isinstance(v, Tup) and len(v.items) == len(target.elts) else [Top("unpack")] * len(target.elts)
            if isinstance(v, Top) and v.what.startswith("call "):
                items = [v] * len(target.elts)
            for x, iv in zip(target.elts, items):
                self.assign(st, x.id, iv, stmt)
        else:
            _err("assignment target %s is outside the fragment" % norm(target))

    def stmt(self, s, states):
        if isinstance(s, ast.Expr):
            return states  # docstring / call for effect: strings are immutable, nothing tracked changes
        if isinstance(s, (ast.Assign, ast.AnnAssign)):
            out = []
            targets = s.targets if isinstance(s, ast.Assign) else [s.target]
            if isinstance(s, ast.AnnAssign) and s.value is None:
                return states
            for st in states:
                self.atoms.ctx = dict(st.bounds)
                v = self.evf(s.value, st, s)
                for alt in (v.alts if isinstance(v, Fork) else (v,)):
                    st2 = st.copy()
                    for t in targets:
                        self.bind_target(st2, t, alt, s)
                    out.append(st2)
            return self.dedupe(out)
        if isinstance(s, ast.AugAssign):
            if not isinstance(s.target, ast.Name):
                _err("augmented assignment to %s is outside the fragment" % norm(s.target))
            out = []
            for st in states:
                self.atoms.ctx = dict(st.bounds)
                st = st.copy()
                fake = ast.BinOp(left=ast.Name(id=s.target.id, ctx=ast.Load()), op=s.op, right=s.value)
                self.assign(st, s.target.id, self.ev(fake, st, s), s)
                out.append(st)
            return self.dedupe(out)
        if isinstance(s, ast.If):
            t_states, f_states = [], []
            for st in states:
                a, b = self.branch(s.test, st, s)
                t_states += a
                f_states += b
            return self.dedupe(self.block(s.body, self.dedupe(t_states)) + self.block(s.orelse, self.dedupe(f_states)))
        if isinstance(s, (ast.While, ast.For)):
            return self.loop(s, states)
        if isinstance(s, ast.Return):
            fr = self.frames[-1]
            for st in states:
                self.atoms.ctx = dict(st.bounds)
                v = self.evf(s.value, st, s) if s.value is not None else Top("None")
                for alt in (v.alts if isinstance(v, Fork) else (v,)):
                    fr.returns.append((st, s, alt))
            return []
        if isinstance(s, ast.Break):
            if not self.frames[-1].loops:
                _err("break outside a loop")
            self.frames[-1].loops[-1]["breaks"] += states
            return []
        if isinstance(s, ast.Continue):
            if not self.frames[-1].loops:
                _err("continue outside a loop")
            self.frames[-1].loops[-1]["continues"] += states
            return []
        if isinstance(s, ast.Raise):
            return []
        if isinstance(s, (ast.Pass, ast.Import, ast.ImportFrom)):
            return states
        _err("statement `%s` is outside the analysable fragment" % norm(s)[:60])

    # ---- character membership (relational, per path) ------------------------------
    def contains(self, v, c, st):
        """does the string certainly (True) / certainly not (False) contain c on this path; None = unknown"""
        if c in v.must:
            return True
        if c not in v.may:
            return False
        for t, ch, b in st.mem:
            if t == v.tok and ch == c and t:
                return b
        ps = self.pieces.get(v.tok)
        if ps:
            rs = [self.contains(x, c, st) for x in ps]
            if any(r is True for r in rs):
                return True
            if all(r is False for r in rs):
                return False
        return None

    def open_leaves(self, v, c, st, out):
        ps = self.pieces.get(v.tok)
        if ps:
            for x in ps:
                if self.contains(x, c, st) is None:
                    self.open_leaves(x, c, st, out)
        elif v.tok and v.tok not in [o.tok for o in out]:
            out.append(v)
        elif not v.tok:
            out.append(v)

    def learn(self, st, tok, c, b):
        if not tok:
            return
        st.mem = st.mem | {(tok, c, b)}
        cs = CharSet.of(c)
        for k, val in list(st.env.items()):
            if isinstance(val, S) and val.tok == tok:
                st.env[k] = dc_replace(val, must=val.must | cs) if b else dc_replace(val, may=val.may - cs, last=val.last - cs)

    # ---- conditions ------------------------------------------------------------
    def probe_of(self, test):
        """[not] os.path.isfile|exists(os.path.join(d, n)) -> ('present'|'absent', d expr, n expr)"""
        neg = False
        while isinstance(test, ast.UnaryOp) and isinstance(test.op, ast.Not):
            neg = not neg
            test = test.operand
        if isinstance(test, ast.Call) and dotted(test.func) in PROBES and len(test.args) == 1:
            j = test.args[0]
            if isinstance(j, ast.Call) and dotted(j.func) == "os.path.join" and len(j.args) == 2:
                return ("absent" if neg else "present", j.args[0], j.args[1])
        return None

    def refine_int(self, st, d, op):
        """d <op> 0 holds on this path; d = c + k*a with a single atom: tighten the upper bound of a"""
        if d is None or len(d) != 1:
            return
        c, terms = next(iter(d))
        if len(terms) != 1:
            return
        a, k = terms[0]
        hi = None
        # k*a <op> -c
        if op == ">" and k < 0:      # a < c/|k|
            hi = (c // (-k)) - (1 if c % (-k) == 0 else 0)
        elif op == ">=" and k < 0:   # a <= c/|k|
            hi = c // (-k)
        elif op == "<" and k > 0:    # a < -c/k
            hi = ((-c) // k) - (1 if (-c) % k == 0 else 0)
        elif op == "<=" and k > 0:
            hi = (-c) // k
        if hi is None:
            return
        b = dict(st.bounds)
        cur = self.atoms.hi[a]
        if b.get(a) is not None:
            cur = b[a] if cur is None else min(cur, b[a])
        if cur is None or hi < cur:
            b[a] = hi
            st.bounds = tuple(sorted(b.items()))

    def branch(self, test, st, stmt):
        """-> (states on true, states on false)"""
        self.atoms.ctx = dict(st.bounds)
        if isinstance(test, ast.UnaryOp) and isinstance(test.op, ast.Not):
            a, b = self.branch(test.operand, st, stmt)
            return b, a
        if isinstance(test, ast.BoolOp):
            first, rest = test.values[0], test.values[1:]
            rest_e = rest[0] if len(rest) == 1 else ast.BoolOp(op=test.op, values=rest)
            ta, fa = self.branch(first, st, stmt)
            if isinstance(test.op, ast.And):
                t, f = [], list(fa)
                for s2 in ta:
                    tb, fb = self.branch(rest_e, s2, stmt)
                    t += tb
                    f += fb
                return t, f
            t, f = list(ta), []
            for s2 in fa:
                tb, fb = self.branch(rest_e, s2, stmt)
                t += tb
                f += fb
            return t, f
        if isinstance(test, ast.Name):
            v = st.env.get(test.id)
            if isinstance(v, S):
                if v.exact == ZERO:
                    return [], [st.copy()]
                if v.nonempty:
                    return [st.copy()], []
                return [st.copy()], [st.copy()]
            if test.id in st.falsy:
                return [], [st]
            f = st.copy()
            f.falsy = f.falsy | {test.id}
            return [st.copy()], [f]
        if isinstance(test, ast.Constant):
            return ([st], []) if test.value else ([], [st])
        if isinstance(test, ast.Compare) and len(test.ops) == 1 and isinstance(test.ops[0], (ast.Is, ast.IsNot)) \
                and isinstance(test.comparators[0], ast.Constant) and test.comparators[0].value is None and isinstance(test.left, ast.Call):
            a, b = self.branch(test.left, st, stmt)   # a match object is truthy, None is falsy
            return (b, a) if isinstance(test.ops[0], ast.Is) else (a, b)
        # '<c>' in x : decided where known, otherwise both branches learn it (also about the one piece of a concatenation it depends on)
        if isinstance(test, ast.Compare) and len(test.ops) == 1 and isinstance(test.ops[0], (ast.In, ast.NotIn)) \
                and isinstance(test.left, ast.Constant) and isinstance(test.left.value, str) and len(test.left.value) == 1:
            c = test.left.value
            v = self.ev(test.comparators[0], st, stmt)
            if isinstance(v, S):
                r = self.contains(v, c, st)
                if r is None:
                    t, f = st.copy(), st.copy()
                    leaves = []
                    self.open_leaves(v, c, st, leaves)
                    toks = {x.tok for x in leaves}
                    for state, b in ((t, True), (f, False)):
                        self.learn(state, v.tok, c, b)
                        if len(leaves) == 1 and 0 not in toks:
                            self.learn(state, leaves[0].tok, c, b)
                        elif not b:
                            for x in leaves:
                                self.learn(state, x.tok, c, False)
                    res = ([t], [f])
                else:
                    res = ([st.copy()], []) if r else ([], [st.copy()])
                return res if isinstance(test.ops[0], ast.In) else (res[1], res[0])
        # existence probe: the false branch of isfile(join(d, n)) knows that join(d, n) is not an existing file
        p = self.probe_of(test)
        if p:
            _kind, d_e, n_e = p
            self.site("uniq_loops", test)
            t, f = st.copy(), st.copy()
            if isinstance(n_e, ast.Name) and isinstance(st.env.get(n_e.id), S):
                f.env[n_e.id] = dc_replace(st.env[n_e.id], fresh=self.ev(d_e, st, stmt))
            return [t], [f]
        # regex guard on a one-character string: the false branch knows the string is outside the class
        rc = self.regex_call(test) if isinstance(test, ast.Call) else None
        if rc is not None and rc[1] in ("match", "search", "fullmatch") and len(rc[2]) == 1 and not rc[3] and isinstance(rc[2][0], ast.Name):
            rx, _op, rargs, _kw = rc
            x = st.env.get(rargs[0].id)
            if isinstance(x, S) and x.exact == ONE and rx is not None:
                try:
                    items = rx.top_items()
                    while items and str(items[0][0]) == "AT" and "BEGINNING" in str(items[0][1]):
                        items = items[1:]
                    while items and str(items[-1][0]) == "AT" and "END" in str(items[-1][1]):
                        items = items[:-1]
                    cs = RL.single_char_language(rx, items)
                except RL.Unsupported:
                    cs = None
                if cs is not None:
                    self.site("guards", test)
                    f = st.copy()
                    f.env[rargs[0].id] = dc_replace(x, may=x.may - cs, last=x.last - cs)
                    return [st.copy()], [f]
            return [st.copy()], [st.copy()]
        if isinstance(test, ast.Compare) and len(test.ops) == 1:
            l, r = test.left, test.comparators[0]
            op = type(test.ops[0])
            flip = {ast.Gt: ast.Lt, ast.Lt: ast.Gt, ast.GtE: ast.LtE, ast.LtE: ast.GtE}
            if op in flip:
                if not (isinstance(l, ast.Call) and dotted(l.func) == "len") and isinstance(r, ast.Call) and dotted(r.func) == "len":
                    l, r, op = r, l, flip[op]
                t, f = st.copy(), st.copy()
                done = False
                # len(x) <op> N : bound of the variable itself
                if isinstance(l, ast.Call) and dotted(l.func) == "len" and len(l.args) == 1 and isinstance(l.args[0], ast.Name):
                    name = l.args[0].id
                    x = st.env.get(name)
                    n = self.ev(r, st, stmt)
                    if isinstance(x, S) and isinstance(n, I) and n.val is not None:
                        self.site("refinements", test)
                        done = True

                        def bounded(state, bound):
                            cur = state.env[name]
                            a, b = mx_max(bound, self.atoms), (mx_max(cur.ub, self.atoms) if cur.ub is not None else None)
                            if cur.ub is None or b is None or (a is not None and a < b):
                                fresh = cur.fresh
                                new = self.derived(dc_replace(cur, ub=bound), stmt, [cur], "len", "refine")
                                state.env[name] = dc_replace(new, fresh=fresh)
                        minus1 = mx_add(n.val, ONE, -1)
                        if op is ast.Gt:
                            bounded(f, n.val)
                        elif op is ast.GtE and minus1 is not None:
                            bounded(f, minus1)
                        elif op is ast.LtE:
                            bounded(t, n.val)
                        elif op is ast.Lt and minus1 is not None:
                            bounded(t, minus1)
                # general linear comparison of two ints: tighten the symbolic length it mentions
                lv, rv = self.ev(l, st, stmt), self.ev(r, st, stmt)
                if isinstance(lv, I) and isinstance(rv, I) and lv.val is not None and rv.val is not None and len(lv.val) == 1 and len(rv.val) == 1:
                    d = mx_add(lv.val, rv.val, -1)
                    neg = mx_add(rv.val, lv.val, -1)
                    sym = {ast.Gt: (">", "<="), ast.GtE: (">=", "<"), ast.Lt: ("<", ">="), ast.LtE: ("<=", ">")}[op]
                    self.refine_int(t, d, sym[0])
                    self.refine_int(f, d, sym[1])
                    # the mirrored form catches atoms with the opposite sign
                    mir = {">": "<", ">=": "<=", "<": ">", "<=": ">="}
                    self.refine_int(t, neg, mir[sym[0]])
                    self.refine_int(f, neg, mir[sym[1]])
                    done = True
                if done:
                    return [t], [f]
        return [st.copy()], [st.copy()]

    # ---- loops -------------------------------------------------------------------
    def loop(self, s, states):
        is_for = isinstance(s, ast.For)
        ctxt = dict(breaks=[], continues=[])
        self.frames[-1].loops.append(ctxt)
        head = self.dedupe(states)
        seen = {st.key() for st in head}
        frontier = head
        infinite = False
        self.in_loop += 1
        try:
            for _ in range(10):
                t_states = []
                for st in frontier:
                    self.atoms.ctx = dict(st.bounds)
                    if is_for:
                        it = self.ev(s.iter, st, s)
                        if isinstance(it, Tup):
                            it = Seq(it.items)
                        if isinstance(it, Seq):
                            infinite = it.infinite
                            for el in it.elems:
                                st2 = st.copy()
                                self.bind_target(st2, s.target, el, s)
                                t_states.append(st2)
                        elif isinstance(it, Top) and it.what.startswith("call "):
                            _err("the loop iterates over the result of `%s(...)`, which this analysis cannot interpret" % it.what[5:])
                        else:
                            st2 = st.copy()
                            self.bind_target(st2, s.target, Top("element"), s)
                            t_states.append(st2)
                    else:
                        a, _b = self.branch(s.test, st, s)
                        t_states += a
                after = self.block(s.body, self.dedupe(t_states)) + ctxt["continues"]
                ctxt["continues"] = []
                new = []
                for st in after:
                    k = st.key()
                    if k not in seen:
                        seen.add(k)
                        new.append(st)
                head += new
                frontier = new
                if not new:
                    break
            else:
                _err("loop `%s` does not stabilise in the abstract domain" % norm(s.test if not is_for else s.iter))
        finally:
            self.in_loop -= 1
            self.frames[-1].loops.pop()
        out = []
        if is_for:
            if not infinite:
                out += [st.copy() for st in head]
        else:
            const_true = isinstance(s.test, ast.Constant) and bool(s.test.value)
            if not const_true:
                for st in head:
                    _a, b = self.branch(s.test, st, s)
                    out += b
        out = self.block(s.orelse, self.dedupe(out)) if s.orelse else out
        return self.dedupe(out + ctxt["breaks"])


# ---------------------------------------------------------------------------
def analyse(fnode, sink, module=None):
    """run the interpreter and report the five facts"""
    it = Interp(fnode, sink, module)
    for n in fnode.body:
        if isinstance(n, (ast.FunctionDef, ast.AsyncFunctionDef, ast.ClassDef)):
            _err("nested definitions are outside the fragment")
    rest = it.block(fnode.body, [it.initial()])
    returns = list(it.frames[0].returns)
    if rest:
        returns += [(st, fnode, Top("None")) for st in rest]
    if not returns:
        _err("no return statement reached")
    notes = {id(s): w for s, w in it.notes}
    failures = {f: {} for f in FACTS}   # fact -> construct -> (node, message)
    npaths = 0
    for st, rnode, val in returns:
        npaths += 1
        it.atoms.ctx = dict(st.bounds)
        if isinstance(val, S) and not isinstance(rnode, ast.FunctionDef):
            failures["dir"].setdefault(canon(rnode, fnode), (rnode, "the function returns %s, not os.path.join(<directory of the input>, <name>)" % norm(rnode.value)))
            name, dval = val, None
        elif isinstance(val, JoinV) and isinstance(val.name, S):
            name, dval = val.name, val.d
            if isinstance(dval, NotDir):
                failures["dir"].setdefault(canon(rnode, fnode), (rnode, "`%s`: the directory argument is not the directory of the input path: %s" % (norm(rnode), dval.why)))
            elif isinstance(dval, S) and dval.tag == "param0":
                failures["dir"].setdefault(canon(rnode, fnode), (rnode, "`%s`: the name is joined onto the whole input path, not onto its directory" % norm(rnode)))
            elif not isinstance(dval, PathDir):
                _err("the directory argument of `%s` is a value this analysis cannot relate to the input's directory (%s)"
                     % (norm(rnode)[:80], getattr(dval, "what", type(dval).__name__)))
            elif name.may & SEPS:
                failures["dir"].setdefault(canon(rnode, fnode), (rnode, "`%s`: the name can contain a path separator, so the result can leave the input's directory" % norm(rnode)))
        else:
            inner = val.name if isinstance(val, JoinV) else val
            if isinstance(inner, Top) and inner.what.startswith("call "):
                _err("the result of `%s(...)`, which this analysis cannot interpret, flows into the returned name (outside the fragment)" % inner.what[5:])
            _err("returned value `%s` is outside the fragment (not a name string / os.path.join(dir, name))" % norm(rnode)[:80])
        f = it.facts(name)
        for fact in ("chars", "tail", "len"):
            if f[fact]:
                continue
            node, attempt_only, owner, kind = _blame(name, fact, rnode, fnode)
            msg = _message(fact, name, node, attempt_only, it, notes)
            failures[fact].setdefault(_construct(node, owner, kind, fact, attempt_only), (node, msg))
        if not ("unique" in st.falsy or (dval is not None and name.fresh is not None and name.fresh == dval)):
            if name.hist:
                node, owner = name.hist[-1][0], name.hist[-1][3]
                msg = ("`%s` produces the returned name and no `os.path.isfile` test of the result follows it -- with unique=True the returned path "
                       "was never tested against existing files" % norm(node))
            else:
                node, owner = rnode, fnode
                msg = "with unique=True the returned path is not tested against existing files"
            failures["unique"].setdefault(canon(node, owner) if not isinstance(node, ast.FunctionDef) else "return", (node, msg))
    return it, failures, npaths


def _blame(v: S, fact, rnode, fnode):
    h = v.hist
    i = len(h) - 1
    while i >= 0 and not h[i][1][fact]:
        i -= 1
    if i >= 0 and i + 1 < len(h):
        return h[i + 1][0], False, h[i + 1][3], h[i + 1][4]
    # never established on this path: blame the first statement that tries to establish it
    for stmt, facts, att, owner, kind in h:
        if fact in att:
            return stmt, True, owner, kind
    return rnode, True, fnode, "other"


def _construct(node, owner, kind, fact, attempt_only):
    """finding key: the meaning of the offending step where it has one, else the rename-proof statement text"""
    if kind == "append-counter" and fact == "len" and not attempt_only:
        return "<name cut to the limit> + str(<counter>) [+ extension]"
    return canon(node, owner) if not isinstance(node, ast.FunctionDef) else "return"


def _message(fact, v, node, attempt_only, it, notes):
    src = norm(node)
    extra = notes.get(id(node))
    if fact == "chars":
        bad = v.may & RESERVED
        if attempt_only:
            return "`%s` does not remove every reserved/control character: %s can remain in the returned name" % (src, bad.describe())
        return "`%s` can (re)introduce reserved/control characters %s into the returned name" % (src, bad.describe())
    if fact == "tail":
        bad = v.last & TAIL_BAD
        if attempt_only:
            return "`%s` does not guarantee that the name does not end with %s" % (src, bad.describe())
        return "`%s` runs after the trailing space/dot was cleaned and can expose %s as the last character again" % (src, bad.describe())
    if fact == "len":
        m = mx_max(v.ub, it.atoms) if v.ub is not None else None
        bound = "unbounded" if m is None else "<= %s" % m
        if extra:
            return "`%s`: %s (returned length %s, limit %d)" % (src, extra, bound, MAXLEN)
        if attempt_only:
            return "`%s` does not bound the returned name to %d characters (length %s)" % (src, MAXLEN, bound)
        return "`%s` lengthens the name after it was cut to %d characters (returned length %s)" % (src, MAXLEN, bound)
    return src


def canon(node, fnode):
    """rename-proof text of a statement: locals of the function are numbered in order of appearance inside the
    statement (v1, v2, ...), single-assignment literal locals are replaced by their value; parameters keep their names"""
    if not isinstance(node, ast.AST):
        return norm(node)
    stores, consts = {}, {}
    for n in walk_no_nested(fnode):
        if isinstance(n, ast.Name) and isinstance(n.ctx, ast.Store):
            stores[n.id] = stores.get(n.id, 0) + 1
    for n in walk_no_nested(fnode):
        if isinstance(n, ast.Assign) and len(n.targets) == 1 and isinstance(n.targets[0], ast.Name) and stores.get(n.targets[0].id) == 1 \
                and isinstance(n.value, ast.Constant) and type(n.value.value) in (int, str):
            consts[n.targets[0].id] = n.value.value
    params = {a.arg for a in fnode.args.posonlyargs + fnode.args.args + fnode.args.kwonlyargs}
    if isinstance(node, (ast.If, ast.While)):
        node = node.test
    t = ast.parse(ast.unparse(node)).body[0]
    names = {}

    class R(ast.NodeTransformer):
        def visit_Name(self, n):
            if n.id in params or n.id not in stores:
                return n
            if n.id in consts and isinstance(n.ctx, ast.Load):
                return ast.copy_location(ast.Constant(consts[n.id]), n)
            if n.id not in names:
                names[n.id] = "v%d" % (len(names) + 1)
            return ast.copy_location(ast.Name(names[n.id], n.ctx), n)
    t = R().visit(t)
    return norm(t)


class Sink:
    def __init__(self, ctx=None, func=None):
        self.ctx = ctx
        self.func = func
        self.failed = {}

    def check(self, rule, instance, ok, construct, message, node=None, detail=""):
        if not ok:
            self.failed[(rule, norm(construct))] = message
        if self.ctx is not None:
            self.ctx.check(rule, instance, ok, self.func, construct, message, node=node, detail=detail)


def core(sink, fnode, module=None):
    it, failures, npaths = analyse(fnode, sink, module)
    for fact in FACTS:
        bad = failures[fact]
        if not bad:
            sink.check("fact/" + fact, "%s holds at every return" % fact, True, "return", "",
                       detail="%s established on all %d abstract return paths" % (fact, npaths))
        for construct, (node, msg) in bad.items():
            sink.check("fact/" + fact, "%s: %s" % (fact, construct[:60]), False, construct, msg, node=node)
    return it, failures, npaths


# ---------------------------------------------------------------------------
def run(ctx):
    ctx.explanation = __doc__
    m = ctx.mod(MISC)
    f = m.func("clean_file_name")
    ctx.analysed(f)
    ctx.require(m.imports.get("re") == ("re", None) and m.imports.get("os") == ("os", None), "`re`/`os` are not the standard modules in misc.py")
    sink = Sink(ctx, f)
    helpers = dict(funcs={k: v.node for k, v in m.functions.items() if "." not in k and k != f.name}, consts=dict(m.assigns))
    it, failures, npaths = core(sink, f.node, helpers)
    for k, v in it.stats.items():
        ctx.count(k, v)
    ctx.count("return_paths", npaths)
    ctx.floor("return_paths", 8)
    ctx.floor("char_cleaners", 1)
    ctx.floor("tail_cleaners", 1)
    ctx.floor("cuts", 2)
    ctx.floor("guards", 1)
    ctx.floor("uniq_loops", 1)
    ctx.assume("`replace` is a single character (documented as 'replacement character', default '_'); "
               "re.match(<class>, replace) therefore tests the whole replacement")
    ctx.assume("reserved set: < > : \" / \\ | ? * and U+0000-U+001F; limit 230 = PATH_MAX_LENGTH of the function")
    if 0x7F not in RESERVED:
        ctx.note("DEL (0x7f) and C1 controls are not in the cleaned class; the property's reserved set as fixed in DESIGN does not include them (noted, not flagged)")
    ctx.note("not decided: reserved DOS device names (CON, PRN, ...), an empty resulting name, os.path.isfile race between test and use")
    if ctx.tier == "thorough":
        _thorough(ctx, f.node, sink, helpers)


# ---------------------------------------------------------------------------
def _clone(fnode):
    return ast.parse(ast.unparse(fnode)).body[0]


def _find(fnode, pred):
    return [n for n in ast.walk(fnode) if pred(n)]


def _mutants(fnode):
    out = []

    def const_edit(label, match, new, breaking):
        t = _clone(fnode)
        hits = [n for n in ast.walk(t) if isinstance(n, ast.Constant) and isinstance(n.value, str) and match(n.value)]
        if hits:
            hits[-1].value = new(hits[-1].value)
            out.append((label, t, breaking))

    # character class loses a reserved character (the substitution pattern, i.e. the one without ' .')
    is_sub_class = lambda v: v.startswith("[<>") and " ." not in v
    const_edit("chars: '?' dropped from the cleaned class", is_sub_class, lambda v: v.replace("?", ""), True)
    const_edit("chars: control range shortened to \\x00-\\x1e", is_sub_class, lambda v: v.replace("\\x1f", "\\x1e"), True)
    const_edit("chars: class spelled with escapes", is_sub_class, lambda v: v.replace("<>", "\\x3c\\x3e"), False)
    is_guard = lambda v: v.startswith("[<>") and " ." in v
    const_edit("guard: '/' allowed as replacement", is_guard, lambda v: v.replace("/", ""), True)
    const_edit("guard: '.' allowed as replacement", is_guard, lambda v: v.replace(" .", " "), True)
    is_tail = lambda v: v.endswith("]$") and "<" not in v
    const_edit("tail: only the dot is cleaned", is_tail, lambda v: "[.]$", True)
    const_edit("tail: \\Z instead of $", is_tail, lambda v: v[:-1] + "\\Z", False)
    const_edit("tail: anchored at the start instead of the end", is_tail, lambda v: "^" + v[:-1], True)

    def stmt_edit(label, fn, breaking):
        t = _clone(fnode)
        if fn(t):
            ast.fix_missing_locations(t)
            out.append((label, t, breaking))

    def swap_cleaners(t):
        subs = [i for i, s in enumerate(t.body) if isinstance(s, ast.Assign) and isinstance(s.value, ast.Call) and dotted(s.value.func) == "re.sub"]
        if len(subs) >= 2 and subs[1] == subs[0] + 1:  # only when the two cleaners are adjacent is the swap behaviour-preserving
            i, j = subs[0], subs[1]
            t.body[i], t.body[j] = t.body[j], t.body[i]
            return True
    stmt_edit("tail cleaner before the character cleaner", swap_cleaners, False)

    def drop_char_cleaner(t):
        subs = [i for i, s in enumerate(t.body) if isinstance(s, ast.Assign) and isinstance(s.value, ast.Call) and dotted(s.value.func) == "re.sub"]
        if subs:
            del t.body[subs[0]]
            return True
    stmt_edit("character cleaner removed", drop_char_cleaner, True)

    def cleaner_on_other_var(t):
        for s in t.body:
            if isinstance(s, ast.Assign) and isinstance(s.value, ast.Call) and dotted(s.value.func) == "re.sub":
                s.targets = [ast.Name("cleaned", ast.Store())]
                return True
    stmt_edit("character cleaner result discarded", cleaner_on_other_var, True)

    def return_bare(t):
        for n in ast.walk(t):
            if isinstance(n, ast.Return) and isinstance(n.value, ast.Call) and dotted(n.value.func) == "os.path.join":
                n.value = n.value.args[1]
                return True
    stmt_edit("returns the bare name", return_bare, True)

    def join_input(t):
        for n in ast.walk(t):
            if isinstance(n, ast.Return) and isinstance(n.value, ast.Call) and dotted(n.value.func) == "os.path.join":
                n.value.args[0] = ast.Name(t.args.args[0].arg, ast.Load())
                return True
    stmt_edit("joins onto the full input path", join_input, True)

    def suffix_after_loop(t):
        for i, s in enumerate(t.body):
            if isinstance(s, ast.Return):
                t.body.insert(i, ast.parse("fname = fname + '~'").body[0])
                return True
    stmt_edit("suffix appended after the uniqueness loop", suffix_after_loop, True)

    def loop_to_if(t):
        for n in ast.walk(t):
            for fld in ("body", "orelse"):
                b = getattr(n, fld, None)
                if isinstance(b, list):
                    for i, s in enumerate(b):
                        if isinstance(s, ast.While):
                            b[i] = ast.If(test=s.test, body=s.body, orelse=[])
                            return True
    stmt_edit("uniqueness loop degraded to a single `if`", loop_to_if, True)

    def rename_local(t):
        hit = False
        for n in ast.walk(t):
            if isinstance(n, ast.Name) and n.id == "fname":
                n.id = "base_name"
                hit = True
        return hit
    stmt_edit("local renamed", rename_local, False)

    def len_ge(t):
        for n in ast.walk(t):
            if isinstance(n, ast.If) and isinstance(n.test, ast.Compare) and isinstance(n.test.ops[0], ast.Gt) and "PATH_MAX_LENGTH" in ast.unparse(n.test):
                n.test = ast.parse("len(fname) >= PATH_MAX_LENGTH + 1", mode="eval").body
                return True
    stmt_edit("length test spelled >= N + 1", len_ge, False)

    def limit_bigger(t):
        for n in ast.walk(t):
            if isinstance(n, ast.Assign) and isinstance(n.targets[0], ast.Name) and n.targets[0].id == "PATH_MAX_LENGTH":
                n.value = ast.Constant(255)
                return True
    stmt_edit("PATH_MAX_LENGTH raised to 255", limit_bigger, True)
    return out


def _thorough(ctx, fnode, base_sink, helpers=None):
    base = set(base_sink.failed)
    killed = total = silent = btotal = 0
    survivors, noisy = [], []
    for label, t, breaking in _mutants(fnode):
        s = Sink()
        err = None
        try:
            core(s, t, helpers)
            fired = any(k not in base for k in s.failed)
        except AnalysisError as e:
            fired, err = False, str(e)
        if breaking:
            total += 1
            killed += fired
            if not fired:
                survivors.append(label + (" [analysis error: %s]" % err if err else ""))
        else:
            btotal += 1
            if not fired and err is None:
                silent += 1
            else:
                noisy.append(label + (" [%s]" % (err or sorted(k for k in s.failed if k not in base))))
        ctx.ob("mutation", label, fired if breaking else (not fired and err is None), "breaking" if breaking else "benign")
    ctx.extra["mutants_killed"], ctx.extra["mutants_total"] = killed, total
    ctx.extra["benign_silent"], ctx.extra["benign_total"] = silent, btotal
    if survivors:
        raise AnalysisError("rule lost its teeth: surviving mutants: %s" % "; ".join(survivors))
    if noisy:
        raise AnalysisError("rule fires on benign edits: %s" % "; ".join(noisy))
    ctx.floor("mutants", 10, total)
