#!/venv/bin/python
"""Regenerate the generated blocks of DESIGN.md (between <!-- BEGIN:x --> / <!-- END:x --> markers):
 overview  - one row per property: verdict, technique, state of today's tree
 fixes     - the fix: commits in /repo
 known     - the known findings still reported
 seeded    - which check catches which independently seeded change (from seeded/*/meta.json)
"""
import glob, json, os, re, subprocess, sys
here = os.path.dirname(os.path.dirname(os.path.abspath(__file__)))
sys.path.insert(0, here)
from agstatic import registry

props = [json.loads(l) for l in open(os.path.join(here, "properties.jsonl"))]
known = json.load(open(os.path.join(here, "known_findings.json")))["findings"]
for f in glob.glob(os.path.join(here, "known_findings.d", "*.json")):
    known += json.load(open(f))["findings"]


def block_overview():
    rows = ["| id | verdict | deciding technique | unchanged tree today |", "|----|---------|--------------------|----------------------|"]
    for p in props:
        pid = p["id"]
        if pid in registry.CLAIMED:
            k = [x for x in known if x["property"] == pid and x.get("status", "known") == "known"]
            fx = sorted({x.get("commit") for x in known if x["property"] == pid and x.get("status") == "fixed" and x.get("commit")})
            st = "pass"
            if fx:
                st += "; defect(s) repaired in " + ", ".join(fx)
            if k:
                st += "; %d known finding key(s) still reported" % len(k)
            rows.append("| %s | claim | %s | %s |" % (pid, registry.CLAIMED[pid]["technique"], st))
        else:
            rows.append("| %s | **n/a** | — | %s |" % (pid, registry.NOT_APPLICABLE.get(pid, "not built")[:110]))
    return "\n".join(rows)


def block_fixes():
    out = subprocess.run(["git", "-C", "/repo", "log", "--format=%h %s"], capture_output=True, text=True).stdout.splitlines()
    rows = ["| commit | repair | property |", "|--------|--------|----------|"]
    for l in out:
        h, s = l.split(" ", 1)
        if not s.startswith("fix:"):
            continue
        pr = sorted({x["property"] for x in known if x.get("commit", "").startswith(h[:8])})
        rows.append("| %s | %s | %s |" % (h, s[5:], ", ".join(pr)))
    return "\n".join(rows)


def block_known():
    rows = ["| property | rule | construct (key) | what fails |", "|----------|------|-----------------|------------|"]
    seen = set()
    for x in known:
        if x.get("status", "known") != "known":
            continue
        what = x["what"].split(" -- ")[0]
        key = (x["property"], x["rule"], what[:80])
        if x["property"] == "C04":
            key = (x["property"], x["rule"])
        if key in seen:
            continue
        seen.add(key)
        n = sum(1 for y in known if y.get("status", "known") == "known" and y["property"] == x["property"] and y["rule"] == x["rule"]) if x["property"] == "C04" else 1
        rows.append("| %s | %s | `%s`%s | %s |" % (x["property"], x["rule"], x["construct"][:70].replace("|", "\\|"), " (+%d more keys of this rule)" % (n - 1) if n > 1 else "",
                                                   what[:260].replace("|", "\\|")))
    return "\n".join(rows)


def _matrix(kind):
    mp = os.path.join(here, kind, "MATRIX.json")
    return json.load(open(mp)) if os.path.exists(mp) else None


def block_benign():
    """two states per probe: the first run (recorded in the probe's meta.json when it was delivered, i.e. before the hardening round for
    that property) and the current state (tools/matrix.py)"""
    mx = _matrix("benign")
    rows = ["| probe | kind of refactoring | first run: false alarms (exit 1) | first run: undecided (exit 2) | now: false alarms | now: undecided |",
            "|-------|---------------------|------|------|------|------|"]
    n = fa0 = fa = un0 = un = 0
    for d in sorted(glob.glob(os.path.join(here, "benign", "*"))):
        mp = os.path.join(d, "meta.json")
        if not os.path.exists(mp):
            continue
        m = json.load(open(mp))
        name = os.path.basename(d)
        am = m.get("agent_meta") or {}
        first = m.get("nonzero_checks", {})
        res = (mx or {}).get("results", {}).get(name)
        if res is None:
            res = first
        sel = lambda r_, code: sorted(p for p, r in r_.items() if isinstance(r, dict) and r.get("rc") == code)
        a1, a2, f1, f2 = sel(first, 1), sel(first, 2), sel(res, 1), sel(res, 2)
        n += 1
        fa0 += bool(a1)
        un0 += bool(a2)
        fa += bool(f1)
        un += bool(f2)
        rows.append("| %s | %s | %s | %s | %s | %s |" % (name, ((am.get("kind") or am.get("summary") or "")[:110]).replace("|", "\\|").replace("\n", " "),
                                                     ", ".join(a1) or "none", ", ".join(a2) or "none", ", ".join(f1) or "none", ", ".join(f2) or "none"))
    rows.append("")
    rows.append("Behaviour-preserving probes: %d. First run: %d probes with a false alarm from some check, %d with an undecided check. "
                "Now: %d with a false alarm, %d with an undecided check." % (n, fa0, un0, fa, un))
    return "\n".join(rows)


def block_seeded():
    mx = _matrix("seeded")
    rows = ["| seed | breaks | what it needs to manifest | valid (tests unchanged, demo flips) | caught by |", "|------|--------|---------------------------|------|-----------|"]
    tot = caught = 0
    for d in sorted(glob.glob(os.path.join(here, "seeded", "*"))):
        mp = os.path.join(d, "meta.json")
        if not os.path.exists(mp):
            continue
        m = json.load(open(mp))
        am = m.get("agent_meta") or {}
        if m.get("valid_seed"):
            tot += 1
            cl = m.get("caught_by") or []
            if mx and os.path.basename(d) in mx.get("results", {}):
                cl = [p for p, r in mx["results"][os.path.basename(d)].items() if isinstance(r, dict) and r.get("rc") == 1]
            caught += bool(cl)
        caught_list = m.get("caught_by") or []
        if mx and os.path.basename(d) in mx.get("results", {}):
            caught_list = sorted(p for p, r in mx["results"][os.path.basename(d)].items() if isinstance(r, dict) and r.get("rc") == 1)
        cb = ", ".join(caught_list) or "**missed**"
        if m.get("note"):
            cb += " (" + m["note"] + ")"
        rows.append("| %s | %s | %s | %s | %s |" % (os.path.basename(d), (am.get("summary") or "")[:200].replace("|", "\\|").replace("\n", " "),
                                                   (am.get("needs_to_manifest") or "")[:200].replace("|", "\\|").replace("\n", " "),
                                                   "yes" if m.get("valid_seed") else "no", cb))
    rows.append("")
    rows.append("Valid seeds: %d; caught by at least one check: %d." % (tot, caught))
    return "\n".join(rows)


BLOCKS = dict(overview=block_overview, fixes=block_fixes, known=block_known, seeded=block_seeded, benign=block_benign)
p = os.path.join(here, "DESIGN.md")
t = open(p).read()
for name, fn in BLOCKS.items():
    pat = re.compile(r"(<!-- BEGIN:%s -->\n).*?(<!-- END:%s -->)" % (name, name), re.S)
    if pat.search(t):
        t = pat.sub(lambda m: m.group(1) + fn() + "\n" + m.group(2), t)
open(p, "w").write(t)
print("DESIGN.md tables regenerated")
