#!/venv/bin/python
"""Developer tool: run every registered check against a behaviour-preserving refactoring delivered under /tmp/ben_out/<PID>/variant_<V>.diff.
Verifies first that the differential demo prints the same digest on the original and on the refactored tree. Files the result under
/verif/benign/<PID>_<V>/ (patch.diff, meta.json). Exit codes per check: 0 good, 2 = undecided (tolerated, noted), 1 = FALSE ALARM."""
import json, os, shutil, subprocess, sys, py_compile
pid, var = sys.argv[1], sys.argv[2]
src = "%s/%s" % (os.environ.get("BEN_OUT", "/tmp/ben_out"), pid)
wt = "/tmp/bconf_%s_%s" % (pid, var)
VERIF = "/verif"
PY = "/venv/bin/python"


def sh(cmd, cwd=None, timeout=1800):
    p = subprocess.run(cmd, shell=True, cwd=cwd, capture_output=True, text=True, timeout=timeout)
    return p.returncode, p.stdout + p.stderr


diff = os.path.join(src, "variant_%s.diff" % var)
demo = os.path.join(src, "demo.py")
meta_in = json.load(open(os.path.join(src, "meta.json"))) if os.path.exists(os.path.join(src, "meta.json")) else {}
res = dict(property=pid, variant=var, agent_meta=(meta_in.get("variants") or {}).get(var))
sh("git -C /repo worktree remove --force %s; rm -rf %s" % (wt, wt))
rc, out = sh("git -C /repo worktree add --detach %s HEAD" % wt)
assert rc == 0, out
try:
    rc0, out0 = sh("%s %s" % (PY, demo), cwd=wt, timeout=1200)
    rc, out = sh("git apply %s" % diff, cwd=wt)
    res["applies"] = rc == 0
    if rc != 0:
        res["apply_error"] = out[-300:]
        raise SystemExit
    changed = [l[6:].strip() for l in open(diff) if l.startswith("+++ b/")]
    res["files"] = changed
    for c in changed:
        if c.endswith(".py"):
            py_compile.compile(os.path.join(wt, c), doraise=True, cfile="/tmp/bconf_x.pyc")
    rc1, out1 = sh("%s %s" % (PY, demo), cwd=wt, timeout=1200)
    res["demo_same_output"] = (rc0 == rc1 and out0.strip().splitlines()[-1:] == out1.strip().splitlines()[-1:])
    res["demo_tail"] = [out0.strip()[-160:], out1.strip()[-160:]]
    props = [c["property_id"] for c in json.load(open(os.path.join(VERIF, "MANIFEST.json")))["checks"]]
    checks = {}
    for p in props:
        rc, out = sh("./check %s --repo %s --evidence-dir /tmp/bconf_ev_%s_%s" % (p, wt, pid, var), cwd=VERIF, timeout=900)
        if rc != 0:
            checks[p] = dict(rc=rc, lines=[l[:500] for l in out.splitlines() if l.startswith(("FINDING", "VIOLATION", "ANALYSIS-ERROR"))][:6])
    res["nonzero_checks"] = checks
    res["false_alarms"] = sorted(p for p, c in checks.items() if c["rc"] == 1)
    res["undecided"] = sorted(p for p, c in checks.items() if c["rc"] == 2)
finally:
    sh("git -C /repo worktree remove --force %s; rm -rf %s /tmp/bconf_ev_%s_%s" % (wt, wt, pid, var))
    out_dir = os.path.join(VERIF, "benign", "%s_%s" % (pid, var))
    os.makedirs(out_dir, exist_ok=True)
    if os.path.exists(diff):
        shutil.copy(diff, os.path.join(out_dir, "patch.diff"))
    res["repo_head"] = sh("git -C /repo rev-parse --short HEAD")[1].strip()
    json.dump(res, open(os.path.join(out_dir, "meta.json"), "w"), indent=1)
    print(pid, var, "same_output=%s" % res.get("demo_same_output"), "FALSE-ALARMS=%s" % res.get("false_alarms"), "undecided=%s" % res.get("undecided"))
