"""C32 -- a v1 certificate is reported only if it verifies the signature file.

Typestate "verified", decided on the CFGs of three functions of androguard/core/apk/__init__.py
(nothing is executed; the `cryptography`/`asn1crypto` libraries are trusted):

(V) APK.verify_signature(signer_info, cert, data, hash).  A *certificate site* is a statement
    that stores a non-None value into a returned variable or returns a non-None expression.
    Every certificate site must be unreachable from the entry once the *normal* out-edges of
    all valid `public_key.verify(...)` statements are removed (exception edges stay): so the
    value exists only after a verify call returned normally -- not on the InvalidSignature
    arm, not for an unsupported key type.  A verify statement is valid when its receiver is
    derived only from the certificate parameter, its first argument from
    signer_info['signature'] and its second argument *is* the data parameter.  The stored
    value must be derived from the certificate parameter only.
(S) APK.verify_signer_info_against_sig_file.  Every return is None or the result of a
    verify_signature call.  Each such call passes the signer_info parameter, the certificate
    found by find_certificate(certificates, signer_info) behind a None-guard that leaves, and
    as data either (a) the sf_object parameter -- only reachable through the "no signed
    attributes" edge of the test on signer_info['signed_attrs'] -- or (b) the re-tagged dump
    b'\\x31' + signer_info['signed_attrs'].dump()[1:] -- only reachable through the "signed
    attributes present" edge and through the *match* edge of a comparison between the digest
    of sf_object (hash from get_hash_algorithm(signer_info), updated with sf_object only) and
    the messageDigest attribute (OID 1.2.840.113549.1.9.4) of the signed attributes.
(D) APK.get_certificate_der.  Every value that can reach a return is None or flows from a
    verify_signer_info_against_sig_file result; the handlers around that call leave with
    `return None`; the .SF passed is get_file(<signature file name with extension .SF>) and
    the PKCS#7 data/signer infos/certificates come from get_file(filename).
    get_certificates_v1 / get_certificate draw only from get_certificate_der.
"""
from __future__ import annotations

import ast

from ..cfg import CFG, leaves_only
from ..model import APK, AnalysisError, norm, parent, walk_no_nested
from ..pathkit import (Ev, NotEvaluable, truths, Defs, reach, branch_edges, normal_out_edges, stmt_of,
                       catches, reaching_defs, resolve_at, run_mutants, rename_locals, flip_ifs, neq_to_not_eq)

OID_MESSAGE_DIGEST = "1.2.840.113549.1.9.4"   # RFC 5652, id-messageDigest
SET_TAG = b"\x31"                             # DER tag of SET OF (signed attributes are signed with it)


def _is_none(e):
    return isinstance(e, ast.Constant) and e.value is None


def closure_nodes(defs, expr):
    """all AST nodes in the backward data-flow closure of expr over the function's may-defs"""
    out, seen, todo = [], set(), [expr]
    while todo:
        e = todo.pop()
        for n in ast.walk(e):
            out.append(n)
            if isinstance(n, (ast.Name, ast.Attribute)):
                k = ast.unparse(n)
                if k not in seen and defs.of(k):
                    seen.add(k)
                    for kind, v, st in defs.of(k):
                        if v is not None:
                            todo.append(v)
    return out


def has_subscript(nodes, base_name, const):
    for n in nodes:
        if isinstance(n, ast.Subscript) and isinstance(n.slice, ast.Constant) and n.slice.value == const:
            if base_name is None or (isinstance(n.value, ast.Name) and n.value.id == base_name):
                return True
    return False


def alias_of(cfg, defs, e, at, param):
    """is e (evaluated at statement `at`) exactly the parameter `param` (possibly through plain copies)?"""
    e2, _ = resolve_at(cfg, defs, e, at)
    return isinstance(e2, ast.Name) and e2.id == param and not defs.of(param)


def method_calls(node, name):
    return [c for c in walk_no_nested(node) if isinstance(c, ast.Call) and isinstance(c.func, ast.Attribute) and c.func.attr == name]


def pos_params(func):
    ps = func.params()
    static = any(ast.unparse(d) == "staticmethod" for d in func.node.decorator_list)
    return ps if static else ps[1:]


def call_args(call, callee_params):
    """positional/keyword arguments of a call mapped on the callee's parameter names"""
    vals = dict(zip(callee_params, call.args))
    for k in call.keywords:
        if k.arg:
            vals[k.arg] = k.value
    return vals


class Core:
    def __init__(self, ctx):
        self.ctx = ctx
        self.m = ctx.mod(APK)

    # ================================================================== (V)
    def verify_signature(self):
        ctx = self.ctx
        f = self.vs = self.m.func("APK.verify_signature")
        ctx.analysed(f)
        ps = pos_params(f)
        ctx.require(len(ps) >= 4, "verify_signature(signer_info, certificate, data, hash) signature changed")
        p_si, p_cert, p_data, p_hash = ps[:4]
        self.vs_params = ps
        node = f.node
        cfg = CFG(node)
        defs = Defs(node)
        for p in (p_si, p_cert, p_data):
            ctx.require(not defs.of(p), "verify_signature reassigns its parameter %s: outside the analysed fragment" % p)
        # ---- verify statements
        valid = []
        for c in method_calls(node, "verify"):
            ctx.count("verify_calls")
            st = stmt_of(c, node)
            recv_nodes = closure_nodes(defs, c.func.value)
            recv_params = defs.root_params(c.func.value)
            ok_recv = recv_params == {p_cert}
            args = list(c.args)
            ok_sig = ok_data = False
            why = []
            if len(args) >= 2:
                sig_nodes = closure_nodes(defs, args[0])
                ok_sig = defs.root_params(args[0]) == {p_si} and has_subscript(sig_nodes, p_si, "signature")
                ok_data = alias_of(cfg, defs, args[1], st, p_data)
                if not ok_data and defs.root_params(args[1]) == {p_data}:
                    raise AnalysisError("verify_signature: the verified bytes `%s` are derived from but not identical to the data parameter" % norm(args[1]))
            if not ok_recv:
                why.append("the key is derived from %s, not only from the certificate parameter `%s`" % (sorted(recv_params) or "no parameter", p_cert))
            if not ok_sig:
                why.append("the first argument is not %s['signature']" % p_si)
            if not ok_data:
                why.append("the second argument is not the data parameter `%s`" % p_data)
            ok = ok_recv and ok_sig and ok_data
            ctx.check("verify/operands", "verify #%d operands" % ctx.counts["verify_calls"], ok, f, c,
                      "public-key verify call does not check %s['signature'] over `%s` with the key of `%s`: %s" % (p_si, p_data, p_cert, "; ".join(why)),
                      node=c, detail="%s: key <- %s, signature <- %s['signature'], data is parameter %s" % (norm(c.func), p_cert, p_si, p_data))
            if ok:
                valid.append(st)
        # ---- certificate sites
        sites = self.cert_sites(f, defs, "verify_signature")
        gate_edges = [e for st in valid for e in normal_out_edges(cfg, st)]
        for kind, st, val in sites:
            ctx.count("cert_sites_verify_signature")
            gated = bool(valid) and not reach(cfg, cfg.entry, st, avoid_edges=gate_edges)
            ctx.check("verify/gating", "certificate site `%s`" % norm(st)[:60], gated, f, st,
                      "verify_signature can produce the certificate at `%s` on a path where no public_key.verify(...) call returned normally "
                      "(e.g. the InvalidSignature arm, an unsupported key type, or before verification)" % norm(st)[:90], node=st,
                      detail="unreachable from the entry once the normal out-edges of the %d verify statements are cut" % len(valid))
            rp = defs.root_params(val)
            ctx.check("verify/which-certificate", "value at `%s`" % norm(st)[:60], rp == {p_cert}, f, val,
                      "the value reported as verified certificate is derived from %s, not from the certificate parameter `%s` whose key was used"
                      % (sorted(rp) or "no parameter", p_cert), node=st, detail="value derived only from parameter %s" % p_cert)
        ctx.count("return_sites", len([n for n in walk_no_nested(node) if isinstance(n, ast.Return)]))

    def cert_sites(self, f, defs, where):
        """statements that make a non-None value reach a return: [(kind, stmt, value expr)]"""
        sites, seen = [], set()

        def var_sites(key):
            if key in seen:
                return
            seen.add(key)
            for kind, v, st in defs.of(key):
                s = st if isinstance(st, ast.stmt) else stmt_of(st, f.node)
                if kind == "assign" and _is_none(v):
                    continue
                sites.append((kind, s, v))

        for r in (n for n in walk_no_nested(f.node) if isinstance(n, ast.Return)):
            v = r.value
            if v is None or _is_none(v):
                continue
            if isinstance(v, ast.Name) and defs.of(v.id):
                var_sites(v.id)
            else:
                sites.append(("return", r, v))
        return sites

    # ================================================================== (S)
    def signer_info(self):
        ctx = self.ctx
        f = self.si = self.m.func("APK.verify_signer_info_against_sig_file")
        ctx.analysed(f)
        ps = pos_params(f)
        ctx.require(len(ps) >= 4, "verify_signer_info_against_sig_file signature changed")
        p_sd, p_certs, p_si, p_sf = ps[:4]
        self.si_params = ps
        node = f.node
        cfg = CFG(node)
        defs = Defs(node)
        for p in (p_certs, p_si, p_sf):
            ctx.require(not defs.of(p), "verify_signer_info_against_sig_file reassigns its parameter %s" % p)
        calls = method_calls(node, self.vs.node.name)
        ctx.count("verify_signature_calls", len(calls))
        # ---- returns
        for r in (n for n in walk_no_nested(node) if isinstance(n, ast.Return)):
            ctx.count("return_sites")
        for kind, st, v in self.cert_sites(f, defs, "signer"):
            ok = kind in ("assign", "return") and any(v is c for c in calls)
            ctx.check("signer/returns", "returned value `%s`" % norm(st)[:60], ok, f, st,
                      "verify_signer_info_against_sig_file can return a value that is not the result of verify_signature: `%s`" % norm(st)[:90], node=st,
                      detail="the value is the result of %s" % norm(v.func) if ok else "")
        # ---- the signed-attributes presence test
        P = [n for n in walk_no_nested(node) if isinstance(n, ast.If) and has_subscript(list(ast.walk(n.test)), p_si, "signed_attrs")]
        ctx.require(len(P) == 1, "expected exactly one test on %s['signed_attrs'] (found %d)" % (p_si, len(P)))
        P = P[0]
        present_val = self._presence_polarity(P, p_si)
        vparams = self.vs_params
        n_direct = n_attrs = 0
        for c in calls:
            st = stmt_of(c, node)
            a = call_args(c, vparams)
            ctx.require(all(k in a for k in vparams[:3]), "verify_signature call does not pass signer_info, certificate and data")
            a_si, a_cert, a_data = a[vparams[0]], a[vparams[1]], a[vparams[2]]
            label = "call `%s`" % norm(c)[:70]
            # signer info
            ctx.check("signer/args", label + " signer_info", alias_of(cfg, defs, a_si, st, p_si), f, c,
                      "verify_signature is not given the signer_info parameter `%s` (got `%s`)" % (p_si, norm(a_si)), node=c,
                      detail="first argument is parameter %s" % p_si)
            # certificate: find_certificate(certificates, signer_info) behind a None guard
            ce, cst = resolve_at(cfg, defs, a_cert, st)
            ok_find = isinstance(ce, ast.Call) and isinstance(ce.func, ast.Attribute) and ce.func.attr == "find_certificate" and len(ce.args) >= 2 \
                and alias_of(cfg, defs, ce.args[0], cst, p_certs) and alias_of(cfg, defs, ce.args[1], cst, p_si)
            ctx.check("signer/certificate", label + " certificate", ok_find, f, c,
                      "the certificate passed to verify_signature (`%s`) is not find_certificate(%s, %s)" % (norm(a_cert), p_certs, p_si), node=c,
                      detail="certificate <- %s" % norm(ce)[:70])
            if ok_find and isinstance(a_cert, ast.Name):
                self._none_guard(f, cfg, a_cert.id, st, c)
            # data: which arm of the signed-attributes test is the call on?
            only_present = not reach(cfg, cfg.entry, st, avoid_edges=branch_edges(cfg, P, present_val))
            only_absent = not reach(cfg, cfg.entry, st, avoid_edges=branch_edges(cfg, P, not present_val))
            if only_absent and not only_present:
                n_direct += 1
                ok = alias_of(cfg, defs, a_data, st, p_sf)
                ctx.check("signer/data", label + " without signed attributes the .SF itself is verified", ok, f, c,
                          "without signed attributes verify_signature must be run over the .SF parameter `%s`, not over `%s`" % (p_sf, norm(a_data)), node=c,
                          detail="arm `%s` is %s; data is parameter %s" % (norm(P.test)[:50], not present_val, p_sf))
            elif only_present and not only_absent:
                n_attrs += 1
                if alias_of(cfg, defs, a_data, st, p_sf):
                    ctx.check("signer/data", label + " verifies the re-tagged signed attributes", False, f, c,
                              "verify_signature is run over the .SF bytes on a path where signed attributes are present "
                              "(the signature must then be over the signed attributes)", node=c)
                sym = self._sym(cfg, defs, a_data, st, p_si)
                want = ("cat", ("const", SET_TAG), ("slice", ("dump", "ATTRS"), 1, None))
                if not alias_of(cfg, defs, a_data, st, p_sf):
                    ctx.check("signer/data", label + " verifies the re-tagged signed attributes", sym == want, f, c,
                              "the bytes verified when signed attributes are present are not b'\\x31' + %s['signed_attrs'].dump()[1:] (derived: %s)" % (p_si, _show(sym)),
                              node=c, detail="arm `%s` is %s; data = %s" % (norm(P.test)[:50], present_val, _show(sym)))
                self._digest_gate(f, cfg, defs, st, c, p_si, p_sf)
            else:
                ctx.check("signer/data", label + " is under the signed-attributes test", False, f, c,
                          "verify_signature is called on a path that does not depend on whether signed attributes are present", node=c)
        ctx.count("direct_sites", n_direct)
        ctx.count("attrs_sites", n_attrs)

    def _presence_polarity(self, P, p_si):
        """value of P.test when signed attributes are present"""
        keys = set()
        for n in ast.walk(P.test):
            if isinstance(n, ast.Subscript) and isinstance(n.slice, ast.Constant) and n.slice.value == "signed_attrs":
                keys.add(ast.unparse(n))
                par = parent(n)
                if isinstance(par, ast.Attribute) and par.attr == "native":
                    keys.add(ast.unparse(par))
        res = {}
        for name, val in (("present", [("attr",)]), ("absent", [])):
            try:
                tv = {v for _, v in truths(P.test, {k: val for k in keys}, atom_ok=lambda e: not has_subscript(list(ast.walk(e)), p_si, "signed_attrs"))}
            except NotEvaluable as e:
                raise AnalysisError("the test on signed attributes `%s` left the analysable fragment (%s)" % (norm(P.test), e))
            if len(tv) != 1:
                raise AnalysisError("the test `%s` does not depend on the signed attributes alone" % norm(P.test))
            res[name] = tv.pop()
        if res["present"] == res["absent"]:
            raise AnalysisError("the test `%s` does not distinguish present from absent signed attributes" % norm(P.test))
        self.ctx.ob("signer/presence", "test on signed attributes", True, "`%s` is %s when signed attributes are present" % (norm(P.test), res["present"]))
        return res["present"]

    def _none_guard(self, f, cfg, var, st, call):
        ctx = self.ctx
        ok = False
        shown = None
        for G in (n for n in walk_no_nested(f.node) if isinstance(n, ast.If)):
            if not any(isinstance(n, ast.Name) and n.id == var for n in ast.walk(G.test)):
                continue
            try:
                tv = {v for _, v in truths(G.test, {var: None}, atom_ok=lambda e: not any(isinstance(n, ast.Name) and n.id == var for n in ast.walk(e)))}
            except NotEvaluable:
                continue
            if len(tv) != 1:
                continue
            v = tv.pop()
            shown = G
            leaves = all(not reach(cfg, t, st) and not reach(cfg, t, cfg.exit) and t is not cfg.exit for _, t in branch_edges(cfg, G, v))
            gates = not reach(cfg, cfg.entry, st, avoid_nodes=[G])
            if leaves and gates:
                ok = True
                break
        ctx.count("none_guards")
        ctx.check("signer/missing-certificate", "call `%s`: missing certificate raises" % norm(call)[:50], ok, f,
                  shown.test if (shown is not None and not ok) else "guard on %s" % var if not ok else shown.test,
                  "a SignerInfo whose certificate reference matches no certificate is not rejected before verify_signature "
                  "(no `if %s is None: raise` that dominates the call)" % var, node=shown or call,
                  detail="`if %s` leaves the function when %s is None and dominates the call" % (norm(shown.test) if shown is not None else "?", var))

    def _sym(self, cfg, defs, e, at, p_si, depth=10):
        """symbolic bytes value: ('const', b) | ('dump', 'ATTRS') | ('cat', a, b) | ('slice', v, lo, hi) | ('?', text)"""
        if depth == 0:
            return ("?", ast.unparse(e))
        if isinstance(e, ast.Name) and defs.of(e.id):
            e2, at2 = resolve_at(cfg, defs, e, at, depth=1)
            if e2 is e:
                return ("?", "ambiguous definition of %s" % e.id)
            return self._sym(cfg, defs, e2, at2, p_si, depth - 1)
        if isinstance(e, ast.Constant) and isinstance(e.value, bytes):
            return ("const", e.value)
        if isinstance(e, ast.Call) and ast.unparse(e.func) == "bytes" and len(e.args) == 1:
            try:
                return ("const", bytes(Ev()(e.args[0])))
            except Exception:
                return ("?", ast.unparse(e))
        if isinstance(e, ast.BinOp) and isinstance(e.op, ast.Add):
            return ("cat", self._sym(cfg, defs, e.left, at, p_si, depth - 1), self._sym(cfg, defs, e.right, at, p_si, depth - 1))
        if isinstance(e, ast.Subscript) and isinstance(e.slice, ast.Slice) and e.slice.step is None:
            try:
                lo = None if e.slice.lower is None else Ev()(e.slice.lower)
                hi = None if e.slice.upper is None else Ev()(e.slice.upper)
            except NotEvaluable:
                return ("?", ast.unparse(e))
            return ("slice", self._sym(cfg, defs, e.value, at, p_si, depth - 1), lo, hi)
        if isinstance(e, ast.Call) and isinstance(e.func, ast.Attribute) and e.func.attr == "dump" and not e.args:
            r, _ = resolve_at(cfg, defs, e.func.value, at)
            if isinstance(r, ast.Subscript) and isinstance(r.slice, ast.Constant) and r.slice.value == "signed_attrs" \
                    and isinstance(r.value, ast.Name) and r.value.id == p_si:
                return ("dump", "ATTRS")
            return ("?", "dump of %s" % ast.unparse(r))
        return ("?", ast.unparse(e))

    def _digest_gate(self, f, cfg, defs, st, call, p_si, p_sf):
        """the attrs call must sit behind the match edge of `digest(sf_object) == messageDigest attribute`"""
        ctx = self.ctx
        node = f.node
        # names that hold <hash object>.digest()
        digest_keys = {}
        for n in walk_no_nested(node):
            if isinstance(n, ast.Assign) and isinstance(n.value, ast.Call) and isinstance(n.value.func, ast.Attribute) \
                    and n.value.func.attr == "digest" and len(n.targets) == 1 and isinstance(n.targets[0], ast.Name):
                digest_keys[n.targets[0].id] = n
        found = None
        problems = []
        for G in (n for n in walk_no_nested(node) if isinstance(n, ast.If)):
            names = [n for n in ast.walk(G.test) if isinstance(n, ast.Name)]
            act = [n for n in names if n.id in digest_keys]
            inline = [n for n in ast.walk(G.test) if isinstance(n, ast.Call) and isinstance(n.func, ast.Attribute) and n.func.attr == "digest"]
            if not act and not inline:
                continue
            cmp_ = [n for n in ast.walk(G.test) if isinstance(n, ast.Compare) and len(n.ops) == 1 and isinstance(n.ops[0], (ast.Eq, ast.NotEq))
                    and any(x in ast.walk(n) for x in act + inline)]
            if len(cmp_) != 1:
                continue
            cmp_ = cmp_[0]
            sides = [cmp_.left, cmp_.comparators[0]]
            a_side = [s for s in sides if any(x in list(ast.walk(s)) for x in act + inline)]
            e_side = [s for s in sides if s not in a_side]
            if len(a_side) != 1 or len(e_side) != 1:
                continue
            a_key, e_key = ast.unparse(a_side[0]), ast.unparse(e_side[0])

            def atom_ok(e, a_key=a_key, e_key=e_key):
                t = ast.unparse(e)
                return a_key not in t and e_key not in t
            try:
                eq = {v for _, v in truths(G.test, {a_key: 7, e_key: 7}, atom_ok=atom_ok)}
                ne = {v for _, v in truths(G.test, {a_key: 7, e_key: 9}, atom_ok=atom_ok)} | {v for _, v in truths(G.test, {a_key: 9, e_key: 7}, atom_ok=atom_ok)}
            except NotEvaluable as e:
                raise AnalysisError("digest comparison `%s` left the analysable fragment (%s)" % (norm(G.test), e))
            # every path to the call must use an edge taken only when the digests are equal
            match_only = eq - ne
            gated = bool(match_only) and all(not reach(cfg, cfg.entry, st, avoid_edges=branch_edges(cfg, G, v)) for v in match_only) \
                and all(not any(t is st or reach(cfg, t, st) for _, t in branch_edges(cfg, G, v)) for v in ne)
            if not gated:
                problems.append((G, "a digest mismatch (test is %s) can still reach the verify_signature call" % sorted(ne)))
                continue
            # provenance of the actual digest
            dcall = inline[0] if inline else digest_keys[act[0].id].value
            dst = stmt_of(dcall, node)
            H = dcall.func.value
            why = self._hash_of_sf(f, cfg, defs, H, dst, p_si, p_sf)
            if why:
                problems.append((G, why))
                continue
            # provenance of the expected digest
            en = closure_nodes(defs, e_side[0])
            oid = any(isinstance(n, ast.Constant) and n.value == OID_MESSAGE_DIGEST for n in en)
            attrs = has_subscript(en, p_si, "signed_attrs")
            if not (oid and attrs):
                problems.append((G, "the expected digest `%s` is not the messageDigest attribute (%s) of %s['signed_attrs']" % (e_key, OID_MESSAGE_DIGEST, p_si)))
                continue
            found = (G, a_key, e_key)
            break
        ctx.count("digest_gates")
        if found:
            G, a_key, e_key = found
            ctx.check("signer/digest-gate", "call `%s` behind the digest comparison" % norm(call)[:50], True, f, G.test, "",
                      detail="`if %s`: %s = digest(%s), %s = messageDigest attribute; only the match edge reaches the call" % (norm(G.test), a_key, p_sf, e_key))
        elif problems:
            G, why = problems[0]
            ctx.check("signer/digest-gate", "call `%s` behind the digest comparison" % norm(call)[:50], False, f, "if %s" % norm(G.test),
                      "the signature over the signed attributes is accepted without a valid .SF digest check: %s" % why, node=G)
        else:
            ctx.check("signer/digest-gate", "call `%s` behind the digest comparison" % norm(call)[:50], False, f, "no digest comparison",
                      "no comparison between the digest of the .SF and the messageDigest signed attribute guards the verify_signature call", node=call)

    def _hash_of_sf(self, f, cfg, defs, H, at, p_si, p_sf):
        """H (hash object expression) must be <alg from get_hash_algorithm(signer_info)>([sf]) updated with sf_object only"""
        node = f.node
        fed = []
        ctor = None
        if isinstance(H, ast.Name):
            ce, cst = resolve_at(cfg, defs, H, at)
            if not isinstance(ce, ast.Call):
                return "the hash object `%s` has no unique constructor call" % H.id
            ctor = ce
            for c in method_calls(node, "update"):
                if isinstance(c.func.value, ast.Name) and c.func.value.id == H.id:
                    ust = stmt_of(c, node)
                    if not cfg.dominates(ust, at) and reach(cfg, ust, at):
                        return "the hash is updated on some paths only (`%s`)" % norm(c)
                    if reach(cfg, ust, at) or cfg.dominates(ust, at):
                        fed += [(a, ust) for a in c.args]
        elif isinstance(H, ast.Call):
            ctor = H
            cst = at
        else:
            return "unrecognised hash object `%s`" % ast.unparse(H)
        fed += [(a, cst) for a in ctor.args]
        if not fed:
            return "nothing is hashed"
        for a, ast_ in fed:
            if not alias_of(cfg, defs, a, ast_, p_sf):
                return "the digest is computed over `%s`, not over the .SF parameter `%s`" % (norm(a), p_sf)
        alg_nodes = closure_nodes(defs, ctor.func)
        if not any(isinstance(n, ast.Call) and isinstance(n.func, ast.Attribute) and n.func.attr == "get_hash_algorithm"
                   and n.args and isinstance(n.args[0], ast.Name) and n.args[0].id == p_si for n in alg_nodes):
            return "the hash algorithm `%s` does not come from get_hash_algorithm(%s)" % (norm(ctor.func), p_si)
        return None

    # ================================================================== (D)
    def certificate_der(self):
        ctx = self.ctx
        f = self.gcd = self.m.func("APK.get_certificate_der")
        ctx.analysed(f)
        node = f.node
        cfg = CFG(node)
        defs = Defs(node)
        p_file = pos_params(f)[0]
        ctx.require(not defs.of(p_file), "get_certificate_der reassigns its filename parameter")
        calls = method_calls(node, self.si.node.name)
        ctx.count("signer_info_calls", len(calls))
        # ---- value sources of the returns
        for r in (n for n in walk_no_nested(node) if isinstance(n, ast.Return)):
            ctx.count("return_sites")
            bad = self._sources(defs, r.value, lambda c: any(c is x for x in calls))
            ctx.check("der/sources", "return `%s`" % norm(r)[:50], not bad, f, bad[0] if bad else r,
                      "get_certificate_der can return a value that does not come from verify_signer_info_against_sig_file: `%s` flows into `%s`"
                      % (norm(bad[0])[:80] if bad else "", norm(r)), node=bad[0] if bad else r,
                      detail="every value reaching `%s` is None or a result of %s" % (norm(r), self.si.node.name))
        # ---- handlers
        for c in calls:
            st = stmt_of(c, node)
            p = parent(st)
            ch = st
            while p is not None and not (isinstance(p, ast.Try) and any(ch is s for s in p.body)) and p is not node:
                ch, p = p, parent(p)
            if isinstance(p, ast.Try):
                for h in p.handlers:
                    ctx.count("handlers")
                    rets = [n for s in h.body for n in walk_no_nested(s) if isinstance(n, ast.Return)]
                    ok = leaves_only(h.body) and all(n.value is None or _is_none(n.value) for n in rets) \
                        and not any(isinstance(n, (ast.Continue, ast.Break)) for s in h.body for n in walk_no_nested(s))
                    ctx.check("der/exception-returns-none", "except %s" % (ast.unparse(h.type) if h.type else ""), ok, f,
                              "except %s" % (ast.unparse(h.type) if h.type else ""),
                              "an exception raised while verifying a SignerInfo does not end get_certificate_der with `return None`", node=h,
                              detail="handler leaves with return None")
            # ---- arguments
            a = call_args(c, self.si_params)
            sp = self.si_params
            ctx.require(all(k in a for k in sp[:4]), "verify_signer_info_against_sig_file call does not pass its first four arguments")
            self._check_inputs(f, cfg, defs, c, st, a[sp[0]], a[sp[1]], a[sp[2]], a[sp[3]], p_file)

    def _sources(self, defs, e, is_good_call, _seen=None):
        """expressions that may flow into e and are neither None nor a good call -> list of offending nodes"""
        _seen = _seen if _seen is not None else set()
        if e is None or _is_none(e):
            return []
        if isinstance(e, ast.Call):
            if is_good_call(e):
                return []
            if ast.unparse(e.func).endswith("Certificate.load") and len(e.args) == 1:
                return self._sources(defs, e.args[0], is_good_call, _seen)
            return [e]
        if isinstance(e, (ast.Name, ast.Attribute)):
            k = ast.unparse(e)
            ds = defs.of(k)
            if not ds:
                return [e]
            if k in _seen:
                return []
            _seen.add(k)
            out = []
            for kind, v, st in ds:
                if kind in ("with", "except", "aug"):
                    out.append(st if isinstance(st, ast.expr) else e)
                else:
                    out += self._sources(defs, v, is_good_call, _seen)
            return out
        if isinstance(e, ast.Subscript):
            return self._sources(defs, e.value, is_good_call, _seen)
        if isinstance(e, (ast.List, ast.Tuple, ast.Set)):
            return [x for el in e.elts for x in self._sources(defs, el, is_good_call, _seen)]
        if isinstance(e, ast.IfExp):
            return self._sources(defs, e.body, is_good_call, _seen) + self._sources(defs, e.orelse, is_good_call, _seen)
        if isinstance(e, ast.BoolOp):
            return [x for v in e.values for x in self._sources(defs, v, is_good_call, _seen)]
        if isinstance(e, ast.Constant):
            return [e]
        return [e]

    def _check_inputs(self, f, cfg, defs, c, st, a_sd, a_certs, a_si, a_sf, p_file):
        ctx = self.ctx
        label = "call `%s`" % norm(c.func)
        # .SF
        e, est = resolve_at(cfg, defs, a_sf, st)
        ok = False
        shown = norm(e)[:70]
        if isinstance(e, ast.Call) and isinstance(e.func, ast.Attribute) and e.func.attr == "get_file" and e.args:
            name_e, nst = resolve_at(cfg, defs, e.args[0], est)
            ok = True
            for sample, want in (("META-INF/CERT.RSA", "META-INF/CERT.SF"), ("META-INF/A.B.DSA", "META-INF/A.B.SF"), ("META-INF/x.EC", "META-INF/x.SF")):
                try:
                    got = _StrEv({p_file: sample}, defs)(name_e)
                except NotEvaluable as x:
                    raise AnalysisError("the .SF file name expression `%s` left the analysable fragment (%s)" % (norm(name_e), x))
                if got != want:
                    ok = False
                    shown = "%s -> %r for %r" % (norm(name_e), got, sample)
        ctx.check("der/inputs", label + " .SF is the signature file's sibling", ok, f, a_sf if not ok else e,
                  "the bytes checked against the signature are not get_file(<signature file name with extension .SF>): %s" % shown, node=c,
                  detail=".SF <- %s" % shown)
        # PKCS#7 container
        e, est = resolve_at(cfg, defs, a_sd, st)
        ok = isinstance(e, ast.Call) and ast.unparse(e.func).endswith("ContentInfo.load") and len(e.args) == 1
        if ok:
            src, sst = resolve_at(cfg, defs, e.args[0], est)
            ok = isinstance(src, ast.Call) and isinstance(src.func, ast.Attribute) and src.func.attr == "get_file" and src.args \
                and alias_of(cfg, defs, src.args[0], sst, p_file)
        ctx.check("der/inputs", label + " PKCS#7 is get_file(filename)", ok, f, a_sd,
                  "the PKCS#7 object is not ContentInfo.load(get_file(%s))" % p_file, node=c, detail="signed_data <- ContentInfo.load(get_file(%s))" % p_file)
        sd_name = a_sd.id if isinstance(a_sd, ast.Name) else None
        for what, arg, key in (("certificates", a_certs, "certificates"), ("signer_info", a_si, "signer_infos")):
            nodes = closure_nodes(defs, arg)
            ok = has_subscript(nodes, None, key) and has_subscript(nodes, sd_name, "content") and defs.root_params(arg) <= {p_file, "self"}
            ctx.check("der/inputs", label + " %s from the same PKCS#7" % what, ok, f, arg,
                      "`%s` is not taken from %s['content']['%s']" % (norm(arg), sd_name, key), node=c,
                      detail="%s <- %s['content']['%s']" % (what, sd_name, key))

    # ================================================================== callers
    def callers(self):
        ctx = self.ctx
        for qn in ("APK.get_certificates_v1", "APK.get_certificate"):
            f = self.m.func(qn)
            ctx.analysed(f)
            defs = Defs(f.node)
            calls = method_calls(f.node, self.gcd.node.name)
            ctx.count("der_calls", len(calls))
            for r in (n for n in walk_no_nested(f.node) if isinstance(n, ast.Return)):
                bad = self._sources(defs, r.value, lambda c: any(c is x for x in calls))
                ctx.check("callers/sources", "%s return" % qn, not bad, f, bad[0] if bad else r,
                          "%s reports a certificate that does not come from get_certificate_der: `%s`" % (qn, norm(bad[0])[:80] if bad else ""),
                          node=bad[0] if bad else r, detail="every reported certificate is Certificate.load(get_certificate_der(...))")

    def run(self):
        self.verify_signature()
        self.signer_info()
        self.certificate_der()
        self.callers()


class _StrEv(Ev):
    """string expressions over a sample file name (own semantics of splitext/rsplit/f-strings)"""

    def __init__(self, env, defs=None):
        super().__init__(env)
        self.defs = defs

    def e_Name(self, e):
        ds = self.defs.of(e.id) if self.defs is not None else []
        if len(ds) == 1 and ds[0][0] == "assign":
            return self(ds[0][1])
        if len(ds) == 1 and ds[0][0] == "elem" and isinstance(ds[0][2], ast.Assign) and isinstance(ds[0][2].targets[0], (ast.Tuple, ast.List)):
            names = [ast.unparse(t) for t in ds[0][2].targets[0].elts]
            return self(ds[0][1])[names.index(e.id)]
        return super().e_Name(e)

    def e_Call(self, e):
        fn = ast.unparse(e.func)
        if fn in ("os.path.splitext", "splitext") and len(e.args) == 1:
            s = self(e.args[0])
            head, sep, tail = s.rpartition("/")
            i = tail.rfind(".")
            if i <= 0:
                return (s, "")
            return (head + sep + tail[:i], tail[i:])
        if isinstance(e.func, ast.Attribute) and e.func.attr in ("rsplit", "split", "rpartition", "partition", "replace", "format", "removesuffix"):
            recv = self(e.func.value)
            args = [self(a) for a in e.args]
            if isinstance(recv, str) and all(isinstance(a, (str, int)) for a in args) and not e.keywords:
                return getattr(recv, e.func.attr)(*args)
        return super().e_Call(e)

    def e_JoinedStr(self, e):
        out = ""
        for v in e.values:
            if isinstance(v, ast.Constant):
                out += v.value
            elif isinstance(v, ast.FormattedValue) and v.format_spec is None and v.conversion == -1:
                out += str(self(v.value))
            else:
                raise NotEvaluable("f-string part")
        return out


def _show(sym):
    if sym[0] == "const":
        return repr(sym[1])
    if sym[0] == "dump":
        return "signed_attrs.dump()"
    if sym[0] == "cat":
        return "%s + %s" % (_show(sym[1]), _show(sym[2]))
    if sym[0] == "slice":
        return "%s[%s:%s]" % (_show(sym[1]), "" if sym[2] is None else sym[2], "" if sym[3] is None else sym[3])
    return "<%s>" % sym[1]


OWN_MUTATION_ADEQUACY = True   # thorough() below mutates the anchored functions in memory (pathkit.run_mutants)


def core(ctx):
    Core(ctx).run()


def run(ctx):
    ctx.explanation = __doc__
    core(ctx)
    ctx.floor("verify_calls", 3)
    ctx.floor("cert_sites_verify_signature", 1)
    ctx.floor("verify_signature_calls", 2)
    ctx.floor("direct_sites", 1)
    ctx.floor("attrs_sites", 1)
    ctx.floor("digest_gates", 1)
    ctx.floor("none_guards", 2)
    ctx.floor("signer_info_calls", 1)
    ctx.floor("handlers", 1)
    ctx.floor("return_sites", 5)
    ctx.floor("der_calls", 2)
    ctx.assume("cryptography's PublicKey.verify(signature, data, ...) raises InvalidSignature unless `signature` is valid for `data` (trusted library)")
    ctx.assume("asn1crypto parsing (ContentInfo.load, SignerInfo fields, dump()) is trusted; find_certificate's issuer/serial matching is not decided here")
    if ctx.tier == "thorough":
        thorough(ctx)


# ---------------------------------------------------------------------------- thorough tier
def thorough(ctx):
    m = ctx.mod(APK)
    vs = m.func("APK.verify_signature")
    si = m.func("APK.verify_signer_info_against_sig_file")
    gcd = m.func("APK.get_certificate_der")

    def move_assign_before_try(fn):
        for i, s in enumerate(fn.body):
            if isinstance(s, ast.Try):
                for j, t in enumerate(s.body):
                    if isinstance(t, ast.Assign) and not _is_none(t.value):
                        fn.body.insert(i, s.body.pop(j))
                        return
        raise LookupError

    def assign_in_handler(fn):
        for s in ast.walk(fn):
            if isinstance(s, ast.Try):
                a = [t for t in s.body if isinstance(t, ast.Assign) and not _is_none(t.value)]
                if a and s.handlers:
                    s.handlers[0].body.append(ast.parse(ast.unparse(a[0])).body[0])
                    return
        raise LookupError

    def else_raise_to_pass(fn):
        for s in ast.walk(fn):
            if isinstance(s, ast.If) and len(s.orelse) == 1 and isinstance(s.orelse[0], ast.Raise):
                s.orelse = [ast.Pass()]
                return
        raise LookupError

    def drop_verify(fn):
        for s in ast.walk(fn):
            if isinstance(s, ast.If):
                for i, t in enumerate(s.body):
                    if isinstance(t, ast.Expr) and isinstance(t.value, ast.Call) and isinstance(t.value.func, ast.Attribute) and t.value.func.attr == "verify":
                        s.body[i] = ast.Pass()
                        return
        raise LookupError

    def swap_verify_args(fn):
        for c in ast.walk(fn):
            if isinstance(c, ast.Call) and isinstance(c.func, ast.Attribute) and c.func.attr == "verify" and len(c.args) >= 2:
                c.args[0], c.args[1] = c.args[1], c.args[0]
                return
        raise LookupError

    def digest_return_to_pass(fn):
        for s in ast.walk(fn):
            if isinstance(s, ast.If) and "digest" in ast.unparse(s.test) and any(isinstance(t, ast.Return) for t in s.body):
                s.body = [t for t in s.body if not isinstance(t, ast.Return)] or [ast.Pass()]
                return
        raise LookupError

    def digest_negate(fn):
        for s in ast.walk(fn):
            if isinstance(s, ast.If) and "digest" in ast.unparse(s.test) and any(isinstance(t, ast.Return) for t in s.body):
                s.test = ast.UnaryOp(op=ast.Not(), operand=s.test)
                return
        raise LookupError

    def hash_other(fn):
        for c in ast.walk(fn):
            if isinstance(c, ast.Call) and isinstance(c.func, ast.Attribute) and c.func.attr == "update" and c.args:
                c.args[0] = ast.Call(func=ast.Attribute(value=ast.Name(id="signed_attrs", ctx=ast.Load()), attr="dump", ctx=ast.Load()), args=[], keywords=[])
                return
        raise LookupError

    def no_retag(fn):
        for s in ast.walk(fn):
            if isinstance(s, ast.Assign) and isinstance(s.value, ast.BinOp) and isinstance(s.value.left, ast.Constant) and s.value.left.value == SET_TAG:
                s.value = s.value.right.value
                return
        raise LookupError

    def attrs_call_verifies_sf(fn):
        calls = [c for c in ast.walk(fn) if isinstance(c, ast.Call) and isinstance(c.func, ast.Attribute) and c.func.attr == "verify_signature"]
        for c in calls:
            if "dump" in ast.unparse(c.args[2]):
                c.args[2] = ast.Name(id=pos_params(si)[3], ctx=ast.Load())
                return
        raise LookupError

    def none_guard_to_pass(fn):
        for s in ast.walk(fn):
            if isinstance(s, ast.If) and "is None" in ast.unparse(s.test) and any(isinstance(t, ast.Raise) for t in s.body):
                s.body = [ast.Pass()]
                return
        raise LookupError

    def return_first_cert(fn):
        for s in ast.walk(fn):
            if isinstance(s, ast.Return) and isinstance(s.value, ast.Name) and s.value.id != "None":
                s.value = ast.parse("certificates[0].chosen.dump()").body[0].value
                return
        raise LookupError

    def handler_continue(fn):
        for s in ast.walk(fn):
            if isinstance(s, ast.ExceptHandler):
                s.body = [t for t in s.body if not isinstance(t, ast.Return)] + [ast.Continue()]
                return
        raise LookupError

    def wrong_sf(fn):
        for c in ast.walk(fn):
            if isinstance(c, ast.Constant) and c.value == ".SF":
                c.value = ".MF"
                return
        raise LookupError

    mutants = [
        ("verify_signature: certificate assigned before the try", vs, move_assign_before_try),
        ("verify_signature: certificate also assigned in the InvalidSignature handler", vs, assign_in_handler),
        ("verify_signature: unsupported key type falls through", vs, else_raise_to_pass),
        ("verify_signature: one verify call dropped", vs, drop_verify),
        ("verify_signature: signature and data swapped", vs, swap_verify_args),
        ("signer_info: digest mismatch no longer returns", si, digest_return_to_pass),
        ("signer_info: digest comparison negated", si, digest_negate),
        ("signer_info: digest computed over the signed attributes", si, hash_other),
        ("signer_info: signed attributes verified without re-tagging", si, no_retag),
        ("signer_info: signed-attrs arm verifies the .SF directly", si, attrs_call_verifies_sf),
        ("signer_info: missing certificate no longer raises", si, none_guard_to_pass),
        ("get_certificate_der: returns the first certificate of the bag", gcd, return_first_cert),
        ("get_certificate_der: exception -> continue", gcd, handler_continue),
        ("get_certificate_der: checks the manifest instead of the .SF", gcd, wrong_sf),
    ]
    benign = [
        ("verify_signature: locals renamed", vs, rename_locals()),
        ("signer_info: locals renamed", si, rename_locals()),
        ("signer_info: if/else arms flipped", si, flip_ifs()),
        ("signer_info: a != b -> not (a == b)", si, neq_to_not_eq()),
        ("get_certificate_der: locals renamed", gcd, rename_locals()),
        ("get_certificate_der: if/else arms flipped", gcd, flip_ifs()),
    ]
    run_mutants(ctx, core, mutants, benign)
