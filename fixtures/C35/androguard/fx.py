"""Positive and negative examples for the termination certificates of C35.
Parsed by the checker on every run: the *_bad functions must be reported, the *_ok ones certified."""
from struct import unpack


def while_bad(f):
    out = []
    while True:
        z = f.read(16)  # bare read: b'' at EOF, forever
        if 0 in z:
            break
        out.append(z)
    return out


def while_ok(f):
    out = []
    while True:
        (n,) = unpack('<I', f.read(4))  # raises struct.error at EOF
        if n == 0:
            break
        out.append(n)
    return out


def while_eof_exit_ok(f):
    out = []
    while True:
        z = f.read(16)
        if not z:
            break
        out.append(z)
    return out


def seek_back_bad(f):
    while f.tell() < 100:
        start = f.tell()
        (n,) = unpack('<I', f.read(4))
        f.seek(start + n)  # n may be 0: the same header again


def counted_bad(f):
    (n,) = unpack('<I', f.read(4))
    return [f.read(1) for _ in range(n)]  # 2**32 iterations on a 4 byte file


def counted_ok(f):
    (n,) = unpack('<I', f.read(4))
    return [unpack('<B', f.read(1))[0] for _ in range(n)]


def counter_bad(n):
    i = 0
    while i < n:
        if n % 2:
            i += 1


def counter_ok(n):
    i = 0
    while i < n:
        i += 2 if n % 2 else 1


def rec_bad(f, depth=0):
    if depth == -1:
        return depth
    return rec_bad(f, depth + 1)


def rec_ok(f):
    (t,) = unpack('<B', f.read(1))
    if t:
        return [rec_ok(f)]
    return []


def countdown_ok(f, n):
    while n > 0:
        f.read(1)
        n -= 1


def shift_ok(value):
    remaining = value >> 7
    out = []
    while remaining > 0:
        out.append(remaining & 0x7F)
        remaining >>= 7
    return out


def len_bound_ok(f, n):
    items = []
    while len(items) < n:
        items.append(f.read(1))
    return items


def guard_bounded_ok(f, end):
    while f.tell() < end:
        f.seek(f.tell() + 4)


def flag_drain_ok(table):
    order = []
    while table:
        found = False
        for k in list(table):
            if table[k]:
                continue
            order.append(k)
            found = True
            table.pop(k)
        if found is False:
            raise ValueError("cycle")
    return order


def opaque_seek_undecided(f, index):
    while True:
        (n,) = unpack('<I', f.read(4))
        if n == 0:
            break
        f.seek(index[n])  # target not understood: neither certified nor a definite non-progress path


def value_loop_undecided(n):
    while n != 1:
        n = n // 2 if n % 2 == 0 else 3 * n + 1


def rec_stream_bad(f):
    z = f.read(1)  # b'' at EOF: nothing is consumed and the recursion goes on
    if z == b'\x00':
        return []
    return [rec_stream_bad(f)]


def retry_state_undecided(f, tries):
    while tries.count < 3:  # the exit depends on state that a call on the path may change
        f.seek(0)
        unpack('<I', f.read(4))
        tries.bump()


def carried_flag_irrelevant_bad(f, limit):
    size = 0
    i = 0
    while f.tell() < limit:
        if size != 0 and i >= size:  # cannot fire while size stays 0
            break
        entry = f.read(4)
        if any(entry):
            (size,) = unpack('<I', entry)
        i += 1


def length_checked_ok(f):
    out = []
    while True:
        raw = f.read(4)
        if len(raw) != 4:
            raise EOFError("truncated")
        n = int.from_bytes(raw, "little")
        if n == 0:
            break
        out.append(n)
    return out


def indexed_read_undecided(f):
    out = []
    while True:
        b = f.read(1)[0]  # IndexError at EOF: an implicit check this analysis does not model
        if b == 0:
            break
        out.append(b)
    return out


def from_bytes_bad(f):
    out = []
    while True:
        n = int.from_bytes(f.read(4), "little")  # b'' -> 0 is accepted silently ...
        if n == 1:                               # ... and 0 does not leave
            break
        out.append(n)
    return out


def sentinel_bytes_ok(f: "BinaryIO"):
    out = []
    for z in iter(lambda: f.read(16), b''):
        out.append(z)
    return out


def sentinel_wrong_type_bad(f: "BinaryIO"):
    out = []
    for z in iter(lambda: f.read(16), ''):  # b'' != '': never ends at EOF
        out.append(z)
    return out


def sentinel_unknown_stream_undecided(f):
    out = []
    for z in iter(lambda: f.read(16), ''):  # fine for a text stream, endless for a binary one: type not established
        out.append(z)
    return out


def eq_literal_wrong_type_bad(f: "BinaryIO"):
    out = []
    while True:
        z = f.read(16)
        if z == '':  # never true on a binary stream
            break
        out.append(z)
    return out


def walrus_ne_wrong_type_bad(f: "BinaryIO"):
    out = []
    while (z := f.read(16)) != '':  # always true on a binary stream
        out.append(z)
    return out
