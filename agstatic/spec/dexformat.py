"""Independent DEX file-format layout table.

Written from the public document "Dalvik executable format"
(source.android.com/docs/core/runtime/dex-format), NOT from the repository.

Each item is an ordered list of fields ``(name, type, ref)``:

* type  -- the format document's type name: ``ubyte[n]``, ``ushort``, ``uint``,
           ``uleb128``, ``sleb128``, ``uleb128p1``, or ``<item>[<size field>]``
           for an embedded array of another item.
* ref   -- what the value denotes (the *index domain* of the format document):
           ``string`` / ``type`` / ``proto`` / ``field`` / ``method``  index into the
           corresponding ``*_ids`` list; a ``+diff`` suffix marks the
           difference-encoded indices of ``class_data_item``;
           ``off:<item>`` file offset of an item of that kind (0 = none);
           ``size`` element count; ``flags``; ``None`` plain number / bytes.
"""

UBYTE, USHORT, UINT = "ubyte", "ushort", "uint"
ULEB, SLEB, ULEBP1 = "uleb128", "sleb128", "uleb128p1"

# fixed-width scalar types: name -> (bytes, struct code)
SCALARS = {UBYTE: (1, "B"), USHORT: (2, "H"), UINT: (4, "I")}
LEBS = (ULEB, SLEB, ULEBP1)

ITEMS = {
    # header_item --------------------------------------------------------------
    "header_item": [
        ("magic", "ubyte[8]", None),
        ("checksum", UINT, None),
        ("signature", "ubyte[20]", None),
        ("file_size", UINT, None),
        ("header_size", UINT, None),
        ("endian_tag", UINT, None),
        ("link_size", UINT, "size"),
        ("link_off", UINT, "off:link"),
        ("map_off", UINT, "off:map_list"),
        ("string_ids_size", UINT, "size"),
        ("string_ids_off", UINT, "off:string_id_item"),
        ("type_ids_size", UINT, "size"),
        ("type_ids_off", UINT, "off:type_id_item"),
        ("proto_ids_size", UINT, "size"),
        ("proto_ids_off", UINT, "off:proto_id_item"),
        ("field_ids_size", UINT, "size"),
        ("field_ids_off", UINT, "off:field_id_item"),
        ("method_ids_size", UINT, "size"),
        ("method_ids_off", UINT, "off:method_id_item"),
        ("class_defs_size", UINT, "size"),
        ("class_defs_off", UINT, "off:class_def_item"),
        ("data_size", UINT, "size"),
        ("data_off", UINT, "off:data"),
    ],
    # map_list / map_item -----------------------------------------------------
    "map_item": [
        ("type", USHORT, "map_type"),
        ("unused", USHORT, None),
        ("size", UINT, "size"),
        ("offset", UINT, "off:any"),
    ],
    # id items -------------------------------------------------------------------
    "string_id_item": [("string_data_off", UINT, "off:string_data_item")],
    "type_id_item": [("descriptor_idx", UINT, "string")],
    "proto_id_item": [
        ("shorty_idx", UINT, "string"),
        ("return_type_idx", UINT, "type"),
        ("parameters_off", UINT, "off:type_list"),
    ],
    "field_id_item": [
        ("class_idx", USHORT, "type"),
        ("type_idx", USHORT, "type"),
        ("name_idx", UINT, "string"),
    ],
    "method_id_item": [
        ("class_idx", USHORT, "type"),
        ("proto_idx", USHORT, "proto"),
        ("name_idx", UINT, "string"),
    ],
    "class_def_item": [
        ("class_idx", UINT, "type"),
        ("access_flags", UINT, "flags"),
        ("superclass_idx", UINT, "type"),
        ("interfaces_off", UINT, "off:type_list"),
        ("source_file_idx", UINT, "string"),
        ("annotations_off", UINT, "off:annotations_directory_item"),
        ("class_data_off", UINT, "off:class_data_item"),
        ("static_values_off", UINT, "off:encoded_array_item"),
    ],
    # class data -----------------------------------------------------------------
    "class_data_item": [
        ("static_fields_size", ULEB, "size"),
        ("instance_fields_size", ULEB, "size"),
        ("direct_methods_size", ULEB, "size"),
        ("virtual_methods_size", ULEB, "size"),
        ("static_fields", "encoded_field[static_fields_size]", None),
        ("instance_fields", "encoded_field[instance_fields_size]", None),
        ("direct_methods", "encoded_method[direct_methods_size]", None),
        ("virtual_methods", "encoded_method[virtual_methods_size]", None),
    ],
    # "index into the field_ids list ..., represented as a difference from the index of
    #  previous element in the list. The index of the first element in a list is
    #  represented directly."
    "encoded_field": [
        ("field_idx_diff", ULEB, "field+diff"),
        ("access_flags", ULEB, "flags"),
    ],
    "encoded_method": [
        ("method_idx_diff", ULEB, "method+diff"),
        ("access_flags", ULEB, "flags"),
        ("code_off", ULEB, "off:code_item"),
    ],
    # code -------------------------------------------------------------------------
    "code_item": [
        ("registers_size", USHORT, "size"),
        ("ins_size", USHORT, "size"),
        ("outs_size", USHORT, "size"),
        ("tries_size", USHORT, "size"),
        ("debug_info_off", UINT, "off:debug_info_item"),
        ("insns_size", UINT, "size"),           # in 16-bit code units
        ("insns", "ushort[insns_size]", None),
        ("padding", "ushort?", None),           # present iff tries_size != 0 and insns_size is odd
        ("tries", "try_item[tries_size]", None),
        ("handlers", "encoded_catch_handler_list?", None),  # present iff tries_size != 0
    ],
    "try_item": [
        ("start_addr", UINT, None),
        ("insn_count", USHORT, None),
        ("handler_off", USHORT, None),
    ],
    # type_list ------------------------------------------------------------------
    "type_list": [
        ("size", UINT, "size"),
        ("list", "type_item[size]", None),
    ],
    "type_item": [("type_idx", USHORT, "type")],
    "string_data_item": [
        ("utf16_size", ULEB, "size"),
        ("data", "ubyte[]", None),
    ],
}

# map item type codes ("Type codes" table of the format document)
MAP_TYPE_CODES = {
    "header_item": 0x0000, "string_id_item": 0x0001, "type_id_item": 0x0002, "proto_id_item": 0x0003,
    "field_id_item": 0x0004, "method_id_item": 0x0005, "class_def_item": 0x0006, "call_site_id_item": 0x0007,
    "method_handle_item": 0x0008, "map_list": 0x1000, "type_list": 0x1001, "annotation_set_ref_list": 0x1002,
    "annotation_set_item": 0x1003, "class_data_item": 0x2000, "code_item": 0x2001, "string_data_item": 0x2002,
    "debug_info_item": 0x2003, "annotation_item": 0x2004, "encoded_array_item": 0x2005,
    "annotations_directory_item": 0x2006, "hiddenapi_class_data_item": 0xF000,
}

# which *_ids list (map section) an index of a given domain selects from
INDEX_SECTION = {
    "string": "string_id_item", "type": "type_id_item", "proto": "proto_id_item",
    "field": "field_id_item", "method": "method_id_item",
}


def fixed_fields(item):
    """leading fields of `item` that have a fixed width: [(name, offset, nbytes, struct_code, ref)]"""
    out, off = [], 0
    for name, typ, ref in ITEMS[item]:
        if typ in SCALARS:
            n, code = SCALARS[typ]
        elif typ.startswith("ubyte[") and typ[6:-1].isdigit():
            n, code = int(typ[6:-1]), "s"
        else:
            break
        out.append((name, off, n, code, ref))
        off += n
    return out


def fixed_size(item):
    ff = fixed_fields(item)
    return ff[-1][1] + ff[-1][2] if ff else 0


def leb_fields(item):
    """leading LEB128 fields of `item`: [(name, type, ref)]"""
    out = []
    for name, typ, ref in ITEMS[item]:
        if typ not in LEBS:
            break
        out.append((name, typ, ref))
    return out


def field(item, name):
    for f in ITEMS[item]:
        if f[0] == name:
            return f
    raise KeyError((item, name))


def domain(ref):
    """index domain named by a ref: 'string'/'type'/'proto'/'field'/'method' or None"""
    if ref is None:
        return None
    base = ref.split("+")[0]
    return base if base in INDEX_SECTION else None
