"""In-memory mutation adequacy for a rule (thorough tier).

For every target function of a rule a set of canonical *breaking* edits and
*benign* edits is applied to the parsed module (nothing is written to disk,
nothing is executed); the rule is re-run on the mutated source model.
A breaking mutant is 'killed' when the rule reports a new finding (or stops
with an analysis error, counted separately); a benign edit must stay silent.
"""
from __future__ import annotations

import ast
import copy
import os
import random

from .model import Module, Repo, AnalysisError

def clone(node):
    """deep copy of an AST subtree that does not follow the `_parent` back-links"""
    if isinstance(node, ast.AST):
        new = type(node).__new__(type(node))
        for f in node._fields:
            if hasattr(node, f):
                setattr(new, f, clone(getattr(node, f)))
        for a in node._attributes:
            if hasattr(node, a):
                setattr(new, a, getattr(node, a))
        return new
    if isinstance(node, list):
        return [clone(x) for x in node]
    return node


_CMP_FLIP = {ast.Lt: ast.LtE, ast.LtE: ast.Lt, ast.Gt: ast.GtE, ast.GtE: ast.Gt, ast.Eq: ast.NotEq, ast.NotEq: ast.Eq,
             ast.In: ast.NotIn, ast.NotIn: ast.In, ast.Is: ast.IsNot, ast.IsNot: ast.Is}
_FMT_FLIP = str.maketrans("bBhHiIlLqQ", "BbHhIiLlQq")


def _sites(fnode):
    """enumerate (kind, path-index) mutation sites of a function node"""
    sites = []
    for idx, n in enumerate(ast.walk(fnode)):
        if isinstance(n, ast.BinOp):
            if isinstance(n.op, (ast.LShift, ast.RShift)) and isinstance(n.right, ast.Constant) and isinstance(n.right.value, int):
                sites.append(("shift+1", idx))
            if isinstance(n.op, ast.BitAnd):
                for side in ("left", "right"):
                    c = getattr(n, side)
                    if isinstance(c, ast.Constant) and isinstance(c.value, int) and not isinstance(c.value, bool) and c.value > 1:
                        sites.append(("mask>>1:" + side, idx))
            if isinstance(n.op, (ast.Add, ast.Sub)) and isinstance(n.right, ast.Constant) and isinstance(n.right.value, int) and not isinstance(n.right.value, bool):
                sites.append(("const+1", idx))
            if isinstance(n.op, (ast.Sub, ast.LShift, ast.RShift, ast.FloorDiv)) and not isinstance(n.right, ast.Constant):
                sites.append(("swap-operands", idx))
            if isinstance(n.op, ast.Mult) and isinstance(n.right, ast.Constant) and isinstance(n.right.value, int) and n.right.value in (2, 4, 8):
                sites.append(("mult-const", idx))
            if isinstance(n.op, ast.Add):
                sites.append(("add->sub", idx))
            if isinstance(n.op, ast.BitOr):
                sites.append(("or->and", idx))
        elif isinstance(n, ast.Compare) and len(n.ops) == 1 and type(n.ops[0]) in _CMP_FLIP:
            sites.append(("cmp-flip", idx))
            if isinstance(n.comparators[0], ast.Constant) and isinstance(n.comparators[0].value, int) and not isinstance(n.comparators[0].value, bool):
                sites.append(("cmp-const+1", idx))
        elif isinstance(n, ast.BoolOp):
            sites.append(("and<->or", idx))
        elif isinstance(n, ast.UnaryOp) and isinstance(n.op, ast.Not):
            sites.append(("drop-not", idx))
        elif isinstance(n, ast.Raise):
            sites.append(("raise->pass", idx))
        elif isinstance(n, ast.If) and not n.orelse:
            sites.append(("if-true", idx))
        elif isinstance(n, ast.Call):
            pos = [a for a in n.args if not isinstance(a, ast.Starred)]
            if len(pos) >= 2 and ast.dump(pos[0]) != ast.dump(pos[1]):
                sites.append(("swap-args", idx))
        elif isinstance(n, ast.Constant) and isinstance(n.value, str) and 0 < len(n.value) <= 6 and all(c in "bBhHiIlLqQ0123456789<=>" for c in n.value) and any(c.isalpha() for c in n.value):
            sites.append(("fmt-sign", idx))
        elif isinstance(n, ast.Return) and n.value is not None and not isinstance(n.value, ast.Constant):
            sites.append(("return-none", idx))
        elif isinstance(n, (ast.Break, ast.Continue)):
            sites.append(("loopctl->pass", idx))
        elif isinstance(n, ast.Expr) and isinstance(n.value, ast.Call):
            sites.append(("drop-call", idx))
    return sites


def _apply(fnode, kind, idx):
    """-> mutated deep copy of fnode (or None)"""
    f2 = clone(fnode)
    nodes = list(ast.walk(f2))
    n = nodes[idx]
    k = kind.split(":")[0]
    if k == "shift+1":
        n.right = ast.Constant(n.right.value + 1)
    elif k == "mask>>1":
        side = kind.split(":")[1]
        c = getattr(n, side)
        setattr(n, side, ast.Constant(c.value >> 1))
    elif k == "const+1":
        n.right = ast.Constant(n.right.value + 1)
    elif k == "swap-operands":
        n.left, n.right = n.right, n.left
    elif k == "mult-const":
        n.right = ast.Constant(n.right.value + 1)
    elif k == "add->sub":
        n.op = ast.Sub()
    elif k == "or->and":
        n.op = ast.BitAnd()
    elif k == "cmp-flip":
        n.ops = [_CMP_FLIP[type(n.ops[0])]()]
    elif k == "cmp-const+1":
        n.comparators = [ast.Constant(n.comparators[0].value + 1)]
    elif k == "and<->or":
        n.op = ast.Or() if isinstance(n.op, ast.And) else ast.And()
    elif k == "drop-not":
        _replace(f2, n, n.operand)
    elif k == "raise->pass":
        _replace(f2, n, ast.Pass())
    elif k == "if-true":
        n.test = ast.Constant(True)
    elif k == "swap-args":
        n.args[0], n.args[1] = n.args[1], n.args[0]
    elif k == "fmt-sign":
        n.value = n.value.translate(_FMT_FLIP)
    elif k == "return-none":
        n.value = ast.Constant(None)
    elif k == "loopctl->pass":
        _replace(f2, n, ast.Pass())
    elif k == "drop-call":
        _replace(f2, n, ast.Pass())
    else:
        return None
    ast.fix_missing_locations(f2)
    return f2


def _replace(root, old, new):
    for p in ast.walk(root):
        for field, val in ast.iter_fields(p):
            if val is old:
                setattr(p, field, new)
                return
            if isinstance(val, list):
                for i, x in enumerate(val):
                    if x is old:
                        val[i] = new
                        return


# ---- benign edits -----------------------------------------------------------
def _benign_variants(fnode):
    out = []
    # rename a local
    stores = []
    for n in ast.walk(fnode):
        if isinstance(n, ast.Name) and isinstance(n.ctx, ast.Store) and n.id not in stores and not n.id.startswith("_"):
            stores.append(n.id)
    params = {a.arg for a in fnode.args.args + fnode.args.kwonlyargs + fnode.args.posonlyargs}
    globs = set()
    for n in ast.walk(fnode):
        if isinstance(n, (ast.Global, ast.Nonlocal)):
            globs.update(n.names)
    for name in stores[:3]:
        if name in params or name in globs:
            continue
        f2 = clone(fnode)
        for n in ast.walk(f2):
            if isinstance(n, ast.Name) and n.id == name:
                n.id = name + "_renamed"
        out.append(("rename-local:" + name, f2))
    # commutative operand swap
    cnt = 0
    for idx, n in enumerate(ast.walk(fnode)):
        if isinstance(n, ast.BinOp) and isinstance(n.op, (ast.BitOr, ast.BitAnd, ast.BitXor)) and cnt < 3:
            f2 = clone(fnode)
            m = list(ast.walk(f2))[idx]
            m.left, m.right = m.right, m.left
            out.append(("commute:%d" % idx, f2))
            cnt += 1
    # augmented assignment expansion
    cnt = 0
    for idx, n in enumerate(ast.walk(fnode)):
        if isinstance(n, ast.AugAssign) and isinstance(n.target, ast.Name) and cnt < 2:
            f2 = clone(fnode)
            m = list(ast.walk(f2))[idx]
            new = ast.Assign(targets=[ast.Name(m.target.id, ast.Store())], value=ast.BinOp(ast.Name(m.target.id, ast.Load()), m.op, m.value))
            _replace(f2, m, new)
            ast.fix_missing_locations(f2)
            out.append(("expand-augassign:%d" % idx, f2))
            cnt += 1
    # leading no-op statement
    f2 = clone(fnode)
    body = f2.body
    ins = 1 if body and isinstance(body[0], ast.Expr) and isinstance(body[0].value, ast.Constant) else 0
    body.insert(ins, ast.Pass())
    ast.fix_missing_locations(f2)
    out.append(("insert-pass", f2))
    return out


# ---- building a mutated repo ----------------------------------------------------
def _find_func(tree, qualname):
    parts = qualname.split(".")
    body = tree.body
    node = None
    for i, p in enumerate(parts):
        node = None
        for n in body:
            if isinstance(n, (ast.FunctionDef, ast.AsyncFunctionDef, ast.ClassDef)) and n.name == p:
                node = n
                break
            if isinstance(n, (ast.If, ast.Try)):
                for s in ast.walk(n):
                    if isinstance(s, (ast.FunctionDef, ast.ClassDef)) and s.name == p:
                        node = s
                        break
        if node is None:
            return None
        body = node.body
    return node


def mutated_repo(base: Repo, relpath, qualname, new_fnode):
    """a Repo that shares every parsed module with `base` except `relpath`, whose function `qualname`
    is replaced by new_fnode (class/function tables, class node body and module body are rebuilt
    shallowly; nothing is re-parsed)."""
    from .model import Func, Cls
    m = base.modules[relpath]
    if qualname not in m.functions:
        raise AnalysisError("mutation target %s:%s not found" % (relpath, qualname))
    old = m.functions[qualname].node
    r = Repo.__new__(Repo)
    r.root = base.root
    r.modules = dict(base.modules)
    r.consulted = set()
    m2 = copy.copy(m)
    m2.repo = r
    m2.classes = {}
    m2.functions = {}
    for name, c in m.classes.items():
        c2 = copy.copy(c)
        c2.module = m2
        c2.methods = {}
        m2.classes[name] = c2
    for qn, f in m.functions.items():
        f2 = copy.copy(f)
        f2.module = m2
        f2.cls = m2.classes[f.cls.name] if f.cls is not None and f.cls.name in m2.classes else None
        m2.functions[qn] = f2
        if f2.cls is not None:
            f2.cls.methods[f.node.name] = f2
    tgt = m2.functions[qualname]
    tgt.node = new_fnode
    for p in ast.walk(new_fnode):
        for ch in ast.iter_child_nodes(p):
            ch._parent = p
    if tgt.cls is not None:
        cn = copy.copy(tgt.cls.node)
        cn.body = [new_fnode if n is old else n for n in tgt.cls.node.body]
        cn._parent = getattr(tgt.cls.node, "_parent", None)
        new_fnode._parent = cn
        tgt.cls.node = cn
        body = [cn if n is m.classes[tgt.cls.name].node else n for n in m.tree.body]
    else:
        body = [new_fnode if n is old else n for n in m.tree.body]
    m2.tree = ast.Module(body=body, type_ignores=[])
    if tgt.cls is None:
        new_fnode._parent = m2.tree
    r.modules[relpath] = m2
    r._dotted = {mm.dotted: mm for mm in r.modules.values()}
    for mm in r.modules.values():
        mm.repo = r
    return r


def plan(base: Repo, targets, seed=0, limit=160):
    """-> list of (kind 'break'|'benign', relpath, qualname, description, site) ; sampled deterministically"""
    items = []
    for relpath, qualname in targets:
        m = base.modules.get(relpath)
        if m is None:
            raise AnalysisError("mutation target vanished: %s" % relpath)
        if qualname not in m.functions:
            continue
        fnode = m.functions[qualname].node
        for kind, idx in _sites(fnode):
            items.append(("break", relpath, qualname, kind, idx))
        for i, (desc, _) in enumerate(_benign_variants(fnode)):
            items.append(("benign", relpath, qualname, desc, i))
    rnd = random.Random(seed)
    br = [x for x in items if x[0] == "break"]
    be = [x for x in items if x[0] == "benign"]
    if len(br) > limit:
        br = rnd.sample(br, limit)
    if len(be) > limit // 3:
        be = rnd.sample(be, limit // 3)
    return br + be


def build(base: Repo, item):
    kind, relpath, qualname, desc, site = item
    fnode = base.modules[relpath].functions[qualname].node
    if kind == "break":
        f2 = _apply(fnode, desc, site)
    else:
        f2 = _benign_variants(fnode)[site][1]
    if f2 is None:
        return None
    try:
        compile(ast.Module(body=[f2], type_ignores=[]), "<mutant>", "exec")
    except Exception:
        return None
    return mutated_repo(base, relpath, qualname, f2)
