#!/bin/sh
# run every registered quick (or thorough) check; print id, exit code, wall seconds
tier="${1:-quick}"
cd "$(dirname "$0")/.."
for id in $(/venv/bin/python -c "import json;print(' '.join(c['property_id'] for c in json.load(open('MANIFEST.json'))['checks']))"); do
  s=$(date +%s.%N)
  ./check $id --tier $tier > /tmp/runall_$id.out 2>&1; rc=$?
  e=$(date +%s.%N)
  printf "%s rc=%s %.1fs %s\n" $id $rc $(echo "$e - $s" | bc) "$(grep -c '^KNOWN-FINDING' /tmp/runall_$id.out) known $(grep -c '^VIOLATION' /tmp/runall_$id.out) viol $(grep '^ANALYSIS-ERROR' /tmp/runall_$id.out | cut -c1-120)"
done
