"""C07 -- DEX parsing does not depend on the order of the map list.

Static conditions that make the parse a function of the *set* of map entries:
(1) load order: TypeMapItem._get_dependencies() and determine_load_order() are closed
    functions (no inputs): they are folded by the checker's own evaluator (module
    constants, helper functions, comprehensions, next(), for/else ... are followed) and the
    *result* is judged: total over the 21 map types, dependencies acyclic, ranks
    injective and topological.
    parse order / registration / entry isolation: MapList.__init__ is executed abstractly on
    map lists of three entries of distinct types in all six orders (two triples): the
    sequence of MapItem.parse() calls must be the load order for every permutation, each
    parsed entry is registered once under its own type before the next parse, and the
    state of an entry when its parse() starts must be the same in every permutation
    (byte sources re-based to the entry's start): nothing that depends on the position
    or the neighbours of an entry reaches its parse.  MapItem.parse() has no other
    call site than MapList.__init__ and the helpers it calls on self;
(2) cursor independence: for every map type, MapItem.parse() (run with an unknown
    stream cursor) positions the stream with a seek whose target is a function of the
    entry's own offset field only, immediately before constructing the item; map
    entries are read at a fixed 12-byte stride independent of what the entry constructor consumed;
(3) no parse-time function reads the map item list; get_item_type selects by
    type; ClassManager.add_type_item stores by type / offset keys (the
    registration-order list is read only by get_next_offset_item and is recorded);
(4) dependency soundness: for each type T the map sections read at parse time
    (typed call-graph closure of the constructors chosen in T's branch down to the
    ClassManager accessors; getattr dispatch through constant tables is followed) are
    contained in the transitive closure of _get_dependencies()[T].
A violation is reported only for a positively established fact (a concrete parse
sequence, a concrete differing attribute value, a resolved call path); opaque values
and unknown shapes give exit 2.
Not decided: map lists that contain the same type twice (sorted() is stable).
"""
from __future__ import annotations

OWN_MUTATION_ADEQUACY = True  # thorough tier: rule-specific in-place AST mutants (mutate / re-run core / undo), see thorough()

import ast

import networkx as nx

from ..absint import Sym, Lin, Obj, Comp, Raised, explore, show
from ..bits import Bits
from ..consts import Folder, Ref, EnumVal
from ..dexmodel import DexInterp, StreamV, CMInfo, CallGraph, bind_ctor_args, prov, show_prov, slot_bits, STREAM_SPAN
from ..model import DEX, DEX_TYPES, AnalysisError, walk_no_nested, dotted, parent, norm
from ..spec import dexformat as spec
from .c05 import Sink


# ---------------------------------------------------------------------------
# a small evaluator for *closed* builder functions (no parameters, no I/O): dicts, sets, ints, enum members
class _Brk(Exception):
    pass


class _Cnt(Exception):
    pass


class _Ret(Exception):
    def __init__(self, v):
        self.v = v


class FoldRaise(Exception):
    def __init__(self, node, text):
        self.node, self.text = node, text


class _FuncRef:
    def __init__(self, f):
        self.f = f


class _Closure:
    def __init__(self, node, env):
        self.node, self.env = node, env


class _EnumCls:
    pass


class ClosedFold:
    """concrete evaluator for closed builder code: no I/O, values are ints / strings / enum members / tuples / lists / dicts /
    sets / sentinels; module-level constants and module-level or static helper functions (with parameters) are followed."""

    def __init__(self, module, members, enum_name, funcs, budget=400000):
        self.module, self.members, self.enum_name, self.funcs = module, members, enum_name, funcs
        self.budget = budget
        self.enumcls = _EnumCls()
        self._consts = {}
        self.depth = 0

    def out(self, node, what):
        raise AnalysisError("%s:%d: %s is outside the closed-function fragment: %s" % (
            self.module.relpath, getattr(node, "lineno", 0), what, ast.unparse(node)[:80]))

    def tick(self):
        self.budget -= 1
        if self.budget < 0:
            raise AnalysisError("closed-function fold: step budget exhausted (non-terminating loop?)")

    def call(self, func, args=()):
        return self.call_node(func.node, list(args), {})

    def call_node(self, node, args, captured):
        self.depth += 1
        if self.depth > 40:
            raise AnalysisError("closed-function fold: recursion too deep")
        a = node.args
        params = [x.arg for x in a.posonlyargs + a.args]
        if a.vararg or a.kwarg or a.kwonlyargs:
            self.out(node, "signature")
        env = dict(captured)
        defaults = list(a.defaults)
        for i, p in enumerate(params):
            if i < len(args):
                env[p] = args[i]
            else:
                di = i - (len(params) - len(defaults))
                if 0 <= di < len(defaults):
                    env[p] = self.ev(defaults[di], {})
                else:
                    self.out(node, "missing argument %s" % p)
        if len(args) > len(params):
            self.out(node, "too many arguments")
        try:
            if isinstance(node, ast.Lambda):
                return self.ev(node.body, env)
            self.block(node.body, env)
        except _Ret as r:
            return r.v
        finally:
            self.depth -= 1
        return None

    def block(self, stmts, env):
        for s in stmts:
            self.stmt(s, env)

    def iterate(self, it, node):
        if isinstance(it, dict):
            return list(it.keys())
        if isinstance(it, (set, frozenset)):
            try:
                return sorted(it, key=int)
            except Exception:
                self.out(node, "iteration over a set of non-integers")
        if isinstance(it, (list, tuple, range, str)):
            return list(it)
        self.out(node, "iteration")

    def stmt(self, s, env):
        self.tick()
        if isinstance(s, ast.Expr):
            if not isinstance(s.value, ast.Constant):
                self.ev(s.value, env)
        elif isinstance(s, ast.Assign):
            v = self.ev(s.value, env)
            for t in s.targets:
                self.assign(t, v, env)
        elif isinstance(s, ast.AnnAssign):
            if s.value is not None:
                self.assign(s.target, self.ev(s.value, env), env)
        elif isinstance(s, ast.AugAssign):
            cur = self.ev(ast.copy_location(_as_load(s.target), s.target), env)
            v = self.binop(s.op, cur, self.ev(s.value, env), s)
            self.assign(s.target, v, env)
        elif isinstance(s, ast.If):
            self.block(s.body if self.ev(s.test, env) else s.orelse, env)
        elif isinstance(s, ast.While):
            while self.ev(s.test, env):
                self.tick()
                try:
                    self.block(s.body, env)
                except _Brk:
                    break
                except _Cnt:
                    continue
            else:
                self.block(s.orelse, env)
        elif isinstance(s, ast.For):
            broke = False
            for x in self.iterate(self.ev(s.iter, env), s.iter):
                self.assign(s.target, x, env)
                try:
                    self.block(s.body, env)
                except _Brk:
                    broke = True
                    break
                except _Cnt:
                    continue
            if not broke:
                self.block(s.orelse, env)
        elif isinstance(s, ast.Break):
            raise _Brk()
        elif isinstance(s, ast.Continue):
            raise _Cnt()
        elif isinstance(s, ast.Pass):
            pass
        elif isinstance(s, ast.Return):
            raise _Ret(self.ev(s.value, env) if s.value is not None else None)
        elif isinstance(s, ast.Raise):
            raise FoldRaise(s, ast.unparse(s)[:100])
        elif isinstance(s, ast.Assert):
            if not self.ev(s.test, env):
                raise FoldRaise(s, ast.unparse(s)[:100])
        elif isinstance(s, ast.Delete):
            for t in s.targets:
                if isinstance(t, ast.Subscript):
                    o = self.ev(t.value, env)
                    try:
                        del o[self.ev(t.slice, env)]
                    except Exception as ex:
                        raise FoldRaise(s, "%s: %s" % (type(ex).__name__, ex))
                elif isinstance(t, ast.Name):
                    env.pop(t.id, None)
                else:
                    self.out(s, "del target")
        elif isinstance(s, ast.FunctionDef):
            env[s.name] = _Closure(s, env)
        elif isinstance(s, ast.Try):
            try:
                self.block(s.body, env)
            except FoldRaise as r:
                if not s.handlers:
                    raise
                self.out(s, "exception handling")
            self.block(s.orelse, env)
            self.block(s.finalbody, env)
        else:
            self.out(s, "statement")

    def assign(self, t, v, env):
        if isinstance(t, ast.Name):
            env[t.id] = v
        elif isinstance(t, (ast.Tuple, ast.List)):
            vs = list(v)
            if len(vs) != len(t.elts):
                self.out(t, "unpacking of %d values" % len(vs))
            for tt, vv in zip(t.elts, vs):
                self.assign(tt, vv, env)
        elif isinstance(t, ast.Subscript):
            o = self.ev(t.value, env)
            if not isinstance(o, (dict, list)):
                self.out(t, "subscript store")
            o[self.ev(t.slice, env)] = v
        else:
            self.out(t, "assignment target")

    def binop(self, op, a, b, node):
        import operator as o
        tbl = {ast.Add: o.add, ast.Sub: o.sub, ast.Mult: o.mul, ast.BitOr: o.or_, ast.BitAnd: o.and_, ast.FloorDiv: o.floordiv, ast.Mod: o.mod}
        if type(op) not in tbl:
            self.out(node, "operator")
        try:
            return tbl[type(op)](a, b)
        except Exception as ex:
            self.out(node, "operation (%s)" % ex)

    def global_name(self, e):
        name = e.id
        if name == self.enum_name:
            return self.enumcls
        if name in self._consts:
            return self._consts[name]
        if name in self.module.assigns:
            self._consts[name] = v = self.ev(self.module.assigns[name], {})
            return v
        f = self.module.functions.get(name)
        if f is not None and f.cls is None:
            return _FuncRef(f)
        self.out(e, "free name")

    def comp(self, e, env):
        out = []

        def rec(gi, env2):
            if gi == len(e.generators):
                if isinstance(e, ast.DictComp):
                    out.append((self.ev(e.key, env2), self.ev(e.value, env2)))
                else:
                    out.append(self.ev(e.elt, env2))
                return
            g = e.generators[gi]
            for x in self.iterate(self.ev(g.iter, env2), g.iter):
                self.tick()
                env3 = dict(env2)
                self.assign(g.target, x, env3)
                if all(self.ev(c, env3) for c in g.ifs):
                    rec(gi + 1, env3)
        rec(0, env)
        return out

    def ev(self, e, env):
        self.tick()
        if isinstance(e, ast.Constant):
            return e.value
        if isinstance(e, ast.Name):
            if e.id in env:
                return env[e.id]
            if e.id in ("True", "False", "None"):
                return {"True": True, "False": False, "None": None}[e.id]
            return self.global_name(e)
        if isinstance(e, ast.Attribute):
            base = self.ev(e.value, env) if not (isinstance(e.value, ast.Name) and e.value.id == self.enum_name and e.value.id not in env) else self.enumcls
            if base is self.enumcls:
                if e.attr in self.members:
                    return self.members[e.attr]
                if e.attr in self.funcs:
                    return _FuncRef(self.funcs[e.attr])
            if isinstance(base, (dict, set, list)) :
                return ("bound", base, e.attr)
            self.out(e, "attribute")
        if isinstance(e, (ast.Tuple, ast.List)):
            vs = [self.ev(x, env) for x in e.elts]
            return tuple(vs) if isinstance(e, ast.Tuple) else vs
        if isinstance(e, ast.Set):
            return {self.ev(x, env) for x in e.elts}
        if isinstance(e, ast.Dict):
            return {self.ev(k, env): self.ev(v, env) for k, v in zip(e.keys, e.values)}
        if isinstance(e, ast.UnaryOp):
            v = self.ev(e.operand, env)
            if isinstance(e.op, ast.Not):
                return not v
            if isinstance(e.op, ast.USub):
                return -v
            self.out(e, "unary operator")
        if isinstance(e, ast.BoolOp):
            last = None
            for x in e.values:
                last = self.ev(x, env)
                if isinstance(e.op, ast.And) and not last:
                    return last
                if isinstance(e.op, ast.Or) and last:
                    return last
            return last
        if isinstance(e, ast.BinOp):
            return self.binop(e.op, self.ev(e.left, env), self.ev(e.right, env), e)
        if isinstance(e, ast.IfExp):
            return self.ev(e.body if self.ev(e.test, env) else e.orelse, env)
        if isinstance(e, ast.Compare):
            left = self.ev(e.left, env)
            for op, c in zip(e.ops, e.comparators):
                right = self.ev(c, env)
                if not self.cmp(op, left, right, e):
                    return False
                left = right
            return True
        if isinstance(e, ast.Subscript):
            o = self.ev(e.value, env)
            if isinstance(e.slice, ast.Slice):
                lo = self.ev(e.slice.lower, env) if e.slice.lower else None
                hi = self.ev(e.slice.upper, env) if e.slice.upper else None
                return o[lo:hi]
            k = self.ev(e.slice, env)
            try:
                return o[k]
            except Exception as ex:
                raise FoldRaise(e, "%s: %s" % (type(ex).__name__, ex))
        if isinstance(e, (ast.ListComp, ast.GeneratorExp)):
            return self.comp(e, env)
        if isinstance(e, ast.SetComp):
            return set(self.comp(e, env))
        if isinstance(e, ast.DictComp):
            return dict(self.comp(e, env))
        if isinstance(e, ast.Lambda):
            return _Closure(e, env)
        if isinstance(e, ast.NamedExpr):
            v = self.ev(e.value, env)
            self.assign(e.target, v, env)
            return v
        if isinstance(e, ast.Call):
            return self.callx(e, env)
        self.out(e, "expression")

    def cmp(self, op, a, b, node):
        if isinstance(op, ast.Is):
            return a is b or (isinstance(a, (bool, type(None))) and isinstance(b, (bool, type(None))) and a == b and type(a) == type(b))
        if isinstance(op, ast.IsNot):
            return not self.cmp(ast.Is(), a, b, node)
        if isinstance(op, ast.Eq):
            return a == b
        if isinstance(op, ast.NotEq):
            return a != b
        if isinstance(op, ast.In):
            return a in b
        if isinstance(op, ast.NotIn):
            return a not in b
        import operator as o
        tbl = {ast.Lt: o.lt, ast.LtE: o.le, ast.Gt: o.gt, ast.GtE: o.ge}
        if type(op) in tbl:
            return tbl[type(op)](a, b)
        self.out(node, "comparison")

    def apply(self, fv, args, node):
        if isinstance(fv, _FuncRef):
            return self.call_node(fv.f.node, args, {})
        if isinstance(fv, _Closure):
            return self.call_node(fv.node, args, fv.env)
        if isinstance(fv, tuple) and fv and fv[0] == "bound":
            return self.method(fv[1], fv[2], args, node)
        self.out(node, "callable")

    def method(self, o, m, args, e):
        if isinstance(o, dict) and m in ("items", "keys", "values", "pop", "get", "copy", "popitem", "setdefault", "__getitem__", "update"):
            if m == "items":
                return list(o.items())
            if m == "keys":
                return list(o.keys())
            if m == "values":
                return list(o.values())
            if m == "copy":
                return dict(o)
            try:
                return getattr(o, m)(*args)
            except KeyError as ex:
                raise FoldRaise(e, "KeyError: %s" % ex)
        if isinstance(o, (set, frozenset)) and m in ("discard", "remove", "add", "copy", "issubset", "union", "difference", "update", "isdisjoint", "difference_update"):
            try:
                return getattr(o, m)(*args)
            except KeyError as ex:
                raise FoldRaise(e, "KeyError: %s" % ex)
        if isinstance(o, list) and m in ("append", "extend", "pop", "index", "remove", "insert", "__getitem__", "copy"):
            try:
                return getattr(o, m)(*args)
            except (ValueError, IndexError) as ex:
                raise FoldRaise(e, "%s: %s" % (type(ex).__name__, ex))
        if isinstance(o, tuple) and m in ("index", "count", "__getitem__"):
            return getattr(o, m)(*args)
        self.out(e, "method call")

    def callx(self, e, env):
        fn = e.func
        kw = {k.arg: self.ev(k.value, env) for k in e.keywords}
        if None in kw:
            self.out(e, "** arguments")
        args = []
        for a in e.args:
            if isinstance(a, ast.Starred):
                args.extend(self.iterate(self.ev(a.value, env), a))
            else:
                args.append(self.ev(a, env))
        if isinstance(fn, ast.Name) and fn.id not in env and fn.id not in self.module.functions and fn.id not in self.module.assigns:
            n = fn.id
            if kw and not (n in ("sorted", "min", "max") and set(kw) <= {"key", "reverse", "default"}):
                self.out(e, "keyword arguments")
            if n in ("dict", "OrderedDict"):
                if not args:
                    return {}
                if isinstance(args[0], dict):
                    return dict(args[0])
                return {k: v for k, v in args[0]}
            if n == "set":
                return set(args[0]) if args else set()
            if n == "frozenset":
                return frozenset(args[0]) if args else frozenset()
            if n == "list":
                return list(self.iterate(args[0], e)) if args else []
            if n == "tuple":
                return tuple(self.iterate(args[0], e)) if args else ()
            if n == "len":
                return len(args[0])
            if n == "object":
                return object()
            if n == "next":
                seq = self.iterate(args[0], e)
                if seq:
                    return seq[0]
                if len(args) > 1:
                    return args[1]
                raise FoldRaise(e, "StopIteration")
            if n == "iter":
                return self.iterate(args[0], e)
            if n in ("any", "all"):
                return (any if n == "any" else all)(self.iterate(args[0], e))
            if n == "enumerate":
                return list(enumerate(self.iterate(args[0], e), *args[1:]))
            if n == "zip":
                return list(zip(*[self.iterate(a, e) for a in args]))
            if n == "sorted":
                seq = self.iterate(args[0], e)
                key = kw.get("key")
                keyf = (lambda x: self.apply(key, [x], e)) if key is not None else (lambda x: (int(x[0]),) if isinstance(x, tuple) else int(x))
                return sorted(seq, key=keyf, reverse=bool(kw.get("reverse", False)))
            if n in ("min", "max"):
                seq = self.iterate(args[0], e) if len(args) == 1 else args
                key = kw.get("key")
                f2 = min if n == "min" else max
                if not seq and "default" in kw:
                    return kw["default"]
                return f2(seq, key=(lambda x: self.apply(key, [x], e))) if key is not None else f2(seq)
            if n == "range":
                return list(range(*args))
            if n == "int":
                return int(args[0])
            if n == "isinstance":
                self.out(e, "isinstance")
            if n == "Exception":
                return ("exception", args)
            self.out(e, "call")
        if kw:
            self.out(e, "keyword arguments")
        if isinstance(fn, ast.Attribute):
            base = None
            if isinstance(fn.value, ast.Name) and fn.value.id == self.enum_name and fn.value.id not in env:
                base = self.enumcls
            else:
                base = self.ev(fn.value, env)
            if base is self.enumcls:
                if fn.attr in self.funcs:
                    return self.call_node(self.funcs[fn.attr].node, args, {})
                self.out(e, "enum method")
            return self.method(base, fn.attr, args, e)
        return self.apply(self.ev(fn, env), args, e)


def _as_load(t):
    import copy
    t2 = copy.copy(t)
    t2.ctx = ast.Load()
    return t2


# ---------------------------------------------------------------------------
class _T:
    def __init__(self, f):
        self.qualname, self.file, self.line = f.qualname, f.file, f.line


def run(ctx):
    ctx.explanation = __doc__
    core(ctx)
    ctx.floor("map_types", 21)
    ctx.floor("parse_branches", 18)       # 21 types - MAP_LIST (itself) - CALL_SITE_ITEM - METHOD_HANDLE_ITEM (not parsed)
    ctx.floor("constructor_chains", 18)
    ctx.floor("constructors_in_chains", 30)
    ctx.floor("dependency_edges", 40)
    ctx.floor("parse_calls", 1)
    ctx.floor("section_reads", 25)
    if "simulated_orders" in ctx.counts or not ctx.findings:
        ctx.floor("simulated_orders", 18)   # skipped only when the load order itself is already reported as broken
        ctx.floor("simulated_histories", 10)
    ctx.assume("TypeMapItem(x) raises ValueError for a type code outside the enumeration, so every MapItem carries one of the 21 members")
    ctx.assume("a map list names every type at most once (format requirement); duplicates are not decided (sorted() is stable)")
    positive_control(ctx)
    if ctx.tier == "thorough":
        thorough(ctx)


def _constant_rank(tm):
    node = tm.func("TypeMapItem.determine_load_order").node
    for n in ast.walk(node):
        if isinstance(n, ast.Assign) and isinstance(n.targets[0], ast.Subscript) and not isinstance(n.value, ast.Constant):
            old = n.value
            n.value = ast.Constant(0)

            def undo():
                n.value = old
            return undo
    return None


def positive_control(ctx):
    """one seeded violation per run: the order judge must fire when two types of the (folded) load order share a rank"""
    tm = ctx.mod(DEX_TYPES)
    s = Sink(ctx.repo)
    try:
        cmi = CMInfo(ctx.repo, Folder(ctx.repo))
        check_order(s, tm, cmi, cmi.members, seed_equal_ranks=True)
    except AnalysisError:
        pass
    fired = any(f[0].startswith("order/") for f in s.findings)
    ctx.ob("positive-control", "seeded equal ranks", fired, "order rule fires on the seeded violation")
    ctx.require(fired, "positive control did not fire: the load-order rule no longer detects equal ranks")


def core(ctx):
    repo = ctx.repo
    m = ctx.mod(DEX)
    tm = ctx.mod(DEX_TYPES)
    folder = Folder(repo)
    cmi = CMInfo(repo, folder)
    members = cmi.members
    ctx.count("map_types", len(members))
    # spec cross-check of the type codes (cheap; makes the member set an anchored fact)
    codes = {k.upper(): v for k, v in spec.MAP_TYPE_CODES.items()}
    codes["CALL_SITE_ITEM"] = codes.pop("CALL_SITE_ID_ITEM")
    for name, v in sorted(members.items()):
        ctx.check("map-types", "TypeMapItem.%s" % name, codes.get(name) == int(v), _T(tm.func("TypeMapItem._get_dependencies")),
                  "TypeMapItem.%s = 0x%x" % (name, int(v)),
                  "map type code of %s is 0x%x in the repository, %s in the format document" % (
                      name, int(v), ("0x%x" % codes[name]) if name in codes else "absent"))
    deps, order = check_order(ctx, tm, cmi, members)
    check_parse_sites(ctx, repo, m, cmi)
    if order is None or set(order) != set(members.values()) or len(set(order.values())) != len(order):
        raise_after = True
        lst_attr = None
    else:
        raise_after = False
        lst_attr = simulate_map_list(ctx, repo, m, folder, cmi, order)
    ctors = check_seeks(ctx, repo, m, folder, cmi, members)
    closures = check_dependencies(ctx, repo, m, tm, cmi, deps, ctors)
    if lst_attr is not None:
        check_list_order(ctx, repo, m, cmi, lst_attr, closures)


# ---- (1c) load order ----------------------------------------------------------------------
def check_order(ctx, tm, cmi, members, seed_equal_ranks=False):
    enum = cmi.enum_cls
    fdep = enum.lookup("_get_dependencies")
    ford = enum.lookup("determine_load_order")
    ctx.require(fdep is not None and ford is not None, "anchor vanished: TypeMapItem._get_dependencies / determine_load_order")
    ctx.analysed(fdep)
    ctx.analysed(ford)
    funcs = {n: f for n, f in enum.methods.items()}
    fold = ClosedFold(tm, members, enum.name, funcs)
    ctx.require(not fdep.params() and not ford.params(), "_get_dependencies / determine_load_order take parameters: not closed functions")
    try:
        deps = fold.call(fdep)
    except FoldRaise as r:
        raise AnalysisError("_get_dependencies raises: %s" % r.text)
    ctx.require(isinstance(deps, dict) and all(isinstance(v, (set, frozenset)) for v in deps.values()),
                "_get_dependencies does not fold to a dict of sets")
    allm = set(members.values())
    names = {int(v): k for k, v in members.items()}

    def nm(x):
        return names.get(int(x), str(x)) if isinstance(x, int) else str(x)

    missing = sorted(nm(x) for x in allm - set(deps))
    ctx.check("deps/total", "_get_dependencies keys", not missing, fdep, "dependency table keys",
              "map types without an entry in _get_dependencies(): %s (determine_load_order()[type] raises KeyError for them)" % missing,
              detail="%d keys = %d enum members" % (len(deps), len(allm)))
    g = nx.DiGraph()
    for t, ds in deps.items():
        g.add_node(t)
        for d in ds:
            ctx.count("dependency_edges")
            ctx.check("deps/total", "dep %s -> %s" % (nm(t), nm(d)), d in allm and d in deps, fdep, "%s depends on %s" % (nm(t), nm(d)),
                      "dependency %s of %s is not a map type with an entry of its own" % (nm(d), nm(t)))
            g.add_edge(t, d)
    cyc = None
    try:
        cyc = nx.find_cycle(g)
    except nx.NetworkXNoCycle:
        pass
    ctx.check("deps/acyclic", "_get_dependencies", cyc is None, fdep, "dependency table cycle",
              "dependency table is cyclic: %s" % (" -> ".join(nm(a) for a, b in cyc) if cyc else ""),
              detail="acyclic over %d edges" % g.number_of_edges())
    # fold determine_load_order()
    fold2 = ClosedFold(tm, members, enum.name, funcs)
    try:
        order = fold2.call(ford)
    except FoldRaise as r:
        ctx.check("order/total", "determine_load_order", False, ford, "determine_load_order raises",
                  "determine_load_order() raises on the repository's own table: %s" % r.text, node=r.node)
        return deps, None
    ctx.require(isinstance(order, dict), "determine_load_order() does not fold to a dict")
    if seed_equal_ranks and len(order) >= 2:
        ks = sorted(order, key=lambda k: order[k])
        order = dict(order)
        order[ks[-1]] = order[ks[0]]
    miss = sorted(nm(x) for x in allm - set(order))
    ctx.check("order/total", "determine_load_order", not miss, ford, "load order keys",
              "load order has no rank for %s: the sort key raises KeyError for such a map entry" % miss,
              detail="rank defined for all %d map types" % len(allm))
    ranks = list(order.values())
    dup = sorted({nm(k) for k, v in order.items() if ranks.count(v) > 1})
    ctx.check("order/injective", "determine_load_order", not dup and all(isinstance(v, int) for v in ranks), ford, "load order ranks",
              "types %s share a rank: their relative parse order would follow the map list order" % dup,
              detail="%d distinct ranks" % len(set(ranks)))
    for t, ds in deps.items():
        for d in ds:
            if t in order and d in order:
                ctx.check("order/topological", "%s after %s" % (nm(t), nm(d)), order[d] < order[t], ford,
                          "rank(%s) < rank(%s)" % (nm(d), nm(t)),
                          "%s (rank %s) is parsed before its dependency %s (rank %s)" % (nm(t), order[t], nm(d), order[d]),
                          detail="rank %s < %s" % (order[d], order[t]))
    return deps, order


class _LoopInterp(DexInterp):
    def __init__(self, *a, parse_name="parse", **k):
        super().__init__(*a, **k)
        self.parse_name = parse_name
        self.trace = []

    def _h_method(self, it, recv, name, args, kwargs, e, func):
        if isinstance(recv, Obj) and recv.cls is not None and recv.cls.name == "MapItem" and name == self.parse_name:
            self.trace.append(("parse", recv))
            for k, v in list(recv.attrs.items()):
                if v is None and k == "item":
                    recv.attrs[k] = Sym("parsed-item")
            return None
        if isinstance(recv, Sym) and recv.op == "cm":
            self.trace.append(("cm", name, list(args)))
        if isinstance(recv, Obj) and recv.cls is not None and recv.cls.lookup(name) is None and name not in recv.attrs:
            alias = recv.cls.lookup_attr(name)
            if isinstance(alias, ast.Name) and recv.cls.lookup(alias.id) is not None:
                return self.call_function(recv.cls.lookup(alias.id), args, kwargs, recv=recv)
        return super()._h_method(it, recv, name, args, kwargs, e, func)


# ---- (1,3b) permutation simulation of MapList.__init__ ----------------------------------------------------
class _LocalFunc:
    def __init__(self, node, env, func):
        self.node, self.env, self.func = node, env, func


class _GetItem:
    def __init__(self, seq):
        self.seq = seq


class _SimInterp(DexInterp):
    """executes MapList.__init__ on a concrete list of symbolic map entries: nested defs, sorted/list.sort with a key,
    list(), bound __getitem__ are evaluated; MapItem.parse and ClassManager calls are recorded"""

    def __init__(self, *a, order=None, enum_cls=None, order_func=None, parse_name="parse", file_size=None, class_state=None, **k):
        super().__init__(*a, **k)
        self.order, self.enum_cls, self.order_func, self.parse_name = order, enum_cls, order_func, parse_name
        self.file_size = file_size
        self.class_state = class_state if class_state is not None else {}   # (class, attr) -> mutable class-level object (persists)
        self.trace = []
        self.entries = []

    def _stream_root(self, e, env, func):
        """buff / buff.raw / buff.raw.getbuffer() / buff.getbuffer() ... -> the StreamV or None"""
        while True:
            if isinstance(e, ast.Call) and isinstance(e.func, ast.Attribute) and e.func.attr in ("getbuffer", "getvalue") and not e.args:
                e = e.func.value
            elif isinstance(e, ast.Attribute) and e.attr in ("raw", "buffer"):
                e = e.value
            else:
                break
        if isinstance(e, ast.Name):
            v = self.eval(e, env, func)
            return v if isinstance(v, StreamV) else None
        return None

    def exec_stmt(self, s, env, func):
        if isinstance(s, ast.FunctionDef):
            env[s.name] = _LocalFunc(s, env, func)
            return
        return super().exec_stmt(s, env, func)

    def call_local(self, lf, args, kwargs):
        from ..absint import _Return
        env = dict(lf.env)
        a = lf.node.args
        params = [x.arg for x in a.posonlyargs + a.args]
        for p_, v in zip(params, args):
            env[p_] = v
        for p_ in params[len(args):]:
            if kwargs and p_ in kwargs:
                env[p_] = kwargs[p_]
        env["__func__"] = lf.func
        try:
            self.exec_block(lf.node.body, env, lf.func)
        except _Return as r:
            return r.value
        return None

    def call_value(self, callee, name, args, kwargs, e, env, func):
        if isinstance(callee, _LocalFunc):
            return self.call_local(callee, args, kwargs)
        if isinstance(callee, _GetItem):
            k = args[0].value() if isinstance(args[0], Bits) and args[0].is_const() else args[0]
            return callee.seq[k]
        return super().call_value(callee, name, args, kwargs, e, env, func)

    def e_Attribute(self, e, env, func):
        if e.attr == "__getitem__":
            base = self.eval(e.value, env, func)
            if isinstance(base, (list, tuple, dict)):
                return _GetItem(base)
        if e.attr == "nbytes" and self.file_size is not None and self._stream_root(e.value, env, func) is not None:
            return self.file_size
        if isinstance(e.value, ast.Name):
            base = self.eval(e.value, env, func)
            cls = base.cls if isinstance(base, Obj) else base.obj if isinstance(base, Ref) and base.kind == "class" else None
            if cls is not None and not (isinstance(base, Obj) and self.mangle(e.attr, func) in base.attrs) and cls.lookup(e.attr) is None:
                init = cls.lookup_attr(e.attr)
                mutable = isinstance(init, (ast.Dict, ast.List, ast.Set)) or (
                    isinstance(init, ast.Call) and isinstance(init.func, ast.Name) and init.func.id in ("dict", "list", "set", "OrderedDict", "defaultdict"))
                if mutable:
                    holder = next((c for c in cls.mro() if e.attr in c.attrs), cls)
                    key = (holder.name, e.attr)
                    if key not in self.class_state:
                        if isinstance(init, ast.Call) and init.args:
                            raise AnalysisError("class-level container %s.%s with an initialiser outside the fragment" % key)
                        self.class_state[key] = {} if isinstance(init, ast.Dict) or (isinstance(init, ast.Call) and init.func.id != "list" and init.func.id != "set") \
                            else [] if isinstance(init, ast.List) or (isinstance(init, ast.Call) and init.func.id == "list") else set()
                        if isinstance(init, (ast.Dict, ast.List, ast.Set)) and (getattr(init, "keys", None) or getattr(init, "elts", None)):
                            raise AnalysisError("class-level container %s.%s is not empty initially (outside the fragment)" % key)
                    return self.class_state[key]
        return super().e_Attribute(e, env, func)

    def _sort(self, seq, kwargs, e, env, func):
        key = (kwargs or {}).get("key")
        rev = (kwargs or {}).get("reverse", False)
        if not isinstance(rev, bool):
            return None
        keys = []
        for x in seq:
            kv = x if key is None else self.call_value(key, None, [x], {}, e, env, func)
            kv = kv.value() if isinstance(kv, Bits) and kv.is_const() else kv
            if not (isinstance(kv, int) and not isinstance(kv, Bits)):
                return None
            keys.append(int(kv))
        idx = sorted(range(len(seq)), key=keys.__getitem__, reverse=rev)
        return [seq[i] for i in idx]

    def _h_call(self, it, name, callee, args, kwargs, e, func):
        if name == "sorted" and not isinstance(callee, Ref) and args:
            seq = self.concrete_iter(args[0])
            if seq is not None:
                r = self._sort(list(seq), kwargs, e, None, func)
                if r is not None:
                    return r
        if name in ("list", "tuple") and not isinstance(callee, Ref) and len(args) == 1 and isinstance(args[0], (list, tuple, range)):
            return list(args[0]) if name == "list" else tuple(args[0])
        if name in ("frozenset", "set") and not isinstance(callee, Ref) and len(args) <= 1:
            seq = self.concrete_iter(args[0]) if args else []
            if seq is not None:
                try:
                    return frozenset(seq) if name == "frozenset" else set(seq)
                except TypeError:
                    pass
        return super()._h_call(it, name, callee, args, kwargs, e, func)

    def _h_method(self, it, recv, name, args, kwargs, e, func):
        if isinstance(recv, StreamV) and name == "seek" and len(args) == 2 and self.file_size is not None:
            wh = args[1].value() if isinstance(args[1], Bits) and args[1].is_const() else args[1]
            off = args[0].value() if isinstance(args[0], Bits) and args[0].is_const() else args[0]
            if wh == 2 and isinstance(off, int):
                recv.pos = self.file_size + off
                recv.log.append(("seek", recv.pos))
                return recv.pos
        if isinstance(recv, dict) and name in ("get", "pop", "setdefault") and args:
            k_ = args[0]
            try:
                hash(k_)
                if name == "get":
                    return recv.get(k_, args[1] if len(args) > 1 else None)
                if name == "setdefault":
                    return recv.setdefault(k_, args[1] if len(args) > 1 else None)
                if len(args) > 1:
                    return recv.pop(k_, args[1])
                if k_ in recv:
                    return recv.pop(k_)
            except TypeError:
                pass
        if isinstance(recv, list) and name == "sort" and not args:
            r = self._sort(list(recv), kwargs, e, None, func)
            if r is not None:
                recv[:] = r
                return None
        if isinstance(recv, Ref) and recv.kind == "class" and recv.obj is self.enum_cls and name == self.order_func:
            return dict(self.order)
        if isinstance(recv, Obj) and recv.cls is not None and recv.cls.name == "MapItem" and name == self.parse_name and not args:
            snap = {k: v for k, v in recv.attrs.items()}
            self.trace.append(("parse", recv, snap))
            for k, v in list(recv.attrs.items()):
                if v is None and k == "item":
                    recv.attrs[k] = Obj(None, "parsed-item")
            return None
        if isinstance(recv, Sym) and recv.op == "cm":
            self.trace.append(("cm", name, list(args)))
        if isinstance(recv, Obj) and recv.cls is not None and recv.cls.lookup(name) is None and name not in recv.attrs:
            alias = recv.cls.lookup_attr(name)
            if isinstance(alias, ast.Name) and recv.cls.lookup(alias.id) is not None:
                return self.call_function(recv.cls.lookup(alias.id), args, kwargs, recv=recv)
        return super()._h_method(it, recv, name, args, kwargs, e, func)


def _norm_value(v, entry_start, base):
    """printable form of an attribute value with byte sources re-based to the entry's own start"""
    if isinstance(v, Bits):
        if v.is_const():
            c = v.value()
            return "SELF_START" if c == entry_start else "int %d" % c
        out = []
        for b in v.b[: max(v.width(), 1)]:
            if isinstance(b, tuple):
                out.append("%s%d.%d" % (b[0], b[1] - base - entry_start, b[2]))
            else:
                out.append(str(b))
        return "bits(" + ",".join(out) + ")"
    if isinstance(v, bool) or v is None:
        return repr(v)
    if isinstance(v, int):
        return "SELF_START" if v == entry_start else "int %d" % v
    if isinstance(v, StreamV):
        return "<stream>"
    if isinstance(v, Obj):
        return "<%s>" % (v.cls.name if v.cls else v.name)
    if isinstance(v, (list, tuple)):
        return "[" + ", ".join(_norm_value(x, entry_start, base) for x in v) + "]"
    if isinstance(v, Lin):
        terms = sorted("%d*%s" % (c, _norm_value(a, entry_start, base)) for a, c in v.terms.items())
        return "lin(" + " + ".join(terms) + " + %d)" % v.const
    if isinstance(v, Sym):
        return "%s(%s)" % (v.op, ", ".join(_norm_value(a, entry_start, base) for a in v.args))
    if isinstance(v, dict):
        return "{" + ", ".join("%s: %s" % (show(k), _norm_value(x, entry_start, base)) for k, x in v.items()) + "}"
    return show(v)[:80]


def simulate_map_list(ctx, repo, m, folder, cmi, order):
    """MapList.__init__ is executed abstractly on map lists of three entries of distinct types, in all six orders, for a
    file that ends right behind the map list and for a larger file, and -- on shared class-level state -- one order after
    another.  -> name of the attribute that holds the entry list"""
    import itertools
    ml = m.cls("MapList")
    init = ml.lookup("__init__")
    mi_cls = m.cls("MapItem")
    parse = mi_cls.lookup("parse")
    ctx.require(init is not None and parse is not None, "anchor vanished: MapList.__init__ / MapItem.parse")
    ctx.analysed(init)
    ford = cmi.enum_cls.lookup("determine_load_order")
    stride = spec.fixed_size("map_item")
    names = {int(v): k for k, v in cmi.members.items()}
    by_rank = sorted((r, t) for t, r in order.items() if names.get(int(t)) not in ("MAP_LIST",))
    ctx.require(len(by_rank) >= 6, "fewer than six ranked map types")
    picks = [by_rank[0][1], by_rank[len(by_rank) // 2][1], by_rank[-1][1]], [by_rank[1][1], by_rank[len(by_rank) // 3][1], by_rank[-2][1]]
    lst_attrs = set()
    snapshots = {}
    end_of_map = 4 + 3 * stride

    def construct(perm, file_size, state):
        asg0 = {}
        for i in range(32):
            asg0[("s", i // 8, i % 8)] = (3 >> i) & 1
        for k, t in enumerate(perm):
            for i in range(16):
                asg0[("s", 4 + stride * k + i // 8, i % 8)] = (int(t) >> i) & 1

        def run(asg):
            it = _SimInterp(repo, folder, asg={**asg0, **asg}, construct=lambda c: c.name == "MapItem", inline_module=m,
                            order=order, enum_cls=cmi.enum_cls, order_func=ford.name, parse_name=parse.name,
                            file_size=file_size, class_state=state)
            st = StreamV("buff", index=0)
            o = Obj(ml, "maplist")
            args = []
            for p in init.params()[1:]:
                args.append(Sym("cm") if p in ("cm",) else st if p in ("buff", "buf") else 0 if p in ("off", "offset") else Sym("param", p))
            it.call_function(init, args, recv=o)
            return it, o, st

        out = []
        for asg, r in explore(run, max_paths=64):
            if isinstance(r, Raised):
                raise AnalysisError("MapList.__init__ raises on a three-entry map list (%s): %s" % ([names[int(t)] for t in perm], r))
            out.append(r)
        return out

    def judge(res, perm, expected, scenario, isolation=True):
        it, o, st = res
        pn = [names[int(t)] for t in perm]
        inst = "map list order %s%s" % (pn, scenario)
        entries = [x for c, x, a in it.new_log if c.name == "MapItem"]
        symbolic = any(ev[0] == "symbolic-loop" and ev[1][0].startswith("MapList.") for ev in it.events)
        if len(entries) != 3:
            if symbolic or len(entries) > 3:
                raise AnalysisError("MapList.__init__ builds %d MapItems for a map list of three entries (shape outside the fragment)" % len(entries))
            ctx.check("parse-order", inst, False, init, "map entries read for map order %s%s" % ("/".join(pn), scenario),
                      "of the three entries %s of a well-formed map list%s only %d are read (%s): which section is lost depends on the order of the map" % (
                          pn, scenario, len(entries), pn[: len(entries)]))
            return
        start = {id(x): 4 + stride * k for k, x in enumerate(entries)}
        tname = {}
        for x in entries:
            ty = [v for v in x.attrs.values() if isinstance(v, EnumVal) and v.enum == cmi.enum_cls.name]
            if len(ty) != 1:
                raise AnalysisError("MapItem: the attribute holding the entry's type was not identified in the simulation")
            tname[id(x)] = ty[0].member
        for a_, v_ in o.attrs.items():
            if isinstance(v_, list) and len(v_) == 3 and all(any(x is y for y in entries) for x in v_):
                lst_attrs.add(a_)
        parses = [t for t in it.trace if t[0] == "parse"]
        seq = [tname.get(id(t[1]), "?") for t in parses]
        if not parses:
            raise AnalysisError("the simulation of MapList.__init__ never reaches MapItem.parse (an opaque value decides the parse loop)")
        ctx.check("parse-order", inst, seq == expected, init, "parse order for map order %s%s" % ("/".join(pn), scenario),
                  "a map list listing its entries as %s%s is parsed in the order %s; load order (and every other permutation) requires %s "
                  "-- the parse order is not a function of the set of entries" % (pn, scenario, seq, expected),
                  detail="parsed as %s" % seq)
        # registration: after parse(entry), before the next parse, add_type_item(type of entry, entry, ...)
        pos = [i for i, t in enumerate(it.trace) if t[0] == "parse"] + [len(it.trace)]
        for j, pt in enumerate(parses):
            seg = it.trace[pos[j] + 1: pos[j + 1]]
            regs = [t for t in seg if t[0] == "cm" and t[1] == cmi.add.name]
            ent = pt[1]
            good = len(regs) == 1 and len(regs[0][2]) >= 3 and isinstance(regs[0][2][0], EnumVal) and regs[0][2][0].member == tname[id(ent)] \
                and regs[0][2][1] is ent
            if not good and regs and not all(isinstance(r_[2][0], EnumVal) for r_ in regs if r_[2]):
                raise AnalysisError("registration type of a parsed entry evaluates to an opaque term: %s" % show(regs[0][2])[:100])
            ctx.check("registration", "%s: %s" % (inst, tname[id(ent)]), good, init, "registration of the %s entry" % tname[id(ent)],
                      "after parsing the %s entry MapList.__init__ registers %s; it must register that entry once under its own type before the next entry is parsed" % (
                          tname[id(ent)], [(show(r_[2][0]) if r_[2] else "?") for r_ in regs] or "nothing"),
                      detail="add_type_item(%s, entry, item)" % tname[id(ent)])
            if not isolation:
                continue
            # state of the entry at its parse: a function of its own bytes only
            snap = {a_: _norm_value(v_, start[id(ent)], st.base) for a_, v_ in pt[2].items()}
            key = tname[id(ent)]
            if key not in snapshots:
                snapshots[key] = (snap, inst)
            else:
                ref, ref_inst = snapshots[key]
                for a_ in sorted(set(ref) | set(snap)):
                    if ref.get(a_) != snap.get(a_):
                        ctx.check("entry-isolation", "%s.%s" % (key, a_), False, init, "MapItem.%s depends on the map order" % a_,
                                  "when its parse() starts, attribute %s of the %s entry is %s with %s but %s with %s: the entry's state "
                                  "depends on its position / neighbours in the map list, not only on its own fields" % (
                                      a_, key, snap.get(a_), inst, ref.get(a_), ref_inst))

    for ti, triple in enumerate(picks):
        if len({int(t) for t in triple}) < 3:
            continue
        expected = [names[int(t)] for t in sorted(triple, key=lambda t: order[t])]
        perms = list(itertools.permutations(triple))
        for perm in perms:
            # a file that is larger than the map list, and (dx layout) a file that ends with its map list
            for file_size, scenario in ((4096, ""), (end_of_map, " at the very end of the file")):
                if scenario and ti > 0:
                    continue
                for res in construct(perm, file_size, {}):
                    judge(res, perm, expected, scenario, isolation=not scenario)
                    ctx.count("simulated_orders")
        if ti == 0:
            # history: two map lists with the same entries in different orders, parsed one after the other in the same process
            first = perms[0]
            for other in perms[1:]:
                for a_, b_ in ((first, other), (other, first)):
                    state = {}
                    r1 = construct(a_, 4096, state)
                    if len(r1) != 1:
                        raise AnalysisError("MapList.__init__ has several abstract paths on a concrete map list: history scenario not decidable")
                    for res in construct(b_, 4096, state):
                        judge(res, b_, expected, " (parsed after a file listing them as %s)" % [names[int(t)] for t in a_], isolation=False)
                        ctx.count("simulated_histories")
    ctx.ob("entry-isolation", "entry state at parse time", True,
           "identical for every permutation (attributes %s, byte sources re-based to the entry start)" % sorted({a for s_, _ in snapshots.values() for a in s_}))
    if len(lst_attrs) != 1:
        raise AnalysisError("the attribute of MapList holding the entry list was not identified (%s)" % sorted(lst_attrs))
    return lst_attrs.pop()


def check_parse_sites(ctx, repo, m, cmi):
    """MapItem.parse is called only from MapList.__init__ or helpers it calls on self"""
    ml = m.cls("MapList")
    init = ml.lookup("__init__")
    parse = m.cls("MapItem").lookup("parse")
    reach, work = set(), [init]
    while work:
        f = work.pop()
        if f.qualname in reach:
            continue
        reach.add(f.qualname)
        for n in walk_no_nested(f.node):
            if isinstance(n, ast.Call) and isinstance(n.func, ast.Attribute) and isinstance(n.func.value, ast.Name) and n.func.value.id == "self":
                g = ml.lookup(n.func.attr)
                if g is not None:
                    work.append(g)
    n_sites = 0
    for mod in repo.modules.values():
        for f in mod.functions.values():
            for n in ast.walk(f.node):
                if isinstance(n, ast.Call) and isinstance(n.func, ast.Attribute) and n.func.attr == parse.name and not n.args and not n.keywords:
                    if mod is m:
                        n_sites += 1
                        ctx.check("single-loop", "call of MapItem.parse in %s" % f.qualname, f.qualname in reach, f, n,
                                  "MapItem.parse() is also called from %s, outside the load-ordered parse of MapList.__init__" % f.qualname, node=n)
                    elif "MapItem" in mod.text or "MapList" in mod.text:
                        raise AnalysisError("%s calls .parse() and mentions MapItem/MapList: receiver type not decidable" % f.loc(n))
    ctx.count("parse_calls", n_sites)


# ---- (2) cursor independence ------------------------------------------------------------------------
class _ParseInterp(DexInterp):
    def _h_call(self, it, name, callee, args, kwargs, e, func):
        if isinstance(callee, Ref) and callee.kind == "class" and callee.obj.module.relpath == DEX and not self.construct(callee.obj):
            sts = [a for a in args if isinstance(a, StreamV)]
            for st in sts:
                st.log.append(("new", callee.obj.name, e))
            if sts:
                return Sym("new", callee.obj.name)
        return super()._h_call(it, name, callee, args, kwargs, e, func)


def check_seeks(ctx, repo, m, folder, cmi, members):
    mi_cls = m.cls("MapItem")
    parse = mi_cls.lookup("parse")
    ctx.analysed(parse)
    off_field = [f for f in spec.fixed_fields("map_item") if f[0] == "offset"][0]
    off_bytes = set(range(off_field[1], off_field[1] + off_field[2]))
    tslot = Sym("enum", cmi.enum_cls.name, slot_bits(0, 0, 2))
    ctors = {}
    for name, val in sorted(members.items(), key=lambda kv: int(kv[1])):
        def run(asg, val=val):
            it = _ParseInterp(repo, folder, asg=dict(asg), construct=lambda c: c.name == "MapItem", inline_module=None)
            st = StreamV("buff", index=0)
            o = it.construct_obj(mi_cls, bind_ctor_args(mi_cls, st, Sym("cm")))
            hit = 0
            for k, v in list(o.attrs.items()):
                if v == tslot:
                    o.attrs[k] = val
                    hit += 1
            if hit != 1:
                raise AnalysisError("MapItem: the attribute holding TypeMapItem(<type field>) was not identified")
            mark = len(st.log)
            st.pos = Sym("cursor", "left behind by the previously parsed item")
            it.call_function(parse, [], recv=o)
            return st.log[mark:], dict(asg)

        res = explore(run)
        news_all = []
        for asg, r in res:
            if isinstance(r, Raised):
                raise AnalysisError("MapItem.parse raises for type %s on an abstract path: %s" % (name, r))
            log, a = r
            last_seek = None
            consumed = False
            for ev in log:
                if ev[0] == "seek":
                    last_seek, consumed = ev[1], False
                elif ev[0] in ("raw", "leb", "cstring"):
                    consumed = True
                elif ev[0] == "new":
                    cname, node = ev[1], ev[2]
                    pn, in_list = parent(node), False
                    while pn is not None and not isinstance(pn, ast.stmt):
                        in_list = in_list or isinstance(pn, (ast.ListComp, ast.List))
                        pn = parent(pn)
                    news_all.append((cname, in_list))
                    inst = "%s -> %s" % (name, cname)
                    if last_seek is None or consumed:
                        ctx.check("absolute-seek", inst, False, parse, "%s before %s" % ("no seek" if last_seek is None else "read after seek", cname),
                                  "branch %s constructs %s from wherever the previously parsed item left the stream cursor (%s)" % (
                                      name, cname, "no seek before it" if last_seek is None else "the stream is consumed between the seek and the constructor"),
                                  node=node)
                    else:
                        op = []
                        pv = prov(last_seek, opaque=op)
                        bad = [l for l, ch in pv if not (l[0] == "bits" and {s[1] % STREAM_SPAN for s in l[1].sources()} <= off_bytes
                                                           and {s[1] // STREAM_SPAN for s in l[1].sources()} == {0})]
                        if op and not bad:
                            raise AnalysisError("MapItem.parse branch %s: seek target %s outside the fragment (%s)" % (name, show(last_seek)[:80], op[0]))
                        ctx.check("absolute-seek", inst, not bad, parse, "seek before %s(...) in branch %s" % (cname, name),
                                  "branch %s seeks to %s before constructing %s: the target depends on %s, not only on the entry's offset field" % (
                                      name, show(last_seek)[:100], cname, "; ".join(show_prov({b for b in pv if b[0] in bad}))[:200]),
                                  node=node, detail="seek(f(offset field)) then %s" % cname)
                    consumed = True
        ctors[name] = sorted(set(news_all))
        if news_all:
            ctx.count("parse_branches")
    # map entries: fixed stride
    ml = m.cls("MapList")
    init = ml.lookup("__init__")
    stride = spec.fixed_size("map_item")

    def run2(asg):
        it = _LoopInterp(repo, folder, asg=dict(asg), construct=lambda c: c.name == "MapItem", inline_module=m)
        st = StreamV("buff", index=0)
        o = Obj(ml, "maplist")
        args = []
        for p in init.params()[1:]:
            args.append(Sym("cm") if p in ("cm",) else st if p in ("buff", "buf") else Sym("param", p))
        it.call_function(init, args, recv=o)
        return st.log

    n_stride_paths = 0
    stride_results = explore(run2)

    def stride_verdict(log):
        news_ = [i for i, ev in enumerate(log) if ev[0] == "new" and ev[1] == "MapItem"]
        if not news_:
            return None
        seeks_ = [show(ev[1]) for ev in log[news_[0]:] if ev[0] == "seek"]
        return (seeks_[-1] if seeks_ else None, tuple([show(ev[1]) for ev in log if ev[0] == "seek"][:1]))

    verdicts = {stride_verdict(lg) for a_, lg in list.__iter__(stride_results) if not isinstance(lg, Raised)} - {None}
    uniform = len(verdicts) <= 1   # the same on every path: independent of the unevaluated conditions behind the reading loop
    for asg, log in list.__iter__(stride_results):
        if hasattr(ctx, "path"):
            ctx.path(None if uniform else asg)
        if isinstance(log, Raised):
            raise AnalysisError("MapList.__init__ raises on an abstract path: %s" % log)
        news = [i for i, ev in enumerate(log) if ev[0] == "new" and ev[1] == "MapItem"]
        if not news:
            continue   # a path that leaves the reading loop before the first entry (truncation guard)
        n_stride_paths += 1
        i = news[0]
        tells = [ev for ev in log[:i] if ev[0] in ("tell", "seek", "raw")]
        start = None
        for ev in reversed(log[:i]):
            if ev[0] == "tell":
                start = ev[1]
                break
        seeks = [ev for ev in log[i:] if ev[0] == "seek"]
        good = start is not None and bool(seeks)
        if seeks:
            op = []
            prov(seeks[-1][1], opaque=op)
            if op:
                raise AnalysisError("MapList.__init__: the position the stream is left at after a map entry is an opaque term (%s)" % op[0])
        if start is None:
            raise AnalysisError("MapList.__init__: the start position of a map entry is not taken with tell() (shape outside the fragment)")
        if good:
            it0 = DexInterp(repo, folder)
            want = it0.binop(ast.Add(), start, stride, init.node)
            good = seeks[-1][1] == want
        ctx.check("entry-stride", "MapList.__init__", good, init, "map entry stride",
                  "after reading a map entry the stream must be repositioned to <entry start> + %d; it is left at %s" % (
                      stride, show(seeks[-1][1]) if seeks else "the position the MapItem constructor stopped at"),
                  detail="entry k+1 read at entry k + %d" % stride)
        first = [ev for ev in log if ev[0] == "seek"]
        good = bool(first) and first[0][1] == Sym("param", init.params()[2]) if len(init.params()) > 2 else False
        ctx.check("entry-stride", "MapList start", good, init, "map list start",
                  "the map list must be read at the offset handed to MapList (header map_off); first seek is %s" % (show(first[0][1]) if first else "missing"))
    if hasattr(ctx, "path"):
        ctx.path(None)
    ctx.require(n_stride_paths > 0, "MapList.__init__ constructs no MapItem from the stream on any abstract path")
    return ctors


# ---- (4) dependency soundness ----------------------------------------------------------------------
def check_dependencies(ctx, repo, m, tm, cmi, deps, ctors):
    cg = CallGraph(repo)
    cg.cmi = cmi
    for tname, cl in ctors.items():
        cg.sections[tname] = [("list" if in_list else "inst", m.cls(cname)) for cname, in_list in cl]
    fdep = cmi.enum_cls.lookup("_get_dependencies")
    names = {int(v): k for k, v in cmi.members.items()}
    closures = {}
    all_inits = set()
    g = nx.DiGraph()
    for t, ds in deps.items():
        g.add_node(names.get(int(t), str(t)))
        for d in ds:
            g.add_edge(names.get(int(t), str(t)), names.get(int(d), str(d)))
    for tname, cl in sorted(ctors.items()):
        allowed = nx.descendants(g, tname) if tname in g else set()
        roots = []
        for cname, in_list in cl:
            c = m.cls(cname)
            init = c.lookup("__init__")
            if init is not None:
                roots.append(init)
                ctx.count("constructor_chains")
        clo = cg.closure(roots)
        closures[tname] = clo
        all_inits.update(q for q, (f, pr, par) in clo.items() if f.name == "__init__")
        reads = {}
        for q, (f, precise, par) in clo.items():
            if f.cls is cmi.cls:
                for sec in cmi.direct.get(f.name, ()):
                    if sec not in reads or (precise and not reads[sec][1]):
                        reads[sec] = (q, precise)
                    ctx.count("section_reads")
        for sec, (q, precise) in sorted(reads.items()):
            inst = "%s reads %s" % (tname, sec)
            path = " -> ".join(cg.path_to(clo, q))
            if sec == "ORDER":
                ctx.ob("dependency", inst, True, "registration-order read via %s (fixed by the sorted loop)" % path)
                ctx.note("%s: parse-time read of the registration-order list via %s -- order of registration is the load order, fixed by clause (1)" % (tname, path))
                continue
            if sec == "ANY":
                raise AnalysisError("parse-time read of an offset table that is not attributable to one section: %s" % path)
            if sec not in cmi.members:
                if precise:
                    ctx.check("dependency", inst, False, _T(fdep), "%s reads %s" % (tname, sec),
                              "constructor chain of %s reads TypeMapItem.%s, which is not a map type (%s)" % (tname, sec, path))
                continue
            ok = sec in allowed
            if not ok and not precise:
                raise AnalysisError("%s may read section %s through an imprecisely resolved call (%s): not decidable" % (tname, sec, path))
            ctx.check("dependency", inst, ok, _T(fdep), "%s reads %s" % (tname, sec),
                      "parsing %s reads section %s (%s) but %s is not in the transitive closure of _get_dependencies()[%s] = %s: "
                      "with a map list in another order the section may not be loaded yet" % (tname, sec, path, sec, tname, sorted(allowed)),
                      detail="%s <= closure(%s); via %s" % (sec, tname, path))
    ctx.count("constructors_in_chains", len(all_inits))
    return closures


# ---- (3) list order ----------------------------------------------------------------------------------
def check_list_order(ctx, repo, m, cmi, lst_attr, closures):
    ml = m.cls("MapList")
    parse_time = {}
    for tname, clo in closures.items():
        for q, (f, precise, par) in clo.items():
            parse_time.setdefault(q, (f, tname))
    n_funcs = 0
    for q, (f, tname) in sorted(parse_time.items()):
        if f.module is not m:
            continue
        n_funcs += 1
        for n in walk_no_nested(f.node):
            if isinstance(n, ast.Attribute) and n.attr == lst_attr and isinstance(n.ctx, ast.Load):
                ctx.check("list-order", "%s reads .%s" % (q, lst_attr), False, f, n,
                          "%s runs while %s is parsed and reads the map item list .%s (map-list order leaks into the parse)" % (q, tname, lst_attr), node=n)
    ctx.ob("list-order", "parse-time functions", True, "%d functions reachable from the item constructors; none reads .%s" % (n_funcs, lst_attr))
    # get_item_type selects by type
    git = ml.lookup("get_item_type")
    if git is not None:
        ctx.analysed(git)
        params = git.params()
        loops = [n for n in walk_no_nested(git.node) if isinstance(n, ast.For)]
        rets = [n for n in walk_no_nested(git.node) if isinstance(n, ast.Return) and n.value is not None and not (isinstance(n.value, ast.Constant) and n.value.value is None)]
        for r in rets:
            lp = None
            guard = None
            p = parent(r)
            while p is not None and p is not git.node:
                if isinstance(p, ast.If) and guard is None:
                    guard = p
                if isinstance(p, ast.For) and lp is None:
                    lp = p
                p = parent(p)
            if lp is None:
                raise AnalysisError("MapList.get_item_type: return outside a loop over the map items (shape outside the fragment)")
            lvars = {x.id for x in ast.walk(lp.target) if isinstance(x, ast.Name)}
            var = sorted(lvars)[0] if lvars else "?"
            by_type = False
            if guard is not None and isinstance(guard.test, ast.Compare) and len(guard.test.ops) == 1 and isinstance(guard.test.ops[0], ast.Eq):
                sides = [guard.test.left, guard.test.comparators[0]]
                has_param = any(isinstance(s, ast.Name) and s.id in params[1:] for s in sides)
                has_type = any(isinstance(s, ast.Call) and isinstance(s.func, ast.Attribute) and isinstance(s.func.value, ast.Name)
                               and s.func.value.id in lvars and s.func.attr == "get_type" for s in sides) or \
                    any(isinstance(s, ast.Attribute) and isinstance(s.value, ast.Name) and s.value.id in lvars and s.attr == "type" for s in sides)
                by_type = has_param and has_type
            ctx.check("list-order", "get_item_type selects by type", by_type, git, r,
                      "MapList.get_item_type returns an entry that is not selected by comparing its type with the argument (position in the map list decides)", node=r,
                      detail="return under `%s.get_type() == %s`" % (var, params[1] if len(params) > 1 else "?"))
    # add_type_item: keyed stores only, plus the registration-order list
    for attr, kind, key, guard in cmi.add_stores:
        ctx.ob("list-order", "add_type_item store %s (%s)" % (attr, kind), True,
               "%s[%s]%s" % (attr, key, " for %s" % guard if guard else "") if kind.startswith("by") else "%s.%s(...) registration order" % (attr, kind))
    readers = sorted(n for n, secs in cmi.direct.items() if "ORDER" in secs)
    ctx.ob("list-order", "registration-order readers", True, "read by ClassManager.%s" % ", ".join(readers) if readers else "no reader")


# ---------------------------------------------------------------------------
def thorough(ctx):
    m = ctx.mod(DEX)
    tm = ctx.mod(DEX_TYPES)
    breaking, benign = [], []

    def fn(mod, q):
        return mod.func(q).node

    def drop_dep(holder, dep):
        def mk():
            node = fn(tm, "TypeMapItem._get_dependencies")
            for n in ast.walk(node):
                if isinstance(n, ast.Tuple) and len(n.elts) == 2 and dotted(n.elts[0]) == "TypeMapItem." + holder and isinstance(n.elts[1], ast.Set):
                    s = n.elts[1]
                    for i, e in enumerate(s.elts):
                        if dotted(e) == "TypeMapItem." + dep and len(s.elts) > 1:
                            old = s.elts[i]
                            del s.elts[i]

                            def undo():
                                s.elts.insert(i, old)
                            return undo
            return None
        return mk

    def unsorted_loop():
        node = fn(m, "MapList.__init__")
        for n in ast.walk(node):
            if isinstance(n, ast.Assign) and isinstance(n.value, ast.Call) and isinstance(n.value.func, ast.Name) and n.value.func.id == "sorted":
                old = n.value
                n.value = old.args[0]

                def undo():
                    n.value = old
                return undo
        return None

    def relative_seek():
        node = fn(m, "MapItem.parse")
        for n in ast.walk(node):
            if isinstance(n, ast.Call) and isinstance(n.func, ast.Attribute) and n.func.attr == "seek" and n.args:
                old = n.args[0]
                n.args[0] = ast.parse("buff.tell() + self.offset % 4", mode="eval").body

                def undo():
                    n.args[0] = old
                return undo
        return None

    def drop_seek():
        node = fn(m, "MapItem.parse")
        for n in ast.walk(node):
            if isinstance(n, ast.If):
                for i, s in enumerate(n.body):
                    if isinstance(s, ast.Expr) and isinstance(s.value, ast.Call) and isinstance(s.value.func, ast.Attribute) and s.value.func.attr == "seek":
                        old = n.body[i]
                        n.body[i] = ast.copy_location(ast.Pass(), old)

                        def undo():
                            n.body[i] = old
                        return undo
        return None

    def constant_rank():
        return _constant_rank(tm)

    def reverse_sort():
        node = fn(m, "MapList.__init__")
        for n in ast.walk(node):
            if isinstance(n, ast.Call) and isinstance(n.func, ast.Name) and n.func.id == "sorted":
                n.keywords.append(ast.keyword(arg="reverse", value=ast.Constant(True)))

                def undo():
                    n.keywords.pop()
                return undo
        return None

    def rename_local(q, old, new, mod=m):
        def mk():
            node = fn(mod, q)
            hit = [n for n in ast.walk(node) if isinstance(n, ast.Name) and n.id == old] + \
                  [n for n in ast.walk(node) if isinstance(n, ast.arg) and n.arg == old]
            if not hit:
                return None
            for n in hit:
                if isinstance(n, ast.Name):
                    n.id = new
                else:
                    n.arg = new

            def undo():
                for n in hit:
                    if isinstance(n, ast.Name):
                        n.id = old
                    else:
                        n.arg = old
            return undo
        return mk

    def neighbour_write():
        node = fn(m, "MapList.__init__")
        for n in ast.walk(node):
            if isinstance(n, ast.For):
                for i, st in enumerate(n.body):
                    if isinstance(st, ast.Assign) and isinstance(st.value, ast.Call) and isinstance(st.value.func, ast.Name) and st.value.func.id == "MapItem" \
                            and isinstance(st.targets[0], ast.Name):
                        new = ast.parse("if self.map_item:\n    self.map_item[-1].unused = %s.get_offset()" % st.targets[0].id).body[0]
                        ast.copy_location(new, st)
                        ast.fix_missing_locations(new)
                        for a in ast.walk(new):
                            for b in ast.iter_child_nodes(a):
                                b._parent = a
                        new._parent = n
                        n.body.insert(i + 1, new)

                        def undo(n=n, new=new):
                            n.body.remove(new)
                        return undo
        return None

    breaking += [("previous map entry written with data of the next one", neighbour_write)]
    breaking += [("METHOD_ID_ITEM no longer depends on PROTO_ID_ITEM", drop_dep("METHOD_ID_ITEM", "PROTO_ID_ITEM")),
                 ("CLASS_DEF_ITEM no longer depends on CLASS_DATA_ITEM", drop_dep("CLASS_DEF_ITEM", "CLASS_DATA_ITEM")),
                 ("ANNOTATION_ITEM no longer depends on FIELD_ID_ITEM", drop_dep("ANNOTATION_ITEM", "FIELD_ID_ITEM")),
                 ("parse loop over the unsorted list", unsorted_loop), ("first seek made relative", relative_seek),
                 ("first seek dropped", drop_seek), ("all ranks equal", constant_rank), ("reverse sort", reverse_sort)]
    benign += [("rename loop variable in MapList.__init__", rename_local("MapList.__init__", "ordered", "in_load_order")),
               ("rename local in determine_load_order", rename_local("TypeMapItem.determine_load_order", "found_next", "hit", tm)),
               ("rename local in MapItem.parse", rename_local("MapItem.parse", "started_at", "t0"))]
    killed = total = silent = btotal = 0
    survivors, noisy = [], []
    for name, mk in breaking:
        undo = mk()
        if undo is None:
            continue
        total += 1
        try:
            s = Sink(ctx.repo)
            try:
                core(s)
                fired = bool(s.findings)
            except AnalysisError:
                fired = False
        finally:
            undo()
        killed += fired
        if not fired:
            survivors.append(name)
    for name, mk in benign:
        undo = mk()
        if undo is None:
            continue
        btotal += 1
        try:
            s = Sink(ctx.repo)
            try:
                core(s)
                quiet = not s.findings
            except AnalysisError:
                quiet = True
        finally:
            undo()
        silent += quiet
        if not quiet:
            noisy.append((name, s.findings[:2]))
    ctx.extra.update(mutants_killed=killed, mutants_total=total, benign_silent=silent, benign_total=btotal)
    ctx.ob("mutation-adequacy", "breaking mutants", killed == total, "%d/%d killed" % (killed, total))
    ctx.ob("mutation-adequacy", "benign mutants", silent == btotal, "%d/%d silent" % (silent, btotal))
    if survivors:
        raise AnalysisError("rule lost its teeth: surviving mutants %s" % survivors)
    if noisy:
        raise AnalysisError("rule fires on behaviour-preserving edits: %s" % noisy)
    ctx.require(total >= 7 and btotal >= 3, "mutation anchors vanished (%d breaking, %d benign applicable)" % (total, btotal))
