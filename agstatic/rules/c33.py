"""C33 -- APK Signing Block: presence flags, duplicate ids, first-block selection (clauses).

Pieces of the APK class are walked by the checker's own model evaluator over abstract
states (truth assignments / small id sequences); nothing of the repository is executed.
Block ids in the model are the ids of the *public specification* (agstatic/spec/apksig.py),
so a wrong repository constant shows up as a wrong flag/selection.

 magic          the early-return test of parse_v2_v3_signature compares the 16-byte tail with the
                specification magic: returns for any other value, continues for the magic itself.
 flags-init     every presence flag is assigned False by a top-level statement before the magic test
                and is assigned nowhere else outside the statements that follow the pair loop.
 size-check     between the magic test and the pair loop a raising `if` rejects differing block sizes.
 block-part     parse_v2_v3_signature is evaluated from the statement after the central-directory check to its end
                (locals defined on the way, size check, pair loop with its real loop condition, flag statements) on byte
                encodings the checker generates from the documented layout (uint64 size, pairs of uint64 length /
                uint32 id / value, uint64 size, magic) for every id sequence of length <= 3 over {v2, v3, v3.1, other}
                (+ one of length 4), with all values non-empty and with one EMPTY value (a 12-byte pair) at every position.
 pair-layout    every encoded pair is stored (the loop must also read a final 12-byte pair).
 duplicate      has_duplicate_apk_signature_ids() == "some id occurs twice in the sequence".
 flags          is_signed_v2/v3/v31() == membership of the specification id in the sequence.
 getters        is_signed_vX() with an unset flag triggers parse_v2_v3_signature and returns its own flag.
 selection      parse_v2_signing_block / parse_v3_signing_block(v31) are evaluated up to the first
                io.BytesIO(...) over every such block list (flags consistent with the list): they must
                return with an empty signer list iff the *requested* scheme is absent, otherwise wrap the
                value of the FIRST block carrying the requested id.
 signer-lists   the signer list a parse function resets is the list its own getters read, and the
                getters of scheme X trigger the parse of scheme X (stubbed) and return its signers' data.
"""
from __future__ import annotations

import ast
import io as _pyio
import itertools
import struct as _pystruct

from ..cfg import raises_only
from ..model import APK, AnalysisError, walk_no_nested
from ..modeleval import (Interp, Env, Obj, PyModel, PyRaise, NotModelled, Sink, Stop, Lin, clone_func, _Return, _Builtin)
from ..spec import apksig

OWN_MUTATION_ADEQUACY = True  # mutation_adequacy() below runs rule-specific breaking and benign edits
LENIENT = ("loguru.logger", "logger", "logging")
SCHEMES = {"v2": apksig.V2_ID, "v3": apksig.V3_ID, "v3.1": apksig.V31_ID, "other": apksig.VERITY_PADDING_ID}
NAME_OF = {v: k for k, v in SCHEMES.items()}
FLAG_GETTERS = {"v2": "is_signed_v2", "v3": "is_signed_v3", "v3.1": "is_signed_v31"}


class BytesTok(PyModel):
    def __init__(self, name):
        self.name = name

    def __repr__(self):
        return "<%s>" % self.name


class Stream(PyModel):
    """model of the byte stream the pair loop reads from"""

    def __init__(self):
        self.reads = []

    def read(self, n=None):
        t = BytesTok("bytes#%d" % len(self.reads))
        self.reads.append((n, t))
        return t

    def tell(self):
        return Lin.atom("pos#%d" % len(self.reads))

    def seek(self, *a):
        return None


def _unpack_native(keys, log):
    """struct.unpack modelled from the format literal: integer fields are symbolic, the first
    uint32 field of an iteration is the pair id (specification: uint64 length, uint32 id)."""

    def unpack(fmt, data=None):
        if not isinstance(fmt, str):
            raise NotModelled("unpack with a non-literal format")
        out = []
        count = ""
        for ch in fmt:
            if ch in "<>=!@ ":
                continue
            if ch.isdigit():
                count += ch
                continue
            n = int(count) if count else 1
            count = ""
            if ch == "s":
                out.append(BytesTok("unpacked"))
                continue
            if ch not in "bBhHiIlLqQ":
                raise NotModelled("unpack format %r" % fmt)
            for _ in range(n):
                if ch == "I" and keys:
                    out.append(keys.pop(0))
                else:
                    a = Lin.atom("%s#%d" % (ch, len(log)))
                    log.append((ch, a))
                    out.append(a)
        return tuple(out)
    return unpack


class Anchors:
    """constructs of APK found by role"""

    def __init__(self, sink, m):
        self.m = m
        self.cls = m.cls("APK")
        self.blk = m.cls("APKV2SignatureBlock")
        self.parse = m.func("APK.parse_v2_v3_signature")
        self.defaults = _init_defaults(self.cls)
        for q in ("APK.parse_v2_v3_signature", "APK.parse_v3_signing_block", "APK.parse_v2_signing_block",
                  "APK.has_duplicate_apk_signature_ids", "APKV2SignatureBlock.__init__"):
            sink.analysed(m.func(q))
        body = self.parse.node.body
        self.loop_idx = None
        self.blocks_attr = None
        for i, s in enumerate(body):
            if isinstance(s, (ast.While, ast.For)):
                makes = any(isinstance(c, ast.Call) and isinstance(c.func, ast.Name) and c.func.id == self.blk.name for c in ast.walk(s))
                apps = {c.func.value.attr for c in ast.walk(s)
                        if isinstance(c, ast.Call) and isinstance(c.func, ast.Attribute) and c.func.attr == "append"
                        and isinstance(c.func.value, ast.Attribute) and isinstance(c.func.value.value, ast.Name)
                        and c.func.value.value.id == "self"}
                if makes and len(apps) == 1:
                    self.loop_idx = i
                    self.blocks_attr = apps.pop()
        sink.require(self.loop_idx is not None,
                     "anchor vanished: parse_v2_v3_signature has no top-level loop that builds %s(...) and appends to one attribute of self" % self.blk.name)
        self.loop = body[self.loop_idx]
        # flag attributes: what the getters return
        self.flag_attr = {}
        for scheme, g in FLAG_GETTERS.items():
            f = m.func("APK." + g)
            sink.analysed(f)
            rets = [n for n in walk_no_nested(f.node) if isinstance(n, ast.Return)]
            attrs = {n.value.attr for n in rets if isinstance(n.value, ast.Attribute) and isinstance(n.value.value, ast.Name) and n.value.value.id == "self"}
            sink.require(len(rets) >= 1 and len(attrs) == 1 and all(isinstance(n.value, ast.Attribute) for n in rets),
                         "%s no longer returns a single attribute of self" % g)
            self.flag_attr[scheme] = attrs.pop()


def _init_defaults(cls):
    """attributes the constructor initialises with a constant or an empty container"""
    out = {}
    init = cls.lookup("__init__")
    if init is None:
        return out
    for n in walk_no_nested(init.node):
        if isinstance(n, ast.Assign) and len(n.targets) == 1 and isinstance(n.targets[0], ast.Attribute) \
                and isinstance(n.targets[0].value, ast.Name) and n.targets[0].value.id == "self":
            v = n.value
            if isinstance(v, ast.Constant):
                out[n.targets[0].attr] = ("const", v.value)
            elif isinstance(v, (ast.List, ast.Dict, ast.Tuple)) and not getattr(v, "elts", getattr(v, "keys", None)):
                out[n.targets[0].attr] = ("new", {ast.List: list, ast.Dict: dict, ast.Tuple: tuple}[type(v)])
    return out


def _self_obj(an, **attrs):
    o = Obj(an.cls)
    for k, (kind, v) in an.defaults.items():
        o.attrs[k] = v if kind == "const" else v()
    o.attrs.update(attrs)
    return o


def _interp(repo, an, natives=None, overrides=None):
    return Interp(repo, natives=natives or {}, lenient=LENIENT, method_overrides=overrides or {})


def _env(it, an, me, **names):
    env = Env(an.m, it.module_env(an.m), frame=(me, an.cls))
    env.vars["self"] = me
    env.vars.update(names)
    return env


# --------------------------------------------------------------------------- magic / init / size
def check_magic_and_init(sink, repo, an):
    f = an.parse
    body = f.node.body
    it = _interp(repo, an)
    me = _self_obj(an)
    magic_idx = None
    for i, s in enumerate(body[:an.loop_idx]):
        if not isinstance(s, ast.If) or not isinstance(s.test, ast.Compare) or len(s.test.ops) != 1:
            continue
        sides = [s.test.left, s.test.comparators[0]]
        vals = []
        for x in sides:
            try:
                vals.append(it.eval(x, _env(it, an, me)) if not isinstance(x, ast.Name) else None)
            except (NotModelled, PyRaise):
                vals.append(None)
        consts = [v for v in vals if isinstance(v, bytes) and len(v) == 16]
        names = [x for x in sides if isinstance(x, ast.Name)]
        if len(consts) == 1 and len(names) == 1:
            magic_idx = i
            sink.count("magic_tests")
            const = consts[0]
            sink.check("magic", "magic constant", const == apksig.MAGIC, f, "magic constant %r" % const,
                       "the APK Signing Block magic compared in parse_v2_v3_signature is %r; the specification says %r" % (const, apksig.MAGIC),
                       node=s, detail="magic constant == %r" % apksig.MAGIC)

            def leaves(value):
                try:
                    it.exec_stmt(s, _env(it, an, me, **{names[0].id: value}))
                except _Return:
                    return True
                except PyRaise:
                    return True
                return False
            ok = (not leaves(apksig.MAGIC)) and leaves(b"Not Sig Block 00") and leaves(b"")
            sink.check("magic", "magic test", ok, f, "magic test: %s" % ast.unparse(s.test),
                       "the magic test does not (only) continue for the specification magic: continues for the magic=%s, "
                       "leaves for another tail=%s" % (not leaves(apksig.MAGIC), leaves(b"Not Sig Block 00")), node=s,
                       detail="continues exactly for the specification magic")
    sink.require(magic_idx is not None, "anchor vanished: no test of the 16-byte signing block magic before the pair loop")
    # ---- flags initialised False before the magic test; no assignment elsewhere outside the tail
    for scheme, attr in an.flag_attr.items():
        sites = []
        for i, s in enumerate(body):
            for n in ast.walk(s):
                if isinstance(n, (ast.Assign, ast.AugAssign, ast.AnnAssign)):
                    tg = n.targets if isinstance(n, ast.Assign) else [n.target]
                    for t in tg:
                        for tt in (t.elts if isinstance(t, (ast.Tuple, ast.List)) else [t]):
                            if isinstance(tt, ast.Attribute) and tt.attr == attr and isinstance(tt.value, ast.Name) and tt.value.id == "self":
                                sites.append((i, s, n))
        init = [(i, s, n) for i, s, n in sites if i < magic_idx and n is s and isinstance(n, ast.Assign)
                and isinstance(n.value, ast.Constant) and n.value.value is False]
        sink.count("flag_inits", len(init))
        sink.check("flags-init", "%s flag initialised" % scheme, bool(init), f, "self.%s = False before the magic test" % attr,
                   "the %s presence flag (self.%s) is not set to False by a top-level statement before the magic test: an APK without a "
                   "signing block leaves it unset" % (scheme, attr), node=body[magic_idx],
                   detail="self.%s = False precedes the magic test on every path" % attr)
        for i, s, n in sites:
            if (i, s, n) in init or i > an.loop_idx:
                continue
            if i < magic_idx and n is s and isinstance(n, ast.Assign) and isinstance(n.value, ast.Constant) and n.value.value is None:
                continue
            ok = False
            sink.check("flags-init", "%s flag assigned outside init/tail" % scheme, ok, f, ast.unparse(n),
                       "the %s presence flag is assigned by `%s`, which is neither the False initialisation before the magic test nor "
                       "part of the membership tests after the pair loop" % (scheme, ast.unparse(n)), node=n)
    # ---- size check
    cands = [s for s in body[magic_idx + 1:an.loop_idx] if isinstance(s, ast.If) and raises_only(s.body) and not s.orelse]
    good = 0
    for s in cands:
        names = sorted({n.id for n in ast.walk(s.test) if isinstance(n, ast.Name) and n.id != "self"})
        if len(names) != 2:
            continue

        def raises(vals):
            try:
                it.exec_stmt(s, _env(it, an, me, **dict(zip(names, vals))))
            except PyRaise:
                return True
            return False
        if raises((24, 32)) and raises((32, 24)) and not raises((24, 24)):
            good += 1
    sink.count("size_checks", good)
    sink.check("size-check", "size_of_block fields", good >= 1, f, "size check between magic test and pair loop",
               "no raising test rejects an APK Signing Block whose leading and trailing size fields differ", node=body[magic_idx],
               detail="a raising `if` fires exactly when the two size fields differ")


# --------------------------------------------------------------------------- pair loop, duplicate, flags
class ByteStream(PyModel):
    """seekable byte stream over an encoding generated by the checker from the specification layout"""

    def __init__(self, data, pos=0):
        self._b = _pyio.BytesIO(data)
        self._b.seek(pos)

    def read(self, n=-1):
        if n is None:
            n = -1
        if not isinstance(n, int):
            raise NotModelled("read(%r) on the model stream" % (n,))
        if n < -1:
            raise ValueError("negative read length")
        return self._b.read(n)

    def tell(self):
        return self._b.tell()

    def seek(self, off, whence=0):
        if not isinstance(off, int) or not isinstance(whence, int):
            raise NotModelled("seek(%r, %r) on the model stream" % (off, whence))
        try:
            return self._b.seek(off, whence)
        except (OSError, ValueError) as e:
            raise ValueError(str(e))

    def getvalue(self):
        return self._b.getvalue()


def _struct_unpack(fmt, data):
    try:
        return _pystruct.unpack(fmt, data)
    except _pystruct.error as e:
        raise PyRaise("struct.error", (str(e),))


def _struct_calcsize(fmt):
    return _pystruct.calcsize(fmt)


def _encode(pairs):
    """signing block per the public v2 document, placed between zip data and the central directory.
    -> (file bytes, offset of the central directory)"""
    body = b"".join(_pystruct.pack("<QI", 4 + len(v), k) + v for k, v in pairs)
    size = len(body) + 24
    block = _pystruct.pack("<Q", size) + body + _pystruct.pack("<Q", size) + apksig.MAGIC
    prefix = b"PK\x03\x04" + b"\x11" * 36
    central = b"PK\x01\x02" + b"\x22" * 42
    return prefix + block + central, len(prefix) + len(block)


def _stream_var(an):
    for n in ast.walk(an.parse.node):
        if isinstance(n, ast.Assign) and isinstance(n.value, ast.Call) and isinstance(n.value.func, ast.Attribute) \
                and n.value.func.attr == "BytesIO" and len(n.targets) == 1 and isinstance(n.targets[0], ast.Name):
            return n.targets[0].id
    raise AnalysisError("anchor vanished: parse_v2_v3_signature no longer wraps the raw file in io.BytesIO assigned to a local")


def _start_index(an):
    """index of the first top-level statement after the signing block has been located: the statement following the
    last raising test that precedes the first presence-flag initialisation (the central directory check)"""
    body = an.parse.node.body
    first_flag = None
    for i, s in enumerate(body[:an.loop_idx]):
        if isinstance(s, ast.Assign) and any(isinstance(t, ast.Attribute) and t.attr in an.flag_attr.values() for t in s.targets):
            first_flag = i
            break
    if first_flag is None:
        raise AnalysisError("no top-level initialisation of a presence flag before the pair loop (reported by flags-init); "
                            "cannot locate the start of the signing-block part")
    start = 0
    for i, s in enumerate(body[:first_flag]):
        if isinstance(s, ast.If) and raises_only(s.body):
            start = i + 1
        elif isinstance(s, (ast.While, ast.For)) and start <= i:
            start = i + 1
    return start


def _run_block(repo, an, pairs):
    """evaluate parse_v2_v3_signature from the point where the block has been located to its end"""
    data, central = _encode(pairs)
    it = _interp(repo, an, natives={"struct.unpack": _struct_unpack, "struct.calcsize": _struct_calcsize,
                                    "io.SEEK_SET": 0, "io.SEEK_CUR": 1, "io.SEEK_END": 2, "os.SEEK_SET": 0, "os.SEEK_CUR": 1, "os.SEEK_END": 2})
    me = _self_obj(an)
    env = _env(it, an, me, **{_stream_var(an): ByteStream(data, central)})
    try:
        it.exec_block(an.parse.node.body[_start_index(an):], env)
    except _Return:
        pass
    return me, it


def _sequences():
    ids = list(SCHEMES.values())
    for n in (1, 2, 3):
        yield from itertools.product(ids, repeat=n)
    yield tuple(ids)


def _value_variants(seq):
    """value sizes of the pairs: all non-empty (distinct contents), and one EMPTY value (a 12-byte pair) at every position"""
    full = [bytes([0xA0 + i]) * (5 + i) for i in range(len(seq))]
    yield "values non-empty", list(zip(seq, full))
    for e in range(len(seq)):
        yield "empty value at pair #%d of %d" % (e + 1, len(seq)), [(k, b"" if i == e else v) for i, (k, v) in enumerate(zip(seq, full))]


def _names(seq):
    return "[%s]" % ", ".join(NAME_OF[k] for k in seq)


def check_loop_and_flags(sink, repo, an):
    f = an.parse
    dup_bad = {}
    flag_bad = {}
    layout_bad = {}
    built = []
    for seq in _sequences():
        sink.count("sequences")
        for vlabel, pairs in _value_variants(seq):
            sink.count("encodings")
            where = "last" if vlabel.startswith("empty value at pair #%d " % len(seq)) else ("a non-final" if vlabel.startswith("empty") else "no")
            try:
                me, it = _run_block(repo, an, pairs)
                blocks = me.attrs.get(an.blocks_attr)
                n = len(blocks) if isinstance(blocks, list) else -1
                err = None
            except PyRaise as e:
                me, it, n, err = None, None, -1, "raises %s" % e.name
            ok = n == len(seq)
            if not ok:
                layout_bad.setdefault("%s for a block with %s empty-valued pair" % (err or ("stores %s pairs than encoded" % ("fewer" if n < len(seq) else "more")), where), []).append(
                    "%s, %s" % (_names(seq), vlabel))
            sink.ob("pair-layout", "%s %s" % (_names(seq), vlabel), ok, "ids %s (%s): %s blocks stored" % (_names(seq), vlabel, n if err is None else err))
            if err is not None:
                continue
            try:
                dup = bool(it.call(it.getattr(me, "has_duplicate_apk_signature_ids"), []))
            except PyRaise as e:
                dup = "raises %s" % e.name
            want_any = len(set(seq)) < len(seq)
            if dup != want_any:
                kind = ("first occurrence flagged" if dup is True else "repeated id not flagged" if dup is False else dup) + \
                    " (%s empty-valued pair)" % where
                dup_bad.setdefault(kind, []).append("%s, %s" % (_names(seq), vlabel))
            sink.ob("duplicate", "%s %s" % (_names(seq), vlabel), dup == want_any,
                    "ids %s (%s): has_duplicate_apk_signature_ids() == %s" % (_names(seq), vlabel, dup))
            for scheme, g in FLAG_GETTERS.items():
                try:
                    got = it.call(it.getattr(me, g), [])
                except PyRaise as e:
                    got = "raises %s" % e.name
                want = SCHEMES[scheme] in seq
                okf = (got is True and want) or (got is False and not want)
                if not okf:
                    flag_bad.setdefault((scheme, ("not set although a %s block is present" % scheme if want else
                                                  "set although no %s block is present (ids: %s)" % (scheme, "/".join(sorted({NAME_OF[k] for k in seq}))) if got is True else
                                                  "left %r" % (got,)) + " (%s empty-valued pair)" % where), []).append("%s, %s" % (_names(seq), vlabel))
                sink.ob("flags", "%s %s %s" % (g, _names(seq), vlabel), okf, "ids %s (%s): %s() == %r" % (_names(seq), vlabel, g, got))
            if vlabel == "values non-empty":
                built.append((seq, me, [v for k, v in pairs]))
    for kind, seqs in sorted(layout_bad.items()):
        sink.finding("pair-layout", f, "pair loop %s" % kind,
                     "parse_v2_v3_signature %s, e.g. ids %s: every ID-value pair up to the trailing size field must be stored"
                     % (kind, seqs[0]), node=an.loop, witness=seqs[:8])
    for kind, seqs in sorted(dup_bad.items()):
        sink.finding("duplicate", an.m.func("APK.has_duplicate_apk_signature_ids"), "duplicate flag: %s, e.g. ids %s" % (kind, seqs[0]),
                     "after parsing pairs with ids %s has_duplicate_apk_signature_ids() is wrong (%s): the duplicate test must compare "
                     "the new id with the blocks parsed before it" % (seqs[0], kind), node=an.loop, witness=seqs[:8])
    for (scheme, kind), seqs in sorted(flag_bad.items()):
        sink.finding("flags", an.m.func("APK." + FLAG_GETTERS[scheme]), "%s flag %s" % (scheme, kind),
                     "%s() is wrong after parsing a signing block with ids %s: flag %s" % (FLAG_GETTERS[scheme], seqs[0], kind),
                     node=an.loop, witness=seqs[:8])
    return built


def check_flag_getters(sink, repo, an):
    for scheme, g in FLAG_GETTERS.items():
        f = an.m.func("APK." + g)
        for truth in itertools.product((False, True), repeat=3):
            assign = dict(zip(FLAG_GETTERS, truth))
            calls = []

            def stub(it_, recv, *a, **k):
                calls.append(1)
                for s2, v in assign.items():
                    recv.attrs[an.flag_attr[s2]] = v
            it = _interp(repo, an, overrides={("APK", "parse_v2_v3_signature"): stub})
            me = _self_obj(an, **{a: None for a in an.flag_attr.values()})
            try:
                got = it.call(it.getattr(me, g), [])
            except PyRaise as e:
                got = "raises %s" % e.name
            ok = got is assign[scheme] and len(calls) == 1
            sink.count("getter_cases")
            sink.check("getters", "%s with unparsed state, flags %s" % (g, assign), ok, f,
                       "%s(): unparsed state, parse sets %s -> %r (%d parse calls)" % (g, {k: v for k, v in assign.items()}, got, len(calls)),
                       "%s() on an unparsed APK must parse the signing block once and return the %s flag; got %r after %d parse call(s)"
                       % (g, scheme, got, len(calls)), node=f.node, detail="lazy parse, returns its own flag")


# --------------------------------------------------------------------------- selection
class _Selected(Exception):
    def __init__(self, v):
        self.v = v


def _bytesio_native(arg=None, *a):
    raise _Selected(arg)


PARSERS = (("v2", "APK.parse_v2_signing_block", {}), ("v3", "APK.parse_v3_signing_block", {"v31": False}),
           ("v3.1", "APK.parse_v3_signing_block", {"v31": True}))


def _signer_list_attrs(repo, an):
    """which attribute each parse function resets to [] (observed on the absent-scheme path)"""
    out = {}
    for scheme, q, kw in PARSERS:
        f = an.m.func(q)
        it = _interp(repo, an, natives={"io.BytesIO": _bytesio_native})
        me = _self_obj(an, **{a: False for a in an.flag_attr.values()})
        me.attrs[an.blocks_attr] = []
        for k, (kind, v) in an.defaults.items():
            if k.endswith("signing_data") or kind == "new":
                me.attrs[k] = None
        before = {k: me.attrs[k] for k in me.attrs}
        try:
            it.call(it.getattr(me, f.node.name), [], dict(kw))
        except (PyRaise, _Selected):
            pass  # reported by the selection rule; the reset list is still observable
        new = [k for k in me.attrs if isinstance(me.attrs[k], list) and me.attrs[k] == [] and before.get(k, 0) is None or
               (k not in before and me.attrs[k] == [])]
        if len(new) != 1:
            raise AnalysisError("%s(%s) resets %d list attributes on the absent path, expected one" % (q, kw, len(new)))
        out[scheme] = new[0]
    if len(set(out.values())) != 3:
        raise AnalysisError("parse functions do not use three distinct signer lists: %s" % out)
    return out


def check_selection(sink, repo, an, built, lists):
    bad = {}
    for seq, me0, values in built:
        for scheme, q, kw in PARSERS:
            f = an.m.func(q)
            it = _interp(repo, an, natives={"io.BytesIO": _bytesio_native})
            me = _self_obj(an)
            me.attrs[an.blocks_attr] = list(me0.attrs[an.blocks_attr])
            for s2, a in an.flag_attr.items():
                me.attrs[a] = SCHEMES[s2] in seq
            for a in lists.values():
                me.attrs[a] = None
            want_id = SCHEMES[scheme]
            present = want_id in seq
            try:
                it.call(it.getattr(me, f.node.name), [], dict(kw))
                outcome = ("returned", None)
            except _Selected as e:
                outcome = ("selected", e.v)
            except PyRaise as e:
                outcome = ("raised " + e.name, None)
            sink.count("selection_cases")
            if present:
                first = values[list(seq).index(want_id)]
                ok = outcome[0] == "selected" and isinstance(outcome[1], bytes) and outcome[1] == first
                if not ok:
                    if outcome[0] == "selected":
                        idx = [i for i, v in enumerate(values) if isinstance(outcome[1], bytes) and v == outcome[1]]
                        what = ("selects the value of block #%d (%s) instead of the first %s block" % (
                            idx[0] + 1, NAME_OF[seq[idx[0]]], scheme)) if idx else "wraps something that is not a block value"
                        if idx and seq[idx[0]] == want_id:
                            what = "selects a later %s block instead of the first" % scheme
                    elif outcome[0] == "returned":
                        what = "returns without selecting a block"
                    else:
                        what = outcome[0]
            else:
                ok = outcome[0] == "returned" and me.attrs.get(lists[scheme]) == []
                what = "%s although no %s block is present" % (
                    "selects a block" if outcome[0] == "selected" else outcome[0] if outcome[0] != "returned" else "leaves its signer list unset", scheme)
            if not ok:
                if scheme == "v2":
                    atoms = "v2 %s" % ("present" if present else "absent")
                else:
                    atoms = "v3.1 %s, v3 %s" % ("present" if SCHEMES["v3.1"] in seq else "absent", "present" if SCHEMES["v3"] in seq else "absent")
                bad.setdefault((scheme, q, atoms, what), []).append(_names(seq))
            sink.ob("selection", "%s%s ids %s" % (q.split(".")[1], kw or "", _names(seq)), ok,
                    "ids %s, request %s: %s" % (_names(seq), scheme, outcome[0]))
    for (scheme, q, atoms, what), seqs in sorted(bad.items()):
        f = an.m.func(q)
        kw = dict(PARSERS[[p[0] for p in PARSERS].index(scheme)][2])
        sink.finding("selection", f, "%s(%s) with %s: %s" % (f.node.name, ", ".join("%s=%s" % kv for kv in kw.items()), atoms, what),
                     "%s(%s) on a signing block with ids %s %s; it must return early iff the requested scheme (%s) is absent and otherwise "
                     "parse the first block with id 0x%08x" % (f.node.name, ", ".join("%s=%s" % kv for kv in kw.items()), seqs[0], what, scheme, SCHEMES[scheme]),
                     node=f.node, witness=seqs[:8])


# --------------------------------------------------------------------------- signer lists / data getters
class SignedData(PyModel):
    def __init__(self, tag):
        self.certificates = [BytesTok("cert1-" + tag), BytesTok("cert2-" + tag)]


class Signer(PyModel):
    def __init__(self, tag):
        self.public_key = BytesTok("pk-" + tag)
        self.signed_data = SignedData(tag)


DATA_GETTERS = {"v2": ("get_public_keys_der_v2", "get_certificates_der_v2"), "v3": ("get_public_keys_der_v3", "get_certificates_der_v3"),
                "v3.1": ("get_public_keys_der_v31", "get_certificates_der_v31")}


def check_signer_lists(sink, repo, an, lists):
    for scheme, getters in DATA_GETTERS.items():
        for gi, g in enumerate(getters):
            f = an.m.func("APK." + g)
            sink.analysed(f)
            calls = []
            signers = {s: Signer(s) for s in SCHEMES if s != "other"}

            def stub_v3(it_, recv, v31=False):
                s = "v3.1" if v31 else "v3"
                calls.append(s)
                recv.attrs[lists[s]] = [signers[s]]

            def stub_v2(it_, recv):
                calls.append("v2")
                recv.attrs[lists["v2"]] = [signers["v2"]]
            it = _interp(repo, an, overrides={("APK", "parse_v3_signing_block"): stub_v3, ("APK", "parse_v2_signing_block"): stub_v2})
            me = _self_obj(an, **{a: None for a in lists.values()})
            try:
                got = it.call(it.getattr(me, g), [])
            except PyRaise as e:
                got = "raises %s" % e.name
            want = [signers[scheme].public_key] if gi == 0 else list(signers[scheme].signed_data.certificates)
            ok = isinstance(got, list) and len(got) == len(want) and all(a is b for a, b in zip(got, want)) and calls == [scheme]
            sink.count("data_getter_cases")
            sink.check("signer-lists", "%s on unparsed state" % g, ok, f,
                       "%s(): parses %s, returns %s" % (g, calls, got if isinstance(got, str) else [repr(x) for x in got] if isinstance(got, list) else repr(got)),
                       "%s() must trigger the %s parse and return the data of the %s signers; it triggered %s and returned %r"
                       % (g, scheme, scheme, calls, got), node=f.node, detail="reads the signer list its own parse function fills")
    # the append at the end of the signer loop goes to the list the function reset: decided on the statements
    # that append to a signer list, with every other name of the statement bound to a token
    for scheme, q, kw in PARSERS:
        f = an.m.func(q)
        apps = []
        for s in ast.walk(f.node):
            if isinstance(s, ast.stmt) and not isinstance(s, (ast.FunctionDef, ast.While, ast.For, ast.Try, ast.With)):
                for c in ast.walk(s):
                    if (isinstance(c, ast.Call) and isinstance(c.func, ast.Attribute) and c.func.attr == "append"
                            and isinstance(c.func.value, ast.Attribute) and c.func.value.attr in lists.values()):
                        if not any(s is not o and any(x is s for x in ast.walk(o)) for o in apps) and s not in apps:
                            apps.append(s)
        # keep outermost simple statements only
        outer = [s for s in apps if not any(o is not s and any(x is s for x in ast.walk(o)) for o in apps)]
        sink.require(outer, "anchor vanished: %s appends no signer to a signer list" % q)
        it = _interp(repo, an)
        me = _self_obj(an, **{a: [] for a in lists.values()})
        tok = Signer("new")
        for s in outer:
            names = {n.id for n in ast.walk(s) if isinstance(n, ast.Name) and isinstance(n.ctx, ast.Load)} - {"self"} - set(kw)
            env = _env(it, an, me, **{n: tok for n in names})
            env.vars.update(kw)
            try:
                it.exec_stmt(s, env)
            except (PyRaise, _Return) as e:
                raise AnalysisError("the signer-append statement of %s left the modelled fragment: %r" % (q, e))
        where = sorted(sc for sc, a in lists.items() if any(x is tok for x in me.attrs[a]))
        sink.count("append_sites", len(outer))
        sink.check("signer-lists", "%s%s appends to its own list" % (f.node.name, kw or ""), where == [scheme], f,
                   "%s(%s): signer appended to the %s list" % (f.node.name, ", ".join("%s=%s" % kv for kv in kw.items()), "/".join(where) or "no"),
                   "%s(%s) appends a parsed signer to the %s signer list(s); it reset (and its getters read) the %s list"
                   % (f.node.name, kw, "/".join(where) or "no", scheme), node=outer[0], detail="signer goes to the list that was reset")


# --------------------------------------------------------------------------- driver
def core(sink, repo):
    m = sink.mod(APK)
    an = Anchors(sink, m)
    check_magic_and_init(sink, repo, an)
    built = check_loop_and_flags(sink, repo, an)
    check_flag_getters(sink, repo, an)
    lists = _signer_list_attrs(repo, an)
    check_selection(sink, repo, an, built, lists)
    check_signer_lists(sink, repo, an, lists)


def _mutants(m):
    p = m.func("APK.parse_v2_v3_signature")
    v3 = m.func("APK.parse_v3_signing_block")
    v2 = m.func("APK.parse_v2_signing_block")
    out = []

    def const_swap(a, b):
        def t(node):
            for n in ast.walk(node):
                if isinstance(n, ast.Attribute) and n.attr == a:
                    n.attr = b
                    return True
            return False
        return t
    out.append(("flags: v2 flag tests the v3 id", p, const_swap("_APK_SIG_KEY_V2_SIGNATURE", "_APK_SIG_KEY_V3_SIGNATURE"), True))
    out.append(("selection: v3 parser selects the v2 block", v3, const_swap("_APK_SIG_KEY_V3_SIGNATURE", "_APK_SIG_KEY_V2_SIGNATURE"), True))

    def drop_init(node):
        for i, s in enumerate(node.body):
            if isinstance(s, ast.Assign) and isinstance(s.value, ast.Constant) and s.value.value is False:
                del node.body[i]
                return True
        return False
    out.append(("flags-init: first False initialisation dropped", p, drop_init, True))

    def append_first(node):
        for n in ast.walk(node):
            if isinstance(n, (ast.While, ast.For)):
                for i, s in enumerate(n.body):
                    if isinstance(s, ast.Expr) and isinstance(s.value, ast.Call) and isinstance(s.value.func, ast.Attribute) and s.value.func.attr == "append":
                        # move the duplicate test after the append
                        for j, s2 in enumerate(n.body):
                            if isinstance(s2, ast.If) and j < i:
                                n.body.insert(i, n.body.pop(j))
                                return True
        return False
    out.append(("duplicate: test moved after the append", p, append_first, True))

    def reversed_sel(node):
        for n in ast.walk(node):
            if isinstance(n, ast.GeneratorExp):
                g = n.generators[0]
                g.iter = ast.Call(ast.Name("reversed", ast.Load()), [g.iter], [])
                return True
        return False
    out.append(("selection: v2 parser picks the last block", v2, reversed_sel, True))
    out.append(("selection: v3 parser picks the last block", v3, reversed_sel, True))

    def magic_eq(node):
        for n in ast.walk(node):
            if isinstance(n, ast.Compare) and any(isinstance(x, ast.Attribute) and x.attr == "_APK_SIG_MAGIC" for x in ast.walk(n)):
                n.ops[0] = ast.Eq()
                return True
        return False
    out.append(("magic: test inverted", p, magic_eq, True))

    def size_check_off(node):
        for s in node.body:
            if isinstance(s, ast.If) and raises_only(s.body) and any(isinstance(x, ast.Name) and "size" in x.id for x in ast.walk(s.test)):
                s.test = ast.Constant(False)
                return True
        return False
    out.append(("size-check: disabled", p, size_check_off, True))

    def guard_wrong_flag(node):
        for n in ast.walk(node):
            if isinstance(n, ast.Attribute) and n.attr == "is_signed_v31":
                n.attr = "is_signed_v3"
                return True
        return False
    out.append(("selection: v3.1 request guarded by the v3 flag", v3, guard_wrong_flag, True))

    def swap_lists(node):
        for n in ast.walk(node):
            if isinstance(n, ast.If) and isinstance(n.test, ast.Name) and n.test.id == "v31" and n.orelse and \
                    any(isinstance(x, ast.Attribute) and x.attr == "append" for x in ast.walk(n)):
                n.body, n.orelse = n.orelse, n.body
                return True
        return False
    out.append(("signer-lists: v3/v3.1 append targets swapped", v3, swap_lists, True))

    # benign
    def rename(old_new):
        def t(node):
            ch = False
            for n in ast.walk(node):
                if isinstance(n, ast.Name) and n.id in old_new:
                    n.id = old_new[n.id]
                    ch = True
            return ch
        return t
    out.append(("parse_v2_v3_signature: locals renamed", p, rename({"key": "pair_id", "value": "payload", "magic": "tail", "is_duplicate_id": "dup"}), False))

    def any_eq(node):
        ch = False
        for n in ast.walk(node):
            if isinstance(n, ast.If) and isinstance(n.test, ast.Compare) and isinstance(n.test.ops[0], ast.In) and isinstance(n.test.comparators[0], ast.ListComp) \
                    and isinstance(n.test.left, ast.Attribute):
                lc = n.test.comparators[0]
                n.test = ast.Call(ast.Name("any", ast.Load()), [ast.GeneratorExp(
                    ast.Compare(lc.elt, [ast.Eq()], [n.test.left]), lc.generators)], [])
                ch = True
        return ch
    out.append(("flags: membership written as any(b.id == K ...)", p, any_eq, False))
    return out


def mutation_adequacy(ctx, repo):
    m = ctx.mod(APK)
    base = Sink(ctx)
    core(base, repo)
    base_set = sorted(base.findings)
    killed = total = bsilent = btotal = 0
    for name, func, tr, breaking in _mutants(m):
        orig = func.node
        mut = clone_func(orig)
        if not tr(mut):
            raise AnalysisError("mutation %r no longer applies (rule lost its anchor)" % name)
        ast.fix_missing_locations(mut)
        func.node = mut
        try:
            s = Sink(ctx)
            try:
                core(s, repo)
                res = sorted(s.findings)
            except AnalysisError as e:
                res = "analysis-error: %s" % e
        finally:
            func.node = orig
        if breaking:
            total += 1
            if not isinstance(res, str) and res != base_set:
                killed += 1
                new = [x for x in res if x not in base_set]
                ctx.ob("mutation", name, True, "mutant reported: %s" % (new[0][2] if new else "finding set changed"))
            else:
                raise AnalysisError("rule lost its teeth: breaking mutant survived: %s (%s)" % (name, res if isinstance(res, str) else "same findings"))
        else:
            btotal += 1
            if res == base_set:
                bsilent += 1
                ctx.ob("mutation", name, True, "benign edit: findings unchanged")
            else:
                raise AnalysisError("benign edit changed the verdict: %s -> %s" % (name, res if isinstance(res, str) else [x for x in res if x not in base_set]))
    ctx.extra.update(mutants_killed=killed, mutants_total=total, benign_silent=bsilent, benign_total=btotal)


def run(ctx):
    ctx.explanation = __doc__
    try:
        core(ctx, ctx.repo)
    except PyRaise as e:
        raise AnalysisError("model evaluation raised %s outside a decided clause" % e)
    # clause 'item lists' (coordinator's addition): the digest / signature sequences of a signer
    from . import c33_lists
    c33_lists.run_clause(ctx)
    ctx.floor("magic_tests", 1)
    ctx.floor("flag_inits", 3)
    ctx.floor("size_checks", 1)
    ctx.floor("sequences", 85)
    ctx.floor("encodings", 317)
    ctx.floor("getter_cases", 24)
    ctx.floor("selection_cases", 255)
    ctx.floor("data_getter_cases", 6)
    ctx.floor("append_sites", 3)
    ctx.assume("signing block layout per the public v2 document: uint64 size, pairs (uint64 length, uint32 id, length-4 value bytes), "
               "uint64 size, 16-byte magic, immediately before the central directory; the model stream is positioned at the central directory")
    ctx.note("not decided: location of the block via the ZIP end-of-central-directory scan, "
             "equality of signer/digest/certificate/attribute fields with the encoded bytes (needs run-time data)")
    ctx.note("has_duplicate_apk_signature_ids() does not trigger parsing itself (returns False on an unparsed APK); outside the clauses")
    if ctx.tier == "thorough":
        mutation_adequacy(ctx, ctx.repo)
