"""C12 -- every block touching a try range carries that range (and only then).

Decided clauses (static; the repository functions are walked by the checker's own
model evaluator over abstract states, nothing of the repository is executed):

 overlap-guard   Exceptions.add + Exceptions.get_exception are evaluated for one table
                 entry (s, e) and a query (a, b) under EVERY weak ordering of the four
                 symbolic points consistent with a <= b and s <= e (order-type domain).
                 The entry must be returned exactly when the closed intervals overlap
                 (s <= b and a <= e).  The set of order types on which the code differs
                 from the specification is the reported construct (semantic signature).
 first-match     with two table entries the first entry (in table order) accepted by the
                 guard is returned and a rejected first entry does not end the search.
 call-site       MethodAnalysis(vm, method) is built on a model method (four instructions of symbolic lengths, one try
                 range over the second instruction, handler at the third, return-void last; BasicOPCODES,
                 determineNext, determineException, DEXBasicBlock, BasicBlocks are the real code), its Exceptions
                 object is replaced by a recorder and _create_basic_block() is evaluated AS A WHOLE: every block must
                 store the answer of the query (start, end-1) -- its inclusive byte range -- and the try table must
                 reach Exceptions.add.
 block-exceptions the same construction end to end with the real Exceptions/ExceptionAnalysis: the block inside the
                 try range reports exactly that range and its handler block, the other blocks report nothing.
 end-convention  dex.determineException on one symbolic try item emits [2*start_addr, 2*start_addr+2*insn_count-1].
 handler-pairing four try items over three handler entries (one shared), the first entry with a padded LEB128: every try
                 range reports the handlers of the entry its handler_off refers to.
 handler-list    for encoded_catch_handler sizes 2, 0 and -2 the reported handlers are the typed pairs in order,
                 followed by (Ljava/lang/Throwable;, 2*catch_all_addr) exactly when size <= 0 -- with the catch-all at code
                 address 0 and at a non-zero address.
"""
from __future__ import annotations

import ast
import copy
import hashlib

from ..model import ANALYSIS, DEX, AnalysisError, walk_no_nested, calls_in
from ..modeleval import Interp, Env, Pt, Obj, PyModel, PyRaise, NotModelled, Sink, clone_func, Lin
from ..order import weak_orderings, describe

OWN_MUTATION_ADEQUACY = True  # mutation_adequacy() below runs rule-specific breaking and benign edits
LENIENT = ("loguru.logger", "logger", "logging")


class Token(PyModel):
    def __init__(self, name):
        self.name = name

    def get_name(self):
        return self.name

    def __repr__(self):
        return "<%s>" % self.name


class ModelBlock(PyModel):
    """the one basic block of the guard scenarios: it starts at the handler address used there (0)"""

    def __init__(self):
        self.start, self.end, self.name = 0, 1 << 30, "bb@0"

    def get_start(self):
        return self.start

    def get_end(self):
        return self.end

    def get_name(self):
        return self.name


class BBTable(PyModel):
    def __init__(self):
        self._bb = [ModelBlock()]

    def get_basic_block(self, idx):
        return self._bb[0]

    def gets(self):
        return list(self._bb)

    def get(self):
        return list(self._bb)

    def __iter__(self):
        return iter(list(self._bb))

    def __len__(self):
        return len(self._bb)

    def __getitem__(self, i):
        return self._bb[i]


# --------------------------------------------------------------------------- guard
def _orderings():
    for o in weak_orderings(["a", "b", "s", "e"]):
        if o["a"] <= o["b"] and o["s"] <= o["e"]:
            yield o


def _pts(o):
    return {k: Pt(k, 10 + 10 * v) for k, v in o.items()}


def _table(it, exc_cls, ranges):
    """Exceptions() ; .add([[s, e, [type, addr]] ...], bbs) ; -> (table obj, entries in table order)"""
    tab = it.instantiate(exc_cls, [], {})
    raw = [[s, e, ["Ljava/lang/Exception;", 0]] for s, e in ranges]
    it.call(it.getattr(tab, "add"), [raw, BBTable()])
    entries = list(it.iterate(it.call(it.getattr(tab, "gets"), [])))
    if len(entries) != len(ranges) or not all(isinstance(x, Obj) for x in entries):
        raise AnalysisError("Exceptions.add/gets no longer store one ExceptionAnalysis per try range")
    return tab, entries


def _query(repo, exc_cls, ranges, a, b):
    it = Interp(repo, lenient=LENIENT)
    tab, entries = _table(it, exc_cls, ranges)
    try:
        r = it.call(it.getattr(tab, "get_exception"), [a, b])
    except PyRaise as e:
        if not e.reportable:
            raise AnalysisError("get_exception: the evaluator produced %s while executing the analysed code (model gap, not a verdict)" % e)
        return "raises %s" % e, entries
    for i, x in enumerate(entries):
        if r is x:
            return i, entries
    if r is None:
        return None, entries
    return "returns %r" % (r,), entries


def check_guard(sink, repo, m):
    exc_cls = m.cls("Exceptions")
    ge = m.func("Exceptions.get_exception")
    sink.analysed(ge)
    sink.analysed(m.func("Exceptions.add"))
    sink.analysed(m.func("ExceptionAnalysis.__init__"))
    mism = []
    other = []
    guard = {}
    n = 0
    for o in _orderings():
        p = _pts(o)
        got, _ = _query(repo, exc_cls, [(p["s"], p["e"])], p["a"], p["b"])
        want = 0 if (o["s"] <= o["b"] and o["a"] <= o["e"]) else None
        n += 1
        sink.count("orderings")
        guard[tuple(sorted(o.items()))] = got
        ok = got == want
        if not ok:
            if got in (0, None):
                mism.append((describe(o), "returned" if got == 0 else "None", "entry" if want == 0 else "None"))
            else:
                other.append((describe(o), got))
        sink.ob("overlap-guard", describe(o), ok,
                "try [s,e], block [a,b], order %s: get_exception -> %s, overlap -> %s" % (
                    describe(o), "entry" if got == 0 else got, "entry" if want == 0 else None))
    if mism:
        mism.sort()
        sig = hashlib.sha1("|".join("%s:%s" % (d, g) for d, g, w in mism).encode()).hexdigest()[:8]
        missed = sum(1 for d, g, w in mism if w == "entry")
        construct = "guard != overlap on %d order types (%d missed, %d spurious), first [%s], sig %s" % (
            len(mism), missed, len(mism) - missed, mism[0][0], sig)
        d0, g0, w0 = mism[0]
        sink.finding("overlap-guard", ge, construct,
                     "get_exception(a, b) does not return the try range (s, e) exactly when [s,e] and [a,b] overlap: "
                     "e.g. for %s it yields %s, interval overlap requires %s" % (d0, g0, w0),
                     node=ge.node, witness=[dict(order=d, got=g, want=w) for d, g, w in mism])
    for d, g in other:
        sink.finding("overlap-guard", ge, "order %s: %s" % (d, g),
                     "get_exception(a, b) %s for %s" % (g, d), node=ge.node)
    # ---- the entry reports the range it was built from (ExceptionAnalysis.get()) ------------
    it = Interp(repo, lenient=LENIENT)
    S, E = Pt("s", 10), Pt("e", 20)
    tab, entries = _table(it, exc_cls, [(S, E)])
    ea = m.func("ExceptionAnalysis.get")
    sink.analysed(ea)
    try:
        d = it.call(it.getattr(entries[0], "get"), [])
    except PyRaise as e:
        if not e.reportable:
            raise AnalysisError("ExceptionAnalysis.get(): the evaluator produced %s (model gap, not a verdict)" % e)
        d = "raises %s" % e
    okr = isinstance(d, dict) and d.get("start") is S and d.get("end") is E
    sink.count("entry_ranges")
    sink.check("entry-range", "ExceptionAnalysis.get()", okr, ea,
               "entry built from [s, e] reports start=%s end=%s" % ((getattr(d.get("start"), "name", d.get("start")), getattr(d.get("end"), "name", d.get("end"))) if isinstance(d, dict) else (d, "")),
               "an ExceptionAnalysis built from the try range [s, e] reports %r as its range" % (d,), node=ea.node,
               detail="entry reports start=s, end=e")
    # ---- first match wins, search continues past a rejected entry -------------
    for o in _orderings():
        p = _pts(o)
        g1 = guard[tuple(sorted(o.items()))]
        # second entry: a try range identical to the query; its guard verdict is evaluated directly
        g2, _ = _query(repo, exc_cls, [(p["a"], p["b"])], p["a"], p["b"])
        if g1 not in (0, None) or g2 not in (0, None):
            continue
        for order in ((0, 1), (1, 0)):
            ranges = [(p["s"], p["e"]), (p["a"], p["b"])]
            verdicts = [g1, g2]
            ranges = [ranges[i] for i in order]
            verdicts = [verdicts[i] for i in order]
            want = next((i for i, v in enumerate(verdicts) if v == 0), None)
            got, _ = _query(repo, exc_cls, ranges, p["a"], p["b"])
            sink.count("first_match_cases")
            sink.check("first-match", "%s table order %s" % (describe(o), order), got == want, ge,
                       "table of two entries, %s, accepted=%s: got %s want %s" % (describe(o), [v == 0 for v in verdicts], got, want),
                       "with two try ranges %s (guard accepts: %s) get_exception returns entry %s, the first accepted entry is %s"
                       % (describe(o), [v == 0 for v in verdicts], got, want), node=ge.node,
                       detail="first accepted entry in table order is returned (%s)" % describe(o))
    return n


# --------------------------------------------------------------------------- model of one encoded method
class InsModel(PyModel):
    def __init__(self, length, op=0, name="nop"):
        self._l, self._op, self._n = length, op, name

    def get_length(self):
        return self._l

    def get_op_value(self):
        return self._op

    def get_name(self):
        return self._n

    def get_ref_off(self):
        return 0


class TryItem(PyModel):
    def __init__(self, start_addr, insn_count, handler_off=4):
        self.start_addr, self.insn_count, self.handler_off = start_addr, insn_count, handler_off

    def get_handler_off(self):
        return self.handler_off

    def get_start_addr(self):
        return self.start_addr

    def get_insn_count(self):
        return self.insn_count

    def get_off(self):
        return 60

    get_offset = get_off


class Handler(PyModel):
    def __init__(self, type_idx, addr):
        self.type_idx, self.addr = type_idx, addr

    def get_type_idx(self):
        return self.type_idx

    def get_addr(self):
        return self.addr


class CatchHandler(PyModel):
    """encoded_catch_handler: size > 0: `size` typed handlers; size <= 0: |size| typed handlers followed by a catch-all.
    `off` is the absolute file offset the entry was read at; `minimal_length` is what get_length()/get_raw() give (the entry
    re-encoded with minimal LEB128), which is smaller than the space the entry occupies when a LEB128 in it is padded."""

    def __init__(self, off, size, handlers, catch_all_addr, minimal_length=4):
        self.off, self.size, self.handlers, self.catch_all_addr = off, size, list(handlers), catch_all_addr
        self._minimal_length = minimal_length

    def get_length(self):
        return self._minimal_length

    def get_raw(self):
        return bytearray(b"\x00" * self._minimal_length)

    def get_off(self):
        return self.off

    get_offset = get_off

    def get_handlers(self):
        return list(self.handlers)

    def get_size(self):
        return self.size

    def get_catch_all_addr(self):
        # an entry with size > 0 has no catch-all address at all
        return self.catch_all_addr if self.size <= 0 else None


class HandlerList(PyModel):
    def __init__(self, items):
        self.list = list(items)
        self.size = len(self.list)

    def get_off(self):
        return 100

    get_offset = get_off

    def get_list(self):
        return list(self.list)

    def get_size(self):
        return self.size

    def get_obj(self):
        return bytearray([self.size & 0x7F])  # the uleb128 size of the list

    def get_raw(self):
        return self.get_obj() + b"".join(bytes(h.get_raw()) for h in self.list)

    def get_length(self):
        return len(self.get_raw())


class CodeModel(PyModel):
    def __init__(self, tries, handlers):
        self._tries, self._handlers = tries, handlers

    def get_tries_size(self):
        return len(self._tries)

    def get_handlers(self):
        return self._handlers

    def get_tries(self):
        return list(self._tries)

    def get_bc(self):
        raise NotModelled("bytecode object of the model method")


class EncMethod(PyModel):
    def __init__(self, code, instructions=()):
        self._code = code
        self._ins = list(instructions)  # (byte offset, InsModel)
        self.code_on = True

    def get_code(self):
        return self._code if self.code_on else None

    def get_name(self):
        return "m"

    def get_class_name(self):
        return "LModel;"

    def get_descriptor(self):
        return "()V"

    def get_code_off(self):
        return 0

    def get_access_flags_string(self):
        return "public"

    def get_instructions_idx(self):
        return list(self._ins)

    def get_instructions(self):
        return [i for _, i in self._ins]

    def get_instruction(self, idx, off=None):
        return self._ins[idx][1]


class VmModel(PyModel):
    def get_cm_type(self, idx):
        return "Ltype%d;" % idx

    def get_format_type(self):
        return "DEX"


class ExcRecorder(PyModel):
    def __init__(self):
        self.calls = []
        self.added = []

    def add(self, table, bbs):
        self.added.append(table)

    def get_exception(self, *a):
        t = Token("answer%d" % len(self.calls))
        self.calls.append((a, t))
        return t


def _one_try_method(handler_inside=False):
    """four instructions of symbolic lengths (in code units); a try range covering exactly the second instruction, one typed
    handler; the fourth instruction is return-void.  handler_inside=False: the handler begins at the third instruction.
    handler_inside=True: the handler address lies INSIDE the third instruction (h units behind its start, k units before its
    end), so no block begins there and the handler block is the block that contains the address."""
    u1, u2, u4 = (Lin.atom("u%d" % k, low=1) for k in (1, 2, 4))
    if handler_inside:
        h, k = Lin.atom("h", low=1), Lin.atom("k", low=1)
        u3 = h + k
        handler_units = u1 + u2 + h
    else:
        u3 = Lin.atom("u3", low=1)
        handler_units = u1 + u2
    u = [u1, u2, u3, u4]
    offs = [Lin.of(0), u1 * 2, (u1 + u2) * 2, (u1 + u2 + u3) * 2]
    ins = [InsModel(u1 * 2), InsModel(u2 * 2), InsModel(u3 * 2), InsModel(u4 * 2, 0x0E, "return-void")]
    ch = CatchHandler(101, 1, [Handler(7, handler_units)], Lin.atom("unused_catch_all"))
    code = CodeModel([TryItem(u1, u2, 1)], HandlerList([ch]))
    return EncMethod(code, list(zip([0] + offs[1:], ins))), u, offs, handler_units * 2


# --------------------------------------------------------------------------- call site / per-block exception information
def _new_method_analysis(it, m, method):
    try:
        return it.instantiate(m.cls("MethodAnalysis"), [VmModel(), method], {})
    except PyRaise as e:
        raise AnalysisError("MethodAnalysis(vm, method) raised %s on the model method" % e)


def _blocks_of(it, me, m):
    bbs = [v for v in me.attrs.values() if isinstance(v, Obj) and v.cls is m.cls("BasicBlocks")]
    if len(bbs) != 1:
        raise AnalysisError("MethodAnalysis no longer owns exactly one BasicBlocks object")
    out = list(it.iterate(it.call(it.getattr(bbs[0], "gets"), [])))
    return bbs[0], out


def check_call_site(sink, repo, m):
    cb = m.func("MethodAnalysis._create_basic_block")
    sink.analysed(cb)
    sink.analysed(m.func("MethodAnalysis.__init__"))
    sink.analysed(m.func("DEXBasicBlock.__init__"))
    sink.analysed(m.func("DEXBasicBlock.push"))
    # ---- (1) the queries: the constructor is run without code, the Exceptions object is replaced by a recorder,
    #          then _create_basic_block() is evaluated as a whole
    it = Interp(repo, lenient=LENIENT)
    method, u, offs, _h = _one_try_method()
    method.code_on = False
    me = _new_method_analysis(it, m, method)
    exc_attrs = [k for k, v in me.attrs.items() if isinstance(v, Obj) and v.cls is m.cls("Exceptions")]
    sink.require(len(exc_attrs) == 1, "MethodAnalysis.__init__ no longer creates exactly one Exceptions() attribute")
    rec = ExcRecorder()
    me.attrs[exc_attrs[0]] = rec
    method.code_on = True
    for k, v in list(me.attrs.items()):
        if v is None and k == "code":
            me.attrs[k] = method.get_code()
    try:
        it.call(it.getattr(me, "_create_basic_block"), [])
    except PyRaise as e:
        raise AnalysisError("_create_basic_block raised %s on the model method" % e)
    _, blocks = _blocks_of(it, me, m)
    sink.count("call_sites", 1 if rec.calls else 0)
    sink.require(rec.calls, "anchor vanished: _create_basic_block never queries Exceptions.get_exception on the model method")
    sink.check("call-site", "try table handed to Exceptions.add", len(rec.added) == 1 and isinstance(rec.added[0], list) and len(rec.added[0]) == 1,
               cb, "Exceptions.add called %d time(s)" % len(rec.added),
               "the try table of determineException is not handed to Exceptions.add exactly once before the blocks are queried", node=cb.node,
               detail="Exceptions.add receives the one-entry try table")
    sink.check("call-site", "one query per block", len(rec.calls) == len(blocks), cb,
               "%d get_exception queries for %d blocks" % (len(rec.calls), len(blocks)),
               "get_exception is queried %d times for %d basic blocks" % (len(rec.calls), len(blocks)), node=cb.node)
    answers = {id(t): a for a, t in rec.calls}
    for b in blocks:
        s_ = it.call(it.getattr(b, "get_start"), [])
        e_ = it.call(it.getattr(b, "get_end"), [])
        stored = it.call(it.getattr(b, "get_exception_analysis"), [])
        args = answers.get(id(stored))
        want = (Lin.of(s_), Lin.of(e_) - 1)
        ok = args is not None and len(args) == 2 and Lin.of(args[0]) == want[0] and Lin.of(args[1]) == want[1]
        sink.count("blocks_queried")
        sink.check("call-site", "block [%s, %s)" % (s_, e_), ok, cb,
                   "block [%s, %s) stores the answer of get_exception(%s)" % (s_, e_, ", ".join(str(x) for x in args) if args else "no query"),
                   "the block covering bytes [%s, %s] (exclusive end %s) stores the answer of get_exception(%s); the inclusive byte range "
                   "of the block is (%s, %s)" % (s_, want[1], e_, ", ".join(str(x) for x in args) if args else "<no query of this run>", want[0], want[1]),
                   node=cb.node, detail="query == (start, end-1) == (%s, %s), answer stored on the same block" % want)
    # ---- (2) end to end with the real Exceptions / ExceptionAnalysis / determineException
    for inside in (False, True):
        it = Interp(repo, lenient=LENIENT)
        method, u, offs, handler_at = _one_try_method(inside)
        me = _new_method_analysis(it, m, method)
        bbs, blocks = _blocks_of(it, me, m)
        try_lo, try_hi = offs[1], offs[2] - 1
        where = "handler inside an instruction" if inside else "handler at an instruction"
        seen_try = 0
        bounds = [(Lin.of(it.call(it.getattr(b, "get_start"), [])), Lin.of(it.call(it.getattr(b, "get_end"), []))) for b in blocks]
        for b, (s_, e_) in zip(blocks, bounds):
            ea = it.call(it.getattr(b, "get_exception_analysis"), [])
            covered = (s_ <= try_hi) and (try_lo <= e_ - 1)
            inst = "%s, block [%s, %s)" % (where, s_, e_)
            sink.count("blocks_end_to_end")
            if not covered:
                sink.check("block-exceptions", inst, ea is None, cb, "%s outside the try range reports %s" % (inst, "an entry" if ea is not None else None),
                           "%s contains no instruction of the try range [%s, %s] but reports exception information" % (inst, try_lo, try_hi), node=cb.node,
                           detail="no try range reported")
                continue
            seen_try += 1
            # the handler block is the block whose byte range contains the handler address
            hblock = next((x for x, (hs, he) in zip(blocks, bounds) if hs <= handler_at and handler_at < he), None)
            hname = it.call(it.getattr(hblock, "get_name"), []) if hblock is not None else None
            d = None
            if isinstance(ea, Obj):
                try:
                    d = it.call(it.getattr(ea, "get"), [])
                except PyRaise as e:
                    # get() cannot render an entry whose handler block is None; whether that is the case is read off the
                    # textual rendering, which prints the block name or None
                    try:
                        txt = it.call(it.getattr(ea, "show_buff"), [])
                    except PyRaise as e2:
                        raise AnalysisError("ExceptionAnalysis.get()/show_buff(): the evaluator produced %s / %s (model gap)" % (e, e2))
                    if isinstance(txt, str) and txt.rstrip().endswith("None)"):
                        d = "handler block None (show_buff: %s)" % txt.splitlines()[-1].strip()
                    else:
                        raise AnalysisError("ExceptionAnalysis.get(): the evaluator produced %s (model gap, not a verdict)" % e)
            hb = d["list"][0] if isinstance(d, dict) and isinstance(d.get("list"), list) and len(d["list"]) == 1 else None
            ok = (isinstance(d, dict) and Lin.of(d.get("start")) == try_lo and Lin.of(d.get("end")) == try_hi and isinstance(hb, dict)
                  and hb.get("name") == "Ltype7;" and Lin.of(hb.get("idx")) == handler_at and hname is not None and hb.get("basic_block") == hname)
            sink.check("block-exceptions", inst, ok, cb, "%s inside the try range reports %s" % (inst, _short(d)),
                       "%s lies in the try range [%s, %s] (handler Ltype7; at byte %s, i.e. in block %s) but reports %s"
                       % (inst, try_lo, try_hi, handler_at, hname, _short(d)), node=cb.node,
                       detail="reports range [%s, %s] and the block containing the handler address %s" % (try_lo, try_hi, handler_at))
        sink.require(seen_try >= 1, "no basic block of the model method covers the try range (block construction left the model)")


def _short(d):
    if isinstance(d, dict):
        return "{start=%s, end=%s, handlers=%s}" % (d.get("start"), d.get("end"), [(h.get("name"), str(h.get("idx")), h.get("basic_block")) for h in d.get("list", []) if isinstance(h, dict)])
    return repr(d)


# --------------------------------------------------------------------------- determineException
def check_end_convention(sink, repo):
    d = sink.mod(DEX)
    f = d.func("determineException")
    sink.analysed(f)
    sa, ic = Lin.atom("start_addr"), Lin.atom("insn_count")
    # the catch-all address is a concrete code address: 0 (the first instruction is a legal handler) and a non-zero one
    cases = [("typed handlers only (size 2)", 2, 2, None)]
    for ca in (0, 6):
        cases += [("catch-all only (size 0), catch-all at code address %d" % ca, 0, 0, ca),
                  ("typed handlers and catch-all (size -2), catch-all at code address %d" % ca, -2, 2, ca)]
    for label, size, ntyped, ca in cases:
        hs = [Handler(7 + k, Lin.atom("handler%d_addr" % k)) for k in range(ntyped)]
        ch = CatchHandler(101, size, hs, ca)
        method = EncMethod(CodeModel([TryItem(sa, ic, 1)], HandlerList([ch])))
        it = Interp(repo, lenient=LENIENT)
        try:
            r = it.call(it.closure_of(f), [VmModel(), method])
        except PyRaise as e:
            raise AnalysisError("determineException raised %s on the one-try model" % e)
        sink.require(isinstance(r, list) and len(r) == 1 and isinstance(r[0], list) and len(r[0]) >= 2,
                     "determineException no longer returns [[start, end, handlers...]] for one try item (got %r)" % (r,))
        z = r[0]
        sink.count("try_items")
        sink.check("end-convention", "try start, %s" % label, Lin.of(z[0]) == sa * 2, f, "try start = %s" % (z[0],),
                   "determineException emits start %s for a try item starting at code unit start_addr; byte offset is 2*start_addr" % (z[0],),
                   node=f.node, detail="start = %s" % (z[0],))
        sink.check("end-convention", "try end, %s" % label, Lin.of(z[1]) == sa * 2 + ic * 2 - 1, f, "try end = %s" % (z[1],),
                   "determineException emits end %s; the inclusive last byte of the range is 2*start_addr + 2*insn_count - 1 "
                   "(the convention get_exception's call site uses)" % (z[1],), node=f.node, detail="end = %s (inclusive last byte)" % (z[1],))
        want = [("Ltype%d;" % (7 + k), Lin.atom("handler%d_addr" % k) * 2) for k in range(ntyped)]
        if size <= 0:
            want.append(("Ljava/lang/Throwable;", Lin.of(ca * 2)))
        got = []
        for h in z[2:]:
            try:
                got.append((h[0], Lin.of(h[1])))
            except (TypeError, IndexError, NotModelled):
                got.append(("?", repr(h)))
        sink.check("handler-list", label, got == want, f,
                   "%s: handlers %s" % (label, [(n_, str(a_)) for n_, a_ in got]),
                   "for an encoded_catch_handler with %s determineException reports the handlers %s; the try range's handlers are %s"
                   % (label, [(n_, str(a_)) for n_, a_ in got], [(n_, str(a_)) for n_, a_ in want]), node=f.node,
                   detail="handlers = %s" % [(n_, str(a_)) for n_, a_ in want])


def check_pairing(sink, repo):
    """four try items over three encoded_catch_handlers (two try items share one); the FIRST handler entry contains a padded
    (non-minimal, legal) LEB128, so it occupies 8 bytes although its minimal re-encoding has 4"""
    d = sink.mod(DEX)
    f = d.func("determineException")
    entries = [(1, 8), (9, 4), (13, 4)]  # (offset relative to the list, bytes occupied)
    handlers = []
    for k, (rel, _occ) in enumerate(entries):
        handlers.append(CatchHandler(100 + rel, 1, [Handler(20 + k, Lin.atom("h%d_addr" % k))], Lin.atom("unused"), minimal_length=4))
    refs = [0, 1, 2, 1]
    tries = [TryItem(Lin.atom("t%d_start" % i), Lin.atom("t%d_count" % i), entries[r][0]) for i, r in enumerate(refs)]
    method = EncMethod(CodeModel(tries, HandlerList(handlers)))
    it = Interp(repo, lenient=LENIENT)
    try:
        r = it.call(it.closure_of(f), [VmModel(), method])
        got = {}
        for z in r:
            got[repr(Lin.of(z[0]))] = [(h[0], Lin.of(h[1])) for h in z[2:]]
        err = None
    except PyRaise as e:
        if not e.reportable:
            raise AnalysisError("determineException: the evaluator produced %s on the multi-try model (model gap, not a verdict)" % e)
        got, err = {}, e.name
    for i, rix in enumerate(refs):
        key = repr(Lin.atom("t%d_start" % i) * 2)
        want = [("Ltype%d;" % (20 + rix), Lin.atom("h%d_addr" % rix) * 2)]
        g = got.get(key)
        sink.count("paired_tries")
        sink.check("handler-pairing", "try item #%d -> handler entry #%d" % (i + 1, rix + 1), err is None and g == want, f,
                   "try item #%d (handler entry #%d, first entry has a padded LEB128): %s" % (
                       i + 1, rix + 1, "raises %s" % err if err else "handlers %s" % ([(n_, str(a_)) for n_, a_ in g] if g is not None else "missing")),
                   "with three encoded_catch_handlers of which the first contains a padded LEB128 (8 bytes occupied, 4 when re-encoded), try item #%d "
                   "refers to entry #%d but determineException %s; expected %s" % (
                       i + 1, rix + 1, "raises %s" % err if err else "reports %s" % ([(n_, str(a_)) for n_, a_ in g] if g is not None else "no range for it"),
                       [(n_, str(a_)) for n_, a_ in want]), node=f.node,
                   detail="try item #%d is paired with its own handler entry #%d" % (i + 1, rix + 1))


# --------------------------------------------------------------------------- driver
def core(sink, repo):
    m = sink.mod(ANALYSIS)
    check_guard(sink, repo, m)
    check_call_site(sink, repo, m)
    check_end_convention(sink, repo)
    check_pairing(sink, repo)


def _mutants(m, d):
    """(name, Func, transformer(node)->bool changed, breaking?)"""
    ge = m.func("Exceptions.get_exception")
    cb = m.func("MethodAnalysis._create_basic_block")
    de = d.func("determineException")
    out = []

    strict = {ast.LtE: ast.Lt, ast.GtE: ast.Gt, ast.Lt: ast.LtE, ast.Gt: ast.GtE}

    def cmp_nth(nth):
        def t(node):
            k = 0
            for n in ast.walk(node):
                if isinstance(n, ast.Compare) and len(n.ops) == 1 and type(n.ops[0]) in strict:
                    if k == nth:
                        n.ops[0] = strict[type(n.ops[0])]()
                        return True
                    k += 1
            return False
        return t

    ncmp = sum(1 for n in ast.walk(ge.node) if isinstance(n, ast.Compare) and len(n.ops) == 1 and type(n.ops[0]) in strict)
    if ncmp < 2:
        raise AnalysisError("get_exception has fewer than two order comparisons: mutation adequacy has nothing to mutate")
    for i in range(ncmp):
        out.append(("get_exception: comparison #%d made (non-)strict" % i, ge, cmp_nth(i), True))

    def and_to_or(node):
        for n in ast.walk(node):
            if isinstance(n, ast.BoolOp) and isinstance(n.op, ast.And):
                n.op = ast.Or()
                return True
        return False
    out.append(("get_exception: first 'and' -> 'or'", ge, and_to_or, True))

    def return_to_break(node):
        for n in ast.walk(node):
            if isinstance(n, ast.For):
                n.body.append(ast.Break())
                return True
        return False
    out.append(("get_exception: search stops after the first entry", ge, return_to_break, True))

    def drop_minus_one(node):
        for n in ast.walk(node):
            if isinstance(n, ast.Call) and isinstance(n.func, ast.Attribute) and n.func.attr == "get_exception":
                for i, a in enumerate(n.args):
                    if isinstance(a, ast.BinOp) and isinstance(a.op, ast.Sub):
                        n.args[i] = a.left
                        return True
        return False
    out.append(("call site: exclusive end passed", cb, drop_minus_one, True))

    def swap_args(node):
        for n in ast.walk(node):
            if isinstance(n, ast.Call) and isinstance(n.func, ast.Attribute) and n.func.attr == "get_exception" and len(n.args) == 2:
                n.args.reverse()
                return True
        return False
    out.append(("call site: arguments swapped", cb, swap_args, True))

    def end_off_by_one(node):
        for n in ast.walk(node):
            if isinstance(n, ast.BinOp) and isinstance(n.op, ast.Sub) and isinstance(n.right, ast.Constant) and n.right.value == 1:
                n.right = ast.Constant(0)
                return True
        return False
    out.append(("determineException: exclusive end", de, end_off_by_one, True))

    def catch_all_only_when_empty(node):
        for n in ast.walk(node):
            if isinstance(n, ast.Compare) and len(n.ops) == 1 and isinstance(n.comparators[0], ast.Constant) and n.comparators[0].value == 0 \
                    and "get_size" in ast.unparse(n.left):
                n.ops[0] = ast.Eq() if isinstance(n.ops[0], (ast.LtE, ast.GtE)) else ast.LtE()
                return True
        return False
    out.append(("determineException: catch-all only for size == 0", de, catch_all_only_when_empty, True))

    # ---- benign --------------------------------------------------------------
    def flip_operands(node):
        ch = False
        flip = {ast.GtE: ast.LtE, ast.LtE: ast.GtE, ast.Gt: ast.Lt, ast.Lt: ast.Gt}
        for n in ast.walk(node):
            if isinstance(n, ast.Compare) and len(n.ops) == 1 and type(n.ops[0]) in flip:
                n.left, n.comparators[0] = n.comparators[0], n.left
                n.ops[0] = flip[type(n.ops[0])]()
                ch = True
        return ch
    out.append(("get_exception: operands flipped with mirrored operators", ge, flip_operands, False))

    def rename(old_new):
        def t(node):
            ch = False
            for n in ast.walk(node):
                if isinstance(n, ast.Name) and n.id in old_new:
                    n.id = old_new[n.id]
                    ch = True
                if isinstance(n, ast.arg) and n.arg in old_new:
                    n.arg = old_new[n.arg]
                    ch = True
            return ch
        return t
    out.append(("get_exception: parameters/loop variable renamed", ge,
                rename({"addr_start": "lo", "addr_end": "hi", "i": "entry"}), False))

    def hoist(node):
        for n in ast.walk(node):
            if isinstance(n, ast.For) and any(isinstance(c, ast.Call) and isinstance(c.func, ast.Attribute)
                                                and c.func.attr == "get_exception" for c in ast.walk(n)):
                for c in ast.walk(n):
                    if isinstance(c, ast.Call) and isinstance(c.func, ast.Attribute) and c.func.attr == "get_exception" and len(c.args) == 2:
                        a1 = c.args[1]
                        c.args[1] = ast.Name("last_byte__", ast.Load())
                        stmt = ast.Assign([ast.Name("last_byte__", ast.Store())], a1)
                        n.body.insert(0, stmt)
                        ast.fix_missing_locations(n)
                        return True
        return False
    out.append(("call site: inclusive end hoisted into a local", cb, hoist, False))
    return out


def mutation_adequacy(ctx, repo):
    m = ctx.mod(ANALYSIS)
    d = ctx.mod(DEX)
    base = Sink(ctx)
    core(base, repo)
    base_set = sorted(base.findings)
    killed = total = bsilent = btotal = 0
    for name, func, tr, breaking in _mutants(m, d):
        orig = func.node
        mut = clone_func(orig)
        if not tr(mut):
            raise AnalysisError("mutation %r no longer applies (rule lost its anchor)" % name)
        ast.fix_missing_locations(mut)
        func.node = mut
        if func.cls is not None:
            func.cls.methods[func.node.name] = func
        try:
            s = Sink(ctx)
            try:
                core(s, repo)
                res = sorted(s.findings)
            except AnalysisError as e:
                res = "analysis-error: %s" % e
        finally:
            func.node = orig
        if breaking:
            total += 1
            if res != base_set and not isinstance(res, str):
                killed += 1
                ctx.ob("mutation", name, True, "mutant reported: %s" % (res[0][2] if res else ""))
            else:
                raise AnalysisError("rule lost its teeth: breaking mutant survived: %s (%s)" % (name, res if isinstance(res, str) else "same findings"))
        else:
            btotal += 1
            if res == base_set:
                bsilent += 1
                ctx.ob("mutation", name, True, "benign edit: findings unchanged")
            else:
                raise AnalysisError("benign edit changed the verdict: %s -> %s" % (name, res))
    ctx.extra["mutants_killed"] = killed
    ctx.extra["mutants_total"] = total
    ctx.extra["benign_silent"] = bsilent
    ctx.extra["benign_total"] = btotal


def run(ctx):
    ctx.explanation = __doc__
    repo = ctx.repo
    try:
        core(ctx, repo)
    except PyRaise as e:
        raise AnalysisError("model evaluation raised %s outside a decided clause" % e)
    ctx.floor("orderings", 26)
    ctx.floor("first_match_cases", 52)
    ctx.floor("call_sites", 1)
    ctx.floor("try_items", 5)
    ctx.floor("paired_tries", 4)
    ctx.floor("blocks_queried", 3)
    ctx.floor("blocks_end_to_end", 3)
    ctx.floor("entry_ranges", 1)
    ctx.assume("try ranges and basic blocks are aligned on instruction boundaries, so byte-interval overlap "
               "is equivalent to 'the block contains an instruction covered by the range'")
    ctx.note("not decided: leaders from try starts/handlers (C10), the handler *blocks* attached to an entry, "
             "multi-valued answers (the API returns only the first matching range)")
    if ctx.tier == "thorough":
        mutation_adequacy(ctx, repo)
