"""Shared abstract models for C10 / C11 (and the units of C08): symbolic evaluation of
`determineNext`, folding of `BasicOPCODES`, and the bounded generic-method model of
`MethodAnalysis._create_basic_block`.  Built on symflow.SymInterp; repository source is
interpreted over opaque atoms, never executed."""
from __future__ import annotations

import ast
import re

from .absint import Sym, Lin, Obj, Raised, explore, show
from .consts import Folder, Ref, Unknown, is_unknown
from .model import ANALYSIS, DEX, AnalysisError, walk_no_nested, norm
from .symflow import SymInterp, SetV, key, mcall, is_marker, opaque_term, generic_items


# ---------------------------------------------------------------------------
# BasicOPCODES: module-level builder loop
# ---------------------------------------------------------------------------
def _names(node, ctx_type=None):
    out = set()
    for n in ast.walk(node):
        if isinstance(n, ast.Name) and (ctx_type is None or isinstance(n.ctx, ctx_type)):
            out.add(n.id)
    return out


def fold_module_global(repo, folder, mod, name):
    """Abstractly run the module-level statements that build `name` (assignments, the
    builder `for` loop with re.compile / .match on constants, set.add).  -> (value, stmts)"""
    top = [s for s in mod.tree.body if not isinstance(s, (ast.FunctionDef, ast.AsyncFunctionDef, ast.ClassDef, ast.Import, ast.ImportFrom))]
    need = {name}
    chosen = []
    changed = True
    while changed:
        changed = False
        for s in top:
            if s in chosen:
                continue
            stores = _names(s, ast.Store)
            mentioned = _names(s)
            touches = bool(stores & need)
            if not touches and isinstance(s, (ast.Expr, ast.For, ast.While, ast.If, ast.With, ast.Try, ast.AugAssign)):
                touches = bool(mentioned & need) and (name in mentioned)
            if touches:
                chosen.append(s)
                new = (mentioned - need - stores)
                # only module-level names that are assigned at module level matter
                new = {n for n in new if n in mod.assigns or any(n in _names(t, ast.Store) for t in top)}
                if new - need:
                    need |= new
                    changed = True
    chosen.sort(key=lambda s: s.lineno)
    if not chosen:
        raise AnalysisError("anchor vanished: no module-level statement builds %s in %s" % (name, mod.relpath))

    class _F:  # pseudo function for name resolution / locations
        module = mod
        qualname = "<module>"
        cls = None
        node = mod.tree

        @staticmethod
        def loc(n=None):
            return "%s:%s" % (mod.relpath, getattr(n, "lineno", 0))

    def h_method(it, recv, mname, args, kwargs, node, func):
        if isinstance(recv, Sym) and recv.op in ("module", "name") and recv.args and recv.args[0] == "re":
            if mname == "compile" and args and isinstance(args[0], str) and len(args) <= 2 and all(isinstance(a, (str, int)) for a in args):
                return re.compile(*args)  # parsing a regex *literal*
            if mname in ("match", "search", "fullmatch") and len(args) >= 2 and isinstance(args[0], str) and isinstance(args[1], str):
                return getattr(re, mname)(args[0], args[1]) is not None
            raise AnalysisError("%s: re.%s on non-constant operands" % (_F.loc(node), mname))
        if isinstance(recv, re.Pattern):
            if mname in ("match", "search", "fullmatch") and len(args) == 1 and isinstance(args[0], str):
                return getattr(recv, mname)(args[0]) is not None
            raise AnalysisError("%s: regex method %s on a non-constant subject" % (_F.loc(node), mname))
        return NotImplemented

    it = SymInterp(repo, folder, asg={}, hooks={"method": h_method, "inline": lambda f: f.cls is None and f.module is mod})
    env = {}
    try:
        for s in chosen:
            it.exec_stmt(s, env, _F)
    except Exception as ex:  # Split / Raised: the builder left the constant fragment
        if isinstance(ex, AnalysisError):
            raise
        raise AnalysisError("module-level builder of %s does not fold to a constant (%s: %s)" % (name, type(ex).__name__, ex))
    if name not in env:
        raise AnalysisError("module-level builder of %s assigns nothing" % name)
    return env[name], chosen


def as_int_set(v, what):
    if isinstance(v, SetV):
        items = v.items
    elif isinstance(v, (set, frozenset, list, tuple)):
        items = list(v)
    else:
        raise AnalysisError("%s does not fold to a set (got %s)" % (what, show(v)[:80]))
    out = set()
    for x in items:
        if isinstance(x, bool) or not isinstance(x, int):
            raise AnalysisError("%s has a non-constant member %s" % (what, show(x)[:60]))
        out.add(int(x))
    return out


# ---------------------------------------------------------------------------
# determineNext per opcode
# ---------------------------------------------------------------------------
INS, CUR, METH = Sym("ins"), Sym("cur_idx"), Sym("m")
OFF = mcall(INS, "get_ref_off")      # code units
LEN = mcall(INS, "get_length")       # bytes
BC = mcall(mcall(METH, "get_code"), "get_bc")


def lin(terms, const=0):
    return Lin(dict(terms), const).simplify()


def lin_eq(a, b):
    la, lb = Lin.of(a), Lin.of(b)
    if la is None or lb is None:
        return False
    d = la + lb.scale(-1)
    return not d.terms and d.const == 0


def exact(v, what):
    """exactness policy: a verdict may only rest on a value the interpreter fully evaluated"""
    t = opaque_term(v)
    if t:
        raise AnalysisError("%s: the interpreted value contains a term the model cannot evaluate (%s); no verdict" % (what, t[:120]))
    return v


class DNPath:
    def __init__(self, asg, result, it, lookups):
        self.asg = asg
        self.result = result     # list | Raised | other
        self.it = it
        self.lookups = lookups   # [(receiver value, method name, arg value, ast Call node)]


def isa_hook(it, name, callee, args, kwargs, node, func):
    """isinstance(x, C) / isinstance(x, (C1, C2)) -> named atoms isa(x, C)"""
    if name == "isinstance" and isinstance(callee, Sym) and callee.op == "name" and len(args) == 2:
        classes = args[1] if isinstance(args[1], (tuple, list)) else [args[1]]
        if all(isinstance(c, Ref) and c.kind == "class" for c in classes):
            if isinstance(args[0], Obj):
                return any(args[0].cls is not None and args[0].cls.is_subclass_of(c.obj.name) for c in classes)
            for c in classes:
                if it.atom("isa", key(args[0]), c.obj.name):
                    return True
            return False
    return NotImplemented


def determine_next_paths(repo, folder, dn, op):
    """abstract results of determineNext(ins, cur_idx, m) with ins.get_op_value() == op"""
    params = dn.params()
    if len(params) != 3:
        raise AnalysisError("determineNext no longer takes (instruction, cur_idx, method)")

    def run(asg):
        lookups = []

        def h_method(it, recv, name, args, kwargs, node, func):
            if recv == INS and name == "get_op_value" and not args:
                return op
            if isinstance(recv, Sym) and args and name not in ("format", "append", "warning", "debug", "info", "error"):
                lookups.append((recv, name, args[0], node))
            return NotImplemented

        it = SymInterp(repo, folder, asg=asg, hooks={"method": h_method, "call": isa_hook,
                                                     "inline": lambda f: f.cls is None and f.module is dn.module})
        try:
            r = it.call_function(dn, [INS, CUR, METH])
        except Raised as ex:
            r = ex
        return DNPath(dict(asg), r, it, lookups)

    return [p for _, p in explore(run, max_paths=512)]


# ---------------------------------------------------------------------------
# bounded generic-method model of MethodAnalysis._create_basic_block
# ---------------------------------------------------------------------------
METHOD, VM = Sym("method"), Sym("vm")
EXC = Sym("EXC")
E_ELEM = Sym("elem", EXC, -1)
E_START = Sym("index", E_ELEM, 0)
E_HANDLERS = Sym("slice", E_ELEM, 2, None)
H_ELEM = Sym("elem", E_HANDLERS, -1)
H_ADDR = Sym("index", H_ELEM, 1)


def LENK(k):
    return Sym("len", k)


def INSK(k):
    return Sym("ins", k)


def IDXK(k):
    return lin({LENK(j): 1 for j in range(k)}, 0)


def DNK(k):
    return Sym("DN", k)


class ModelPath:
    """one explored path of the generic-method model"""

    def __init__(self):
        self.asg = None
        self.entered = False
        self.raised = None
        self.blocks = []        # [(obj, start, end, nb, last_length, [pushed ins])]
        self.set_childs = []    # [(block obj, arg)]
        self.dn_bad = []        # [(args, node)] determineNext called with foreign arguments
        self.exc_bad = []
        self.spec = None        # [[k,...],...]
        self.conds = []         # consulted atoms
        self.symloops = []
        self.pops = 0


import re as _re

_EXC_COMPONENT = _re.compile(r"index\(elem\(EXC\),-?\d+\)|index\(elem\(slice\(elem\(EXC\),[^()]*\)\),-?\d+\)")
_LEN_TERMS = _re.compile(r"(\+?-?\d*\*?len\(\d+\))")
_XT_TERMS = _re.compile(r"\+?-?\d*\*?(call\(attr\(try\(\d+\),'get_\w+'\)\)|call\(attr\(obj:EncodedTypeAddrPair\(\d+,\d+\),'get_\w+'\)\)|uleb\(\d+\))")


def _interpretable(atom):
    """is the consulted fact one the specification can talk about?  (offset of an instruction is in a
    determineNext result / equals one component of an exception entry or of one of its handlers)"""
    kind = atom[0]
    if kind == "in":
        return atom[2].startswith("DN(") and _offset_text(atom[1])
    if kind == "eq0":
        txt = atom[1]
        if _XT_TERMS.search(txt):
            # an instruction offset compared with a number decoded from the interpreted try/catch table
            return _offset_text(_XT_TERMS.sub("", txt)) or _offset_text(_re.sub(r"\+-?\d+$", "", _XT_TERMS.sub("", txt)))
        comps = _EXC_COMPONENT.findall(txt)
        if len(comps) != 1:
            return False
        rest = txt.replace(comps[0], "", 1)
        return _offset_text(rest)
    return False


def _offset_text(t):
    """text of a linear form over instruction lengths only (an instruction offset, possibly negated)"""
    t = _LEN_TERMS.sub("", t)
    return t.strip("+") in ("", "0")


XT_LIST_OFF = 1000      # offsets inside the exception table are labels


def xt_label(h):
    return XT_LIST_OFF + 1 + 16 * h


def XTRY(t):
    return Sym("try", t)


def XPAIR(h, i):
    return Sym("obj:EncodedTypeAddrPair", h, i)


def XCATCHALL(h):
    return Sym("uleb", h)


def exception_leaders(exc_table):
    """what the DEX try/catch encoding makes a leader: every try start and every handler address (typed and catch-all),
    in bytes = 2 * code units.  exc_table = (T, sizes, assign): T try items, handler h has `sizes[h]` (signed, <= 0 means
    a catch-all follows abs(size) typed pairs), try t points at handler assign[t]."""
    T, sizes, assign = exc_table
    out = []
    for t in range(T):
        out.append((lin({mcall(XTRY(t), "get_start_addr"): 2}), "try start (try #%d)" % t))
    for h in sorted(set(assign)):
        for i in range(abs(sizes[h])):
            out.append((lin({mcall(XPAIR(h, i), "get_addr"): 2}), "handler address (handler list #%d, typed #%d)" % (h, i)))
        if sizes[h] <= 0:
            out.append((lin({XCATCHALL(h): 2}), "handler address (catch-all of handler list #%d)" % h))
    return out


def run_block_model(repo, folder, ma_cls, dn_func, de_func, basic_ops, ops, max_paths=6000, exc_table=None, step_budget=None, concrete=None):
    """ops: tuple of K concrete opcodes, one per generic instruction.  -> [ModelPath]
    exc_table=None: determineException is an opaque table (one generic entry / handler).
    exc_table=(T, sizes, assign): determineException and EncodedCatchHandler are *interpreted* over a generic code item
    with that try/catch structure (two try ranges may share one handler list, typed + catch-all handlers)."""
    K = len(ops)
    # concrete=(lens, targets): addresses are labels - instruction k has length lens[k] and determineNext(k) returns the list
    # targets[k]; the method has no try/catch table.  (Targets may lie before offset 0 or inside an instruction.)
    if concrete is not None:
        c_lens, c_targets = concrete
        if exc_table is not None or len(c_lens) != K:
            raise AnalysisError("block model: inconsistent scenario")

    def len_of(k):
        return c_lens[k] if concrete is not None else LENK(k)

    def idx_of(k):
        return sum(c_lens[:k]) if concrete is not None else IDXK(k)

    ech_cls = de_func.module.classes.get("EncodedCatchHandler") if exc_table is not None else None
    if exc_table is not None and (ech_cls is None or ech_cls.lookup("__init__") is None):
        raise AnalysisError("anchor vanished: EncodedCatchHandler.__init__")
    XBUFF, XCM, XHL = Sym("xbuff"), Sym("xcm"), Sym("xhandlers")
    CODE = mcall(METHOD, "get_code")
    init = ma_cls.lookup("__init__")
    cbb = ma_cls.lookup("_create_basic_block")
    if init is None or cbb is None:
        raise AnalysisError("anchor vanished: MethodAnalysis.__init__/_create_basic_block")
    bflag = [op in basic_ops for op in ops]
    instr_pairs = [(idx_of(k), INSK(k)) for k in range(K)]
    preset = {("c", "isnone", "vm"): 0, ("c", "isa", "method", "ExternalMethod"): 0,
              ("c", "truthy", key(mcall(METHOD, "get_code"))): 1}

    budget = {"steps": 0, "runs": 0}
    # interpreter steps per scenario (deterministic): at least four times what the unchanged tree needs for a scenario of this size
    STEP_BUDGET = step_budget or (30_000 * len(ops) ** 2 * (3 if exc_table is not None else 1))

    def run(asg0):
        budget["runs"] += 1
        if budget["steps"] > STEP_BUDGET:
            raise AnalysisError("generic-method model: scenario (ops=%s, table=%s) exceeds its interpretation budget after %d paths "
                                "(%d undecided facts on the current one); the code leaves the fragment the model can enumerate"
                                % (list(ops), exc_table, budget["runs"], len(asg0)))
        asg = dict(preset)
        asg.update(asg0)
        P = ModelPath()
        P.asg = asg
        pushes = {}
        building = {"h": None, "objs": None, "pairs": 0}

        def handler_objects(it):
            if building["objs"] is None:
                T, sizes, assign = exc_table
                objs = []
                for h in range(len(sizes)):
                    building["h"], building["pairs"] = h, 0
                    o = it.new_obj(ech_cls, "handler#%d" % h)
                    it.call_function(ech_cls.lookup("__init__"), [XBUFF, XCM], recv=o)
                    objs.append(o)
                building["h"] = None
                building["objs"] = objs
            return building["objs"]

        def h_new(it, cls, args, kwargs, node, func):
            if exc_table is not None and cls.name == "EncodedTypeAddrPair" and building["h"] is not None:
                building["pairs"] += 1
                return XPAIR(building["h"], building["pairs"] - 1)
            return NotImplemented

        def h_method(it, recv, name, args, kwargs, node, func):
            if exc_table is not None:
                T, sizes, assign = exc_table
                if recv == CODE and not args:
                    if name == "get_tries_size":
                        return T
                    if name == "get_tries":
                        return [XTRY(t) for t in range(T)]
                    if name == "get_handlers":
                        return XHL
                if recv == XHL and not args:
                    if name == "get_list":
                        return list(handler_objects(it))
                    if name == "get_size":
                        return len(sizes)
                    if name in ("get_off", "get_offset"):
                        return XT_LIST_OFF
                if isinstance(recv, Sym) and recv.op == "try" and not args and name == "get_handler_off":
                    return xt_label(assign[recv.args[0]]) - XT_LIST_OFF
                if recv == XBUFF:
                    if name == "tell" and building["h"] is not None:
                        return xt_label(building["h"])
                    raise AnalysisError("exception-table model: unexpected stream access %s()" % name)
            if recv == METHOD:
                if name == "get_instructions_idx" and not args:
                    return list(instr_pairs)
                if name == "get_instructions" and not args:
                    return [INSK(k) for k in range(K)]
                return NotImplemented
            if isinstance(recv, Sym) and recv.op == "ins" and not args:
                k = recv.args[0]
                if name == "get_op_value":
                    return ops[k]
                if name == "get_length":
                    return len_of(k)
                return NotImplemented
            if isinstance(recv, Obj) and recv.cls is not None and recv.cls.name == "DEXBasicBlock":
                if name == "set_childs":
                    P.set_childs.append((recv, args[0] if args else None))
                    return None
                if name == "push" and len(args) == 1:
                    pushes.setdefault(id(recv), []).append(args[0])
                    return NotImplemented
            return NotImplemented

        def h_repo_call(it, fobj, args, kwargs, node, func):
            if fobj is dn_func or fobj.qualname == dn_func.qualname:
                k = args[0].args[0] if args and isinstance(args[0], Sym) and args[0].op == "ins" else None
                if k is None or len(args) != 3 or not lin_eq(args[1], idx_of(k)) or args[2] != METHOD:
                    P.dn_bad.append((tuple(args), node))
                    return Sym("DN?", *[Sym(key(a)) for a in args])
                if concrete is not None:
                    return list(c_targets.get(k, []))
                return DNK(k)
            if fobj is de_func or fobj.qualname == de_func.qualname:
                if len(args) != 2 or args[1] != METHOD:
                    P.exc_bad.append((tuple(args), node))
                if exc_table is not None:
                    return it.call_function(de_func, list(args), kwargs)
                if concrete is not None:
                    return []
                return EXC
            if exc_table is not None and building["h"] is not None:
                if fobj.qualname == "readsleb128":
                    return exc_table[1][building["h"]]
                if fobj.qualname == "readuleb128":
                    return XCATCHALL(building["h"])
            return NotImplemented

        def h_inline(f):
            return exc_table is not None and f.cls is None and f.module is de_func.module and f is not dn_func

        def h_global(it, name, func):
            if name == "BasicOPCODES":
                return frozenset(basic_ops)
            return NotImplemented

        def positive(a):
            return isinstance(a, Sym) and a.op == "len"

        it = SymInterp(repo, folder, asg=asg,
                       hooks={"method": h_method, "repo_call": h_repo_call, "global": h_global,
                              "positive": positive, "call": isa_hook, "new": h_new, "inline": h_inline},
                       instantiate=("BasicBlocks", "DEXBasicBlock"))
        self_obj = it.new_obj(ma_cls, "self")
        try:
            it.call_function(init, [VM, METHOD], recv=self_obj)
        except Raised as ex:
            P.raised = ex
        finally:
            budget["steps"] += it.steps
        P.entered = any(t[0] == "enter" and t[1] == cbb.qualname for t in it.trace)
        if not P.entered or P.raised is not None:
            P.conds = [t[1] for t in it.trace if t[0] == "cond"]
            return P
        conts = [t[2] for t in it.trace if t[0] == "new" and t[1] == "BasicBlocks" and t[2] is not None]
        if len(conts) != 1:
            raise AnalysisError("MethodAnalysis no longer creates exactly one BasicBlocks container (%d)" % len(conts))
        cont = conts[0]
        gets = cont.cls.lookup("gets")
        if gets is None:
            raise AnalysisError("anchor vanished: BasicBlocks.gets")
        blist = it.call_function(gets, [], recv=cont)
        if not isinstance(blist, list) or any(not isinstance(b, Obj) for b in blist):
            raise AnalysisError("BasicBlocks.gets() does not evaluate to the list of blocks (%s)" % show(blist)[:80])
        bcls = blist[0].cls if blist else None
        for b in blist:
            vals = []
            for g in ("get_start", "get_end", "get_nb_instructions", "get_last_length"):
                f = b.cls.lookup(g)
                if f is None:
                    raise AnalysisError("anchor vanished: DEXBasicBlock.%s" % g)
                vals.append(it.call_function(f, [], recv=b))
            P.blocks.append((b, vals[0], vals[1], vals[2], vals[3], list(pushes.get(id(b), []))))
        P.pops = sum(1 for t in it.trace if t[0] == "list.pop")
        P.symloops = [t[1] for t in it.trace if t[0] == "symloop"]
        # ---- specification partition, evaluated on the same atoms ----------------
        def leader(k):
            idx = idx_of(k)
            if concrete is not None:
                for j in range(K):
                    if bflag[j] and any(t == idx for t in c_targets.get(j, []) if t != -1):
                        return "branch target of instruction %d" % j
                return None
            for j in range(K):
                if bflag[j] and it.atom("in", key(idx), key(DNK(j))):
                    return "branch target of instruction %d" % j
            if exc_table is not None:
                for val, what in exception_leaders(exc_table):
                    if it.eq(idx, val):
                        return what
                return None
            if it.eq(idx, E_START):
                return "try start"
            if it.eq(idx, H_ADDR):
                return "handler address"
            return None

        spec, cur, why = [], [], {}
        for k in range(K):
            if cur:
                w = leader(k)
                if w:
                    spec.append(cur)
                    cur = []
                    why[k] = w
            cur.append(k)
            if bflag[k]:
                spec.append(cur)
                cur = []
        if cur:
            spec.append(cur)
        P.spec = spec
        P.why = why
        P.idxs = [idx_of(k) for k in range(K)]
        P.lens = [len_of(k) for k in range(K)]
        P.targets = dict(c_targets) if concrete is not None else None
        P.conds = [t[1] for t in it.trace if t[0] == "cond"]
        return P

    res = [p for _, p in explore(run, max_paths=max_paths)]
    run_block_model.last_steps = budget["steps"]
    return res


def compare_partition(P, ops, basic_ops):
    """-> list of (category, message) describing how the blocks of path P differ from the
    specification partition; [] when they agree."""
    K = len(ops)
    out = []
    got = []
    for (b, start, end, nb, ll, pushed) in P.blocks:
        ks = []
        for x in pushed:
            if isinstance(x, Sym) and x.op == "ins":
                ks.append(x.args[0])
            else:
                ks.append(None)
        got.append(ks)
    for (b, start, end, nb, ll, pushed) in P.blocks:
        exact([start, end, nb, ll, pushed], "_create_basic_block model")
    spec = P.spec
    scen = "instructions " + ", ".join("#%d=%s" % (k, "branch" if ops[k] in basic_ops else "plain") for k in range(K))
    if P.why:
        scen += "; " + ", ".join("#%d is a %s" % (k, w) for k, w in sorted(P.why.items()))
    if got != spec:
        flat = [k for ks in got for k in ks]
        if flat != list(range(K)):
            out.append(("coverage", "blocks hold instructions %s, expected every instruction exactly once in order (%s)" % (got, scen)))
        elif [] in got:
            out.append(("empty-block", "an empty block is left in the list: %s, expected %s (%s)" % (got, spec, scen)))
        else:
            # where does the first difference come from?
            cat = "partition"
            gb = {ks[0] for ks in got}
            sb = {ks[0] for ks in spec}
            miss = sorted(sb - gb)
            extra = sorted(gb - sb)
            if miss:
                k = miss[0]
                if k in P.why:
                    w = P.why[k]
                    cat = "leader/" + ("branch-target" if w.startswith("branch") else w.split(" (")[0].replace(" ", "-"))
                else:
                    cat = "split-after-branch"
            elif extra:
                cat = "extra-split"
            out.append((cat, "blocks %s, expected %s (%s)" % (got, spec, scen)))
        return out
    for (b, start, end, nb, ll, pushed), ks in zip(P.blocks, spec):
        es = P.idxs[ks[0]]
        ee = (Lin.of(P.idxs[ks[-1]]) + Lin.of(P.lens[ks[-1]])).simplify()
        if not lin_eq(start, es):
            out.append(("contiguity/start", "block %s starts at %s, expected %s (%s)" % (ks, show(start), show(es), scen)))
        if not lin_eq(end, ee):
            out.append(("contiguity/end", "block %s ends at %s, expected %s (%s)" % (ks, show(end), show(ee), scen)))
        if not (isinstance(nb, int) and nb == len(ks)):
            out.append(("count", "block %s reports %s instructions, expected %d (%s)" % (ks, show(nb), len(ks), scen)))
        if not lin_eq(ll, P.lens[ks[-1]]):
            out.append(("last-length", "block %s reports last length %s, expected %s (%s)" % (ks, show(ll), show(P.lens[ks[-1]]), scen)))
    return out


def compare_callsite(P, ops, basic_ops):
    """set_childs must be called once per final block with determineNext's result for the
    block's last instruction (or [] when that instruction is not a branch)."""
    out = []
    final = [b for (b, *_rest) in P.blocks]
    calls = {}
    for b, arg in P.set_childs:
        calls.setdefault(id(b), []).append(arg)
    for (b, start, end, nb, ll, pushed) in P.blocks:
        last = pushed[-1] if pushed else None
        k = last.args[0] if isinstance(last, Sym) and last.op == "ins" else None
        c = calls.get(id(b), [])
        if len(c) != 1:
            out.append(("callsite/once", "set_childs is called %d times for the block ending in instruction %s" % (len(c), k)))
            continue
        arg = c[0]
        exact(arg, "set_childs call site")
        if k is not None and ops[k] in basic_ops and getattr(P, "targets", None) is not None:
            if not (isinstance(arg, list) and arg == list(P.targets.get(k, []))):
                out.append(("callsite/branch", "block ending in branch instruction #%d gets successors %s, expected determineNext's result %s"
                            % (k, show(arg)[:80], P.targets.get(k, []))))
            # an edge can only land on its target if the target (when it is an instruction start) begins a block
            starts = [b_[1] for b_ in P.blocks]
            for t in P.targets.get(k, []):
                if t != -1 and t in P.idxs and not any(lin_eq(s_, t) for s_ in starts):
                    out.append(("callsite/target-not-block-start",
                                "instruction #%d branches to address %s (start of instruction #%d) but no block begins there: the successor edge "
                                "ends in the middle of a block (blocks start at %s)" % (k, t, P.idxs.index(t), [show(s_) for s_ in starts])))
        elif k is not None and ops[k] in basic_ops:
            if arg != DNK(k):
                out.append(("callsite/branch", "block ending in branch instruction #%d gets successors %s, expected determineNext(ins#%d, idx#%d)" % (k, show(arg)[:80], k, k)))
        else:
            if not (isinstance(arg, (list, tuple)) and len(arg) == 0):
                out.append(("callsite/fallthrough", "block ending in plain instruction #%s gets successors %s, expected [] (fall through)" % (k, show(arg)[:80])))
    extra = [b for b, _ in P.set_childs if not any(b is f for f in final)]
    if extra:
        out.append(("callsite/stale", "set_childs is called on %d block(s) that are not in the final list" % len(extra)))
    return out


# ---------------------------------------------------------------------------
# DEXBasicBlock.set_childs / push in isolation
# ---------------------------------------------------------------------------
CTX = Sym("ctx")
BSTART = Sym("S")


def T(i):
    return Sym("target", i)


class ChildsPath:
    def __init__(self):
        self.asg = None
        self.raised = None
        self.problems = []      # [(category, message)]
        self.n_children = 0


def _new_block(it, bb_cls, start):
    init = bb_cls.lookup("__init__")
    if init is None or len(init.params()) != 5:
        raise AnalysisError("DEXBasicBlock.__init__ no longer takes (start, vm, method, context)")
    return it.construct(bb_cls, [start, VM, METHOD, CTX])


def _getter(it, obj, name):
    f = obj.cls.lookup(name)
    if f is None:
        raise AnalysisError("anchor vanished: %s.%s" % (obj.cls.name, name))
    return it.call_function(f, [], recv=obj)


def _ins_hook(ops):
    def h(it, recv, name, args, kwargs, node, func):
        if isinstance(recv, Sym) and recv.op == "ins" and not args:
            k = recv.args[0]
            if name == "get_op_value":
                return ops[k]
            if name == "get_length":
                return LENK(k)
        return NotImplemented
    return h


def _positive(a):
    return isinstance(a, Sym) and a.op == "len"


def set_childs_paths(repo, folder, bb_cls, values, label):
    """interpret  blk.set_childs(values)  for a block holding two generic instructions."""
    sc = bb_cls.lookup("set_childs")
    push = bb_cls.lookup("push")
    if sc is None or push is None or len(sc.params()) != 2:
        raise AnalysisError("anchor vanished: DEXBasicBlock.set_childs(values)/push")
    last_addr = lin({BSTART: 1, LENK(0): 1})
    end = lin({BSTART: 1, LENK(0): 1, LENK(1): 1})

    def run(asg):
        P = ChildsPath()
        P.asg = dict(asg)
        found = {}
        lookups = []
        ih = _ins_hook((0, 0))

        def h_method(it, recv, name, args, kwargs, node, func):
            if recv == CTX:
                if name == "get_basic_block" and len(args) == 1:
                    a = args[0]
                    lookups.append(a)
                    k = key(a)
                    if it.atom("found", k):
                        if k not in found:
                            found[k] = _new_block(it, bb_cls, Sym("tstart", len(found)))
                        return found[k]
                    return None
                raise AnalysisError("set_childs queries the block container through %s(), not get_basic_block(addr)" % name)
            return ih(it, recv, name, args, kwargs, node, func)

        it = SymInterp(repo, folder, asg=asg, hooks={"method": h_method, "positive": _positive, "call": isa_hook},
                       instantiate=("DEXBasicBlock",))
        blk = _new_block(it, bb_cls, BSTART)
        it.call_function(push, [INSK(0)], recv=blk)
        it.call_function(push, [INSK(1)], recv=blk)
        try:
            it.call_function(sc, [list(values)], recv=blk)
        except Raised as ex:
            P.raised = ex
            P.problems.append(("raises", "set_childs(%s) raises %s" % (label, ex)))
            return P
        # ---- specification ---------------------------------------------------
        exp = []
        want_lookups = []
        if len(values) == 0:
            # fall through: the block that begins just past self.end
            cands = [a for a in lookups if Lin.of(a) is not None]
            ok = len(lookups) == 1 and cands and not (Lin.of(cands[0]) + Lin.of(end).scale(-1)).terms \
                and (Lin.of(cands[0]) + Lin.of(end).scale(-1)).const in (0, 1)
            if not ok:
                P.problems.append(("fallthrough/lookup", "fall-through block is looked up at %s, expected the address just past the block end %s"
                                   % ([show(a) for a in lookups], show(end))))
            else:
                k = key(lookups[0])
                if it.atom("found", k):
                    exp.append((last_addr, end, found.get(k)))
        else:
            for v in values:
                if it.eq(v, -1):
                    continue
                want_lookups.append(v)
                k = key(v)
                if it.atom("found", k):
                    exp.append((last_addr, v, found.get(k)))
            if [key(a) for a in lookups] != [key(a) for a in want_lookups]:
                P.problems.append(("targets/lookup", "set_childs(%s) looks up blocks at %s, expected %s (every target except -1, in order)"
                                   % (label, [show(a) for a in lookups], [show(a) for a in want_lookups])))
        childs = _getter(it, blk, "get_next")
        exact([childs, lookups], "set_childs(%s)" % label)
        P.n_children = len(exp)

        def same_triple(c, e, mirrored=False):
            if not (isinstance(c, tuple) and len(c) == 3):
                return False
            a, b = (e[1], e[0]) if mirrored else (e[0], e[1])
            return lin_eq(c[0], a) and lin_eq(c[1], b) and c[2] is e[2]

        if not (isinstance(childs, list) and len(childs) == len(exp) and all(same_triple(c, e) for c, e in zip(childs, exp))):
            cat = "fallthrough/child" if len(values) == 0 else "targets/child"
            P.problems.append((cat, "set_childs(%s) records successors %s, expected %s  [(address of last instruction, target address, block)]"
                               % (label, _show_triples(childs), _show_triples(exp))))
        # ---- mirror: fathers of every target -----------------------------------
        for k, tb in found.items():
            fathers = _getter(it, tb, "get_prev")
            exact(fathers, "set_childs(%s) predecessors" % label)
            fexp = [(e[1], e[0], blk) for e in exp if e[2] is tb]
            okf = isinstance(fathers, list) and len(fathers) == len(fexp) and all(
                isinstance(c, tuple) and len(c) == 3 and lin_eq(c[0], e[0]) and lin_eq(c[1], e[1]) and c[2] is e[2]
                for c, e in zip(fathers, fexp))
            if not okf:
                P.problems.append(("mirror", "after set_childs(%s) the target block at %s has predecessors %s, expected %s "
                                   "[(target address, address of last instruction, this block)]"
                                   % (label, k, _show_triples(fathers), _show_triples(fexp))))
        own = _getter(it, blk, "get_prev")
        if own != []:
            P.problems.append(("mirror", "set_childs(%s) adds predecessors %s to the block itself" % (label, _show_triples(own))))
        return P

    return [p for _, p in explore(run, max_paths=2000)]


def _show_triples(v):
    if not isinstance(v, list):
        return show(v)[:120]
    out = []
    for c in v:
        if isinstance(c, tuple):
            out.append("(" + ", ".join(("<%s>" % x.name) if isinstance(x, Obj) else show(x) for x in c) + ")")
        else:
            out.append(show(c))
    return "[" + ", ".join(out) + "]"


def push_problems(repo, folder, bb_cls, ops):
    """DEXBasicBlock(start).push(i0).push(i1): end advances by exactly get_length, count by one."""
    push = bb_cls.lookup("push")
    if push is None or len(push.params()) != 2:
        raise AnalysisError("anchor vanished: DEXBasicBlock.push(instruction)")
    res = []

    def run(asg):
        out = []
        it = SymInterp(repo, folder, asg=asg, hooks={"method": _ins_hook(ops), "positive": _positive, "call": isa_hook},
                       instantiate=("DEXBasicBlock",))
        blk = _new_block(it, bb_cls, BSTART)
        st = [(_getter(it, blk, "get_start"), _getter(it, blk, "get_end"), _getter(it, blk, "get_nb_instructions"))]
        if not (lin_eq(st[0][0], BSTART) and lin_eq(st[0][1], BSTART) and st[0][2] == 0 and isinstance(st[0][2], int)):
            out.append(("ctor", "a new block at S has start=%s end=%s count=%s, expected S, S, 0" % tuple(show(x) for x in st[0])))
        total = Lin.of(BSTART)
        for n in range(len(ops)):
            try:
                it.call_function(push, [INSK(n)], recv=blk)
            except Raised as ex:
                out.append(("raises", "push raises %s" % ex))
                return out
            total = total + Lin.of(LENK(n))
            s, e, c, ll = (_getter(it, blk, g) for g in ("get_start", "get_end", "get_nb_instructions", "get_last_length"))
            exact([s, e, c, ll], "DEXBasicBlock.push model")
            if not lin_eq(s, BSTART):
                out.append(("start", "push changes the block start to %s" % show(s)))
            if not lin_eq(e, total.simplify()):
                out.append(("end", "after %d push(es) end is %s, expected %s (start + sum of get_length())" % (n + 1, show(e), show(total.simplify()))))
            if not (isinstance(c, int) and not isinstance(c, bool) and c == n + 1):
                out.append(("count", "after %d push(es) get_nb_instructions() is %s" % (n + 1, show(c))))
            if not lin_eq(ll, LENK(n)):
                out.append(("last-length", "after pushing instruction #%d get_last_length() is %s, expected its get_length()" % (n, show(ll))))
        return out

    for _, r in explore(run, max_paths=256):
        if isinstance(r, Raised):
            res.append(("raises", "push raises %s" % r))
        else:
            res.extend(r)
    return res


# ---------------------------------------------------------------------------
def pp(v):
    """readable rendering of abstract values for messages"""
    if isinstance(v, Sym):
        if v.op == "call" and v.args and isinstance(v.args[0], Sym) and v.args[0].op == "attr":
            recv, name = v.args[0].args
            return "%s.%s(%s)" % (pp(recv), name, ", ".join(pp(a) for a in v.args[1:]))
        if v.op == "call":
            return "%s(%s)" % (v.args[0], ", ".join(pp(a) for a in v.args[1:]))
        if v.op == "Mod" and len(v.args) == 2:
            return "(%s) %% %s" % (pp(v.args[0]), pp(v.args[1]))
        if v.op in ("BitAnd", "BitOr", "BitXor", "RShift", "FloorDiv") and len(v.args) == 2:
            return "(%s) %s %s" % (pp(v.args[0]), {"BitAnd": "&", "BitOr": "|", "BitXor": "^", "RShift": ">>", "FloorDiv": "//"}[v.op], pp(v.args[1]))
        if v.op == "elem":
            return "<each of %s>" % pp(v.args[0])
        if v.op == "index":
            return "%s[%s]" % (pp(v.args[0]), pp(v.args[1]))
        if v.op in ("ins", "len", "DN", "target", "tstart") and v.args:
            return "%s#%s" % (v.op, v.args[0])
        if not v.args:
            return str(v.op)
        return "%s(%s)" % (v.op, ", ".join(pp(a) for a in v.args))
    if isinstance(v, Lin):
        parts = []
        for a, c in sorted(v.terms.items(), key=lambda kv: key(kv[0])):
            s = pp(a)
            if c == 1:
                parts.append("+ " + s)
            elif c == -1:
                parts.append("- " + s)
            elif c < 0:
                parts.append("- %d*%s" % (-c, s))
            else:
                parts.append("+ %d*%s" % (c, s))
        if v.const > 0 or not parts:
            parts.append("+ %d" % v.const)
        elif v.const < 0:
            parts.append("- %d" % -v.const)
        s = " ".join(parts)
        return s[2:] if s.startswith("+ ") else s
    if isinstance(v, Obj):
        return "<%s>" % v.name
    if isinstance(v, (list, tuple)):
        s = ", ".join(pp(x) for x in v)
        return ("[%s]" if isinstance(v, list) else "(%s)") % s
    return show(v)


def lookup_problems(repo, folder, bbs_cls, bb_cls):
    """BasicBlocks.get_basic_block(addr) over two contiguous blocks [S, S+a) [S+a, S+a+b): the block whose
    half-open range contains addr, None outside."""
    gbb = bbs_cls.lookup("get_basic_block")
    cpush = bbs_cls.lookup("push")
    push = bb_cls.lookup("push")
    if gbb is None or cpush is None or push is None or len(gbb.params()) != 2:
        raise AnalysisError("anchor vanished: BasicBlocks.get_basic_block(addr)/push")
    out = []

    def run(asg):
        res = []
        it = SymInterp(repo, folder, asg=asg, hooks={"method": _ins_hook((0, 0, 0)), "positive": _positive, "call": isa_hook},
                       instantiate=("DEXBasicBlock", "BasicBlocks"))
        cont = it.construct(bbs_cls, [])
        b0 = _new_block(it, bb_cls, BSTART)
        it.call_function(push, [INSK(0)], recv=b0)
        b1 = _new_block(it, bb_cls, _getter(it, b0, "get_end"))
        it.call_function(push, [INSK(1)], recv=b1)
        it.call_function(push, [INSK(2)], recv=b1)
        it.call_function(cpush, [b0], recv=cont)
        it.call_function(cpush, [b1], recv=cont)
        a, b, c = LENK(0), LENK(1), LENK(2)
        queries = [("the start of the first block", lin({BSTART: 1}), b0),
                   ("the last byte of the first block", lin({BSTART: 1, a: 1}, -1), b0),
                   ("the start of the second block (= end of the first)", lin({BSTART: 1, a: 1}), b1),
                   ("the second instruction of the second block", lin({BSTART: 1, a: 1, b: 1}), b1),
                   ("the end of the last block", lin({BSTART: 1, a: 1, b: 1, c: 1}), None),
                   ("the byte before the first block", lin({BSTART: 1}, -1), None)]
        for what, q, want in queries:
            got = it.call_function(gbb, [q], recv=cont)
            exact(got, "BasicBlocks.get_basic_block model")
            if got is not want:
                res.append(("lookup", "get_basic_block(%s) returns %s, expected %s" % (what, pp(got), pp(want) if want is not None else None)))
        return res

    for _, r in explore(run, max_paths=64):
        if isinstance(r, Raised):
            out.append(("lookup", "get_basic_block raises %s" % r))
        else:
            out.extend(r)
    return out


# ---------------------------------------------------------------------------
# switch payloads: get_targets() yields the encoded *signed* relative targets
# ---------------------------------------------------------------------------
def payload_target_problems(repo, folder, cls, kind, size=2):
    """Interpret PackedSwitch/SparseSwitch(cm, buff) in the bit-provenance domain with the size field fixed to
    `size` and every other input bit symbolic; get_targets() must be the list of the `size` little-endian signed
    32-bit words the Dalvik format places at byte 8+4k (packed) / 4+4*size+4k (sparse).
    -> [(category, message)]; bits that stay unknown give AnalysisError (no verdict)."""
    from .absint import Interp, BufV
    from .bits import Bits, bits_relation
    init = cls.lookup("__init__")
    gt = cls.lookup("get_targets")
    if init is None or gt is None or len(init.params()) != 3:
        raise AnalysisError("anchor vanished: %s.__init__(cm, buff)/get_targets" % cls.name)
    base = 8 if kind == "packed" else 4 + 4 * size
    fixed = {}
    for i in range(8):
        fixed[("s", 2, i)] = (size >> i) & 1
        fixed[("s", 3, i)] = 0

    def run(asg):
        a = dict(fixed)
        a.update(asg)
        it = Interp(repo, folder, asg=a, hooks={"inline_funcs": {"*module*"}})
        o = it.new_obj(cls)
        it.call_function(init, [Sym("cm"), BufV("buff")], recv=o)
        return a, it.call_function(gt, [], recv=o)

    out = []
    for _, res in explore(run, max_paths=256):
        if isinstance(res, Raised):
            raise AnalysisError("%s(cm, buff) raises %s in the payload model" % (cls.name, res))
        a, targets = res
        if isinstance(targets, tuple):
            targets = list(targets)
        if not isinstance(targets, list) or len(targets) != size:
            t = opaque_term(targets)
            if t or not isinstance(targets, list):
                raise AnalysisError("%s.get_targets() does not evaluate to a list of decoded words (%s)" % (cls.name, show(targets)[:80]))
            out.append(("count", "%s with size %d yields %d targets" % (cls.name, size, len(targets))))
            continue
        for k, got in enumerate(targets):
            if isinstance(got, int) and not isinstance(got, bool):
                got = Bits.const(got)
            if not isinstance(got, Bits):
                raise AnalysisError("%s.get_targets()[%d] is not a decoded integer (%s)" % (cls.name, k, show(got)[:80]))
            bl = []
            for j in range(32):
                key_ = ("s", base + 4 * k + j // 8, j % 8)
                bl.append(a.get(key_, key_))
            exp = Bits.source(bl, True)
            rel = bits_relation(got.subst(a), exp)
            if rel == "unknown":
                raise AnalysisError("%s.get_targets()[%d]: some bits could not be traced to the payload bytes" % (cls.name, k))
            if rel == "different":
                out.append(("targets", "%s.get_targets()[%d] is %s; the %s-switch-payload stores a signed 32-bit relative target at bytes %d..%d (%s)"
                            % (cls.name, k, got.subst(a).describe(), kind, base + 4 * k, base + 4 * k + 3, exp.describe())))
    return out
