#!/venv/bin/python
"""Regenerate /verif/MANIFEST.json from agstatic/registry.py."""
import json
import os
import sys

here = os.path.dirname(os.path.dirname(os.path.abspath(__file__)))
sys.path.insert(0, here)
from agstatic import registry  # noqa: E402

BASE = json.load(open("/root/.vp/BASELINE.json"))
props = [json.loads(l)["id"] for l in open(os.path.join(here, "properties.jsonl"))]
checks = []
for pid in props:
    if pid not in registry.CLAIMED:
        continue
    c = registry.CLAIMED[pid]
    checks.append(dict(
        property_id=pid,
        quick_cmd="./check %s --tier quick" % pid,
        thorough_cmd="./check %s --tier thorough" % pid,
        evidence_file="evidence/%s.json" % pid,
        replay_cmd_template="./check %s --replay {path}" % pid,
        engine="agstatic",
        level_claimed=dict(category="other", text="static analysis: " + c["text"], design_ref=c["design_ref"]),
        level_note=c["note"],
        technique=c["technique"],
    ))
na = []
for pid in props:
    if pid in registry.CLAIMED:
        continue
    reason = registry.NOT_APPLICABLE.get(pid, "static check not built yet (fail-closed: not claimed until its rule exists and is silent on the unchanged tree)")
    na.append(dict(property_id=pid, reason=reason))
man = dict(
    version=1,
    setup_cmd="true",
    hooks=dict(guard="ANDROGUARD_VERIF", enable="none needed: static analysis reads /repo's working tree as is",
               baseline_off_cmd=BASE["cmd"].replace("--junitxml=<file>", "").strip(), source_commits=[], add_only=True),
    engines=[dict(name="agstatic", path="agstatic", serves_properties=[c["property_id"] for c in checks],
                  kind_free_text="repository-specific static analyser: ast source model, constant folder, bit-provenance/linear/order-type abstract interpretation, structural CFG rules, independent spec tables; never imports or runs androguard")],
    checks=checks,
    not_applicable=na,
    notes="All checks are static (no execution of /repo code; importing androguard inside the checker aborts). Exit 0 pass / 1 VIOLATION / 2 ANALYSIS-ERROR. Genuine defects recorded in known_findings.json print KNOWN-FINDING lines.",
)
json.dump(man, open(os.path.join(here, "MANIFEST.json"), "w"), indent=1)
print("checks=%d not_applicable=%d" % (len(checks), len(na)))
