"""C12 -- every block touching a try range carries that range (and only then).

Decided clauses (static; the repository functions are walked by the checker's own
model evaluator over abstract states, nothing of the repository is executed):

 overlap-guard   Exceptions.add + Exceptions.get_exception are evaluated for one table
                 entry (s, e) and a query (a, b) under EVERY weak ordering of the four
                 symbolic points consistent with a <= b and s <= e (order-type domain).
                 The entry must be returned exactly when the closed intervals overlap
                 (s <= b and a <= e).  The set of order types on which the code differs
                 from the specification is the reported construct (semantic signature).
 first-match     with two table entries the first entry (in table order) accepted by the
                 guard is returned and a rejected first entry does not end the search.
 call-site       the loop of MethodAnalysis._create_basic_block that attaches exception
                 information is evaluated on a block built with the real
                 DEXBasicBlock.__init__/push over symbolic start S and length L: the
                 query must be (S, S+L-1) (inclusive byte range) and the answer must be
                 stored on that same block.
 end-convention  dex.determineException is evaluated on one symbolic try item: the range it
                 emits must be [2*start_addr, 2*start_addr + 2*insn_count - 1], i.e. the same
                 inclusive-byte convention the call site uses.
"""
from __future__ import annotations

import ast
import copy
import hashlib

from ..model import ANALYSIS, DEX, AnalysisError, walk_no_nested, calls_in
from ..modeleval import Interp, Env, Pt, Obj, PyModel, PyRaise, NotModelled, Sink, clone_func, Lin
from ..order import weak_orderings, describe

OWN_MUTATION_ADEQUACY = True  # mutation_adequacy() below runs rule-specific breaking and benign edits
LENIENT = ("loguru.logger", "logger", "logging")


class Token(PyModel):
    def __init__(self, name):
        self.name = name

    def get_name(self):
        return self.name

    def __repr__(self):
        return "<%s>" % self.name


class BBTable(PyModel):
    def get_basic_block(self, idx):
        return Token("bb@%s" % (idx,))


# --------------------------------------------------------------------------- guard
def _orderings():
    for o in weak_orderings(["a", "b", "s", "e"]):
        if o["a"] <= o["b"] and o["s"] <= o["e"]:
            yield o


def _pts(o):
    return {k: Pt(k, 10 + 10 * v) for k, v in o.items()}


def _table(it, exc_cls, ranges):
    """Exceptions() ; .add([[s, e, [type, addr]] ...], bbs) ; -> (table obj, entries in table order)"""
    tab = it.instantiate(exc_cls, [], {})
    raw = [[s, e, ["Ljava/lang/Exception;", 0]] for s, e in ranges]
    it.call(it.getattr(tab, "add"), [raw, BBTable()])
    entries = list(it.iterate(it.call(it.getattr(tab, "gets"), [])))
    if len(entries) != len(ranges) or not all(isinstance(x, Obj) for x in entries):
        raise AnalysisError("Exceptions.add/gets no longer store one ExceptionAnalysis per try range")
    return tab, entries


def _query(repo, exc_cls, ranges, a, b):
    it = Interp(repo, lenient=LENIENT)
    tab, entries = _table(it, exc_cls, ranges)
    try:
        r = it.call(it.getattr(tab, "get_exception"), [a, b])
    except PyRaise as e:
        return "raises %s" % e, entries
    for i, x in enumerate(entries):
        if r is x:
            return i, entries
    if r is None:
        return None, entries
    return "returns %r" % (r,), entries


def check_guard(sink, repo, m):
    exc_cls = m.cls("Exceptions")
    ge = m.func("Exceptions.get_exception")
    sink.analysed(ge)
    sink.analysed(m.func("Exceptions.add"))
    sink.analysed(m.func("ExceptionAnalysis.__init__"))
    mism = []
    other = []
    guard = {}
    n = 0
    for o in _orderings():
        p = _pts(o)
        got, _ = _query(repo, exc_cls, [(p["s"], p["e"])], p["a"], p["b"])
        want = 0 if (o["s"] <= o["b"] and o["a"] <= o["e"]) else None
        n += 1
        sink.count("orderings")
        guard[tuple(sorted(o.items()))] = got
        ok = got == want
        if not ok:
            if got in (0, None):
                mism.append((describe(o), "returned" if got == 0 else "None", "entry" if want == 0 else "None"))
            else:
                other.append((describe(o), got))
        sink.ob("overlap-guard", describe(o), ok,
                "try [s,e], block [a,b], order %s: get_exception -> %s, overlap -> %s" % (
                    describe(o), "entry" if got == 0 else got, "entry" if want == 0 else None))
    if mism:
        mism.sort()
        sig = hashlib.sha1("|".join("%s:%s" % (d, g) for d, g, w in mism).encode()).hexdigest()[:8]
        missed = sum(1 for d, g, w in mism if w == "entry")
        construct = "guard != overlap on %d order types (%d missed, %d spurious), first [%s], sig %s" % (
            len(mism), missed, len(mism) - missed, mism[0][0], sig)
        d0, g0, w0 = mism[0]
        sink.finding("overlap-guard", ge, construct,
                     "get_exception(a, b) does not return the try range (s, e) exactly when [s,e] and [a,b] overlap: "
                     "e.g. for %s it yields %s, interval overlap requires %s" % (d0, g0, w0),
                     node=ge.node, witness=[dict(order=d, got=g, want=w) for d, g, w in mism])
    for d, g in other:
        sink.finding("overlap-guard", ge, "order %s: %s" % (d, g),
                     "get_exception(a, b) %s for %s" % (g, d), node=ge.node)
    # ---- the entry reports the range it was built from (ExceptionAnalysis.get()) ------------
    it = Interp(repo, lenient=LENIENT)
    S, E = Pt("s", 10), Pt("e", 20)
    tab, entries = _table(it, exc_cls, [(S, E)])
    ea = m.func("ExceptionAnalysis.get")
    sink.analysed(ea)
    try:
        d = it.call(it.getattr(entries[0], "get"), [])
    except PyRaise as e:
        d = "raises %s" % e
    okr = isinstance(d, dict) and d.get("start") is S and d.get("end") is E
    sink.count("entry_ranges")
    sink.check("entry-range", "ExceptionAnalysis.get()", okr, ea,
               "entry built from [s, e] reports start=%s end=%s" % ((getattr(d.get("start"), "name", d.get("start")), getattr(d.get("end"), "name", d.get("end"))) if isinstance(d, dict) else (d, "")),
               "an ExceptionAnalysis built from the try range [s, e] reports %r as its range" % (d,), node=ea.node,
               detail="entry reports start=s, end=e")
    # ---- first match wins, search continues past a rejected entry -------------
    for o in _orderings():
        p = _pts(o)
        g1 = guard[tuple(sorted(o.items()))]
        # second entry: a try range identical to the query; its guard verdict is evaluated directly
        g2, _ = _query(repo, exc_cls, [(p["a"], p["b"])], p["a"], p["b"])
        if g1 not in (0, None) or g2 not in (0, None):
            continue
        for order in ((0, 1), (1, 0)):
            ranges = [(p["s"], p["e"]), (p["a"], p["b"])]
            verdicts = [g1, g2]
            ranges = [ranges[i] for i in order]
            verdicts = [verdicts[i] for i in order]
            want = next((i for i, v in enumerate(verdicts) if v == 0), None)
            got, _ = _query(repo, exc_cls, ranges, p["a"], p["b"])
            sink.count("first_match_cases")
            sink.check("first-match", "%s table order %s" % (describe(o), order), got == want, ge,
                       "table of two entries, %s, accepted=%s: got %s want %s" % (describe(o), [v == 0 for v in verdicts], got, want),
                       "with two try ranges %s (guard accepts: %s) get_exception returns entry %s, the first accepted entry is %s"
                       % (describe(o), [v == 0 for v in verdicts], got, want), node=ge.node,
                       detail="first accepted entry in table order is returned (%s)" % describe(o))
    return n


# --------------------------------------------------------------------------- call site
class InsModel(PyModel):
    def __init__(self, length):
        self._l = length

    def get_length(self):
        return self._l

    def get_op_value(self):
        return 0

    def get_name(self):
        return "nop"


class MethodModel(PyModel):
    def get_name(self):
        return "m"

    def get_code_off(self):
        return 0


class ExcRecorder(PyModel):
    def __init__(self):
        self.calls = []

    def get_exception(self, *a):
        t = Token("answer%d" % len(self.calls))
        self.calls.append((a, t))
        return t


def _attr_assigned_from(init, clsname):
    """self.<attr> = <clsname>(...) in a constructor -> attr"""
    out = []
    for n in walk_no_nested(init.node):
        if isinstance(n, ast.Assign) and isinstance(n.value, ast.Call) and isinstance(n.value.func, ast.Name) \
                and n.value.func.id == clsname:
            for t in n.targets:
                if isinstance(t, ast.Attribute) and isinstance(t.value, ast.Name) and t.value.id == "self":
                    out.append(t.attr)
    return out


def check_call_site(sink, repo, m):
    cb = m.func("MethodAnalysis._create_basic_block")
    sink.analysed(cb)
    init = m.func("MethodAnalysis.__init__")
    bb_attr = _attr_assigned_from(init, "BasicBlocks")
    ex_attr = _attr_assigned_from(init, "Exceptions")
    sink.require(len(bb_attr) == 1 and len(ex_attr) == 1,
                 "MethodAnalysis.__init__ no longer creates exactly one BasicBlocks() and one Exceptions() attribute")
    sites = [c for c in calls_in(cb.node) if isinstance(c.func, ast.Attribute) and c.func.attr == "get_exception"]
    sink.require(sites, "anchor vanished: no get_exception(...) call in MethodAnalysis._create_basic_block")
    loops = []
    for c in sites:
        sink.count("call_sites")
        n = c
        top = None
        while n is not None and n is not cb.node:
            if isinstance(n, ast.stmt):
                top = n
            n = getattr(n, "_parent", None)
            if n is cb.node:
                break
        if n is None:
            # mutated (deep-copied) trees carry no parent links: find the top-level statement by containment
            top = next(s for s in cb.node.body if any(x is c for x in ast.walk(s)))
        if top not in loops:
            loops.append(top)
    bcls = m.cls("DEXBasicBlock")
    sink.analysed(m.func("DEXBasicBlock.__init__"))
    sink.analysed(m.func("DEXBasicBlock.push"))
    for top in loops:
        it = Interp(repo, lenient=LENIENT)
        S, L = Lin.atom("S"), Lin.atom("L")
        blocks = []
        for k, (s, l) in enumerate(((S, L), (S + L, Lin.atom("L2")))):
            b = it.instantiate(bcls, [s, Token("vm"), MethodModel(), BBTable()], {})
            it.call(it.getattr(b, "push"), [InsModel(l)])
            blocks.append((b, s, l))
        bbs = it.instantiate(m.cls("BasicBlocks"), [], {})
        for b, _, _ in blocks:
            it.call(it.getattr(bbs, "push"), [b])
        rec = ExcRecorder()
        me = Obj(m.cls("MethodAnalysis"))
        me.attrs[bb_attr[0]] = bbs
        me.attrs[ex_attr[0]] = rec
        env = Env(m, it.module_env(m), frame=(me, m.cls("MethodAnalysis")))
        env.vars["self"] = me
        try:
            it.exec_stmt(top, env)
        except PyRaise as e:
            raise AnalysisError("the statement attaching exception information left the modelled fragment: %s" % e)
        sink.require(len(rec.calls) == len(blocks),
                     "get_exception is not called once per basic block in the modelled loop (%d calls for %d blocks)" % (len(rec.calls), len(blocks)))
        for (b, s, l), (args, tok) in zip(blocks, rec.calls):
            want = (s, s + l - 1)
            ok = len(args) == 2 and Lin.of(args[0]) == want[0] and Lin.of(args[1]) == want[1]
            sink.check("call-site", "block [%s, %s)" % (s, s + l), ok, cb,
                       "get_exception(%s) for block [%s, %s)" % (", ".join(str(a) for a in args), s, s + l),
                       "the block covering bytes [%s, %s] (start %s, exclusive end %s) queries get_exception(%s); "
                       "the inclusive byte range is (%s, %s)" % (s, s + l - 1, s, s + l, ", ".join(str(a) for a in args), want[0], want[1]),
                       node=top, detail="query == (start, end-1) == (%s, %s)" % want)
            stored = it.call(it.getattr(b, "get_exception_analysis"), [])
            sink.check("call-site", "answer stored on block %s" % s, stored is tok, cb,
                       "answer for block %s stored: %r" % (s, stored),
                       "the answer of get_exception for block %s is not stored on that block (found %r)" % (s, stored), node=top,
                       detail="set_exception_analysis receives the answer for the same block")


# --------------------------------------------------------------------------- determineException
class TryItem(PyModel):
    def get_handler_off(self):
        return 4

    def get_start_addr(self):
        return Lin.atom("start_addr")

    def get_insn_count(self):
        return Lin.atom("insn_count")


class Handler(PyModel):
    def get_type_idx(self):
        return 7

    def get_addr(self):
        return Lin.atom("handler_addr")


class CatchHandler(PyModel):
    def __init__(self, off):
        self._off = off

    def get_off(self):
        return self._off

    def get_offset(self):
        return self._off

    def get_handlers(self):
        return [Handler()]

    def get_size(self):
        return 1

    def get_catch_all_addr(self):
        return Lin.atom("catch_all_addr")


class HandlerList(PyModel):
    def get_off(self):
        return 100

    def get_offset(self):
        return 100

    def get_list(self):
        return [CatchHandler(104)]


class CodeModel(PyModel):
    def get_tries_size(self):
        return 1

    def get_handlers(self):
        return HandlerList()

    def get_tries(self):
        return [TryItem()]


class EncMethod(PyModel):
    def get_code(self):
        return CodeModel()

    def get_name(self):
        return "m"


class VmModel(PyModel):
    def get_cm_type(self, idx):
        return "Ljava/lang/Exception;"


def check_end_convention(sink, repo):
    d = sink.mod(DEX)
    f = d.func("determineException")
    sink.analysed(f)
    it = Interp(repo, lenient=LENIENT)
    try:
        r = it.call(it.closure_of(f), [VmModel(), EncMethod()])
    except PyRaise as e:
        raise AnalysisError("determineException raised %s on the one-try model" % e)
    sink.require(isinstance(r, list) and len(r) == 1 and isinstance(r[0], list) and len(r[0]) >= 3,
                 "determineException no longer returns [[start, end, handlers...]] for one try item (got %r)" % (r,))
    z = r[0]
    sa, ic = Lin.atom("start_addr"), Lin.atom("insn_count")
    sink.count("try_items")
    sink.check("end-convention", "try start", Lin.of(z[0]) == sa * 2, f, "try start = %s" % (z[0],),
               "determineException emits start %s for a try item starting at code unit start_addr; byte offset is 2*start_addr" % (z[0],),
               node=f.node, detail="start = %s" % (z[0],))
    sink.check("end-convention", "try end", Lin.of(z[1]) == sa * 2 + ic * 2 - 1, f, "try end = %s" % (z[1],),
               "determineException emits end %s; the inclusive last byte of the range is 2*start_addr + 2*insn_count - 1 "
               "(the convention get_exception's call site uses)" % (z[1],), node=f.node, detail="end = %s (inclusive last byte)" % (z[1],))


# --------------------------------------------------------------------------- driver
def core(sink, repo):
    m = sink.mod(ANALYSIS)
    check_guard(sink, repo, m)
    check_call_site(sink, repo, m)
    check_end_convention(sink, repo)


def _mutants(m, d):
    """(name, Func, transformer(node)->bool changed, breaking?)"""
    ge = m.func("Exceptions.get_exception")
    cb = m.func("MethodAnalysis._create_basic_block")
    de = d.func("determineException")
    out = []

    strict = {ast.LtE: ast.Lt, ast.GtE: ast.Gt, ast.Lt: ast.LtE, ast.Gt: ast.GtE}

    def cmp_nth(nth):
        def t(node):
            k = 0
            for n in ast.walk(node):
                if isinstance(n, ast.Compare) and len(n.ops) == 1 and type(n.ops[0]) in strict:
                    if k == nth:
                        n.ops[0] = strict[type(n.ops[0])]()
                        return True
                    k += 1
            return False
        return t

    ncmp = sum(1 for n in ast.walk(ge.node) if isinstance(n, ast.Compare) and len(n.ops) == 1 and type(n.ops[0]) in strict)
    if ncmp < 2:
        raise AnalysisError("get_exception has fewer than two order comparisons: mutation adequacy has nothing to mutate")
    for i in range(ncmp):
        out.append(("get_exception: comparison #%d made (non-)strict" % i, ge, cmp_nth(i), True))

    def and_to_or(node):
        for n in ast.walk(node):
            if isinstance(n, ast.BoolOp) and isinstance(n.op, ast.And):
                n.op = ast.Or()
                return True
        return False
    out.append(("get_exception: first 'and' -> 'or'", ge, and_to_or, True))

    def return_to_break(node):
        for n in ast.walk(node):
            if isinstance(n, ast.For):
                n.body.append(ast.Break())
                return True
        return False
    out.append(("get_exception: search stops after the first entry", ge, return_to_break, True))

    def drop_minus_one(node):
        for n in ast.walk(node):
            if isinstance(n, ast.Call) and isinstance(n.func, ast.Attribute) and n.func.attr == "get_exception":
                for i, a in enumerate(n.args):
                    if isinstance(a, ast.BinOp) and isinstance(a.op, ast.Sub):
                        n.args[i] = a.left
                        return True
        return False
    out.append(("call site: exclusive end passed", cb, drop_minus_one, True))

    def swap_args(node):
        for n in ast.walk(node):
            if isinstance(n, ast.Call) and isinstance(n.func, ast.Attribute) and n.func.attr == "get_exception" and len(n.args) == 2:
                n.args.reverse()
                return True
        return False
    out.append(("call site: arguments swapped", cb, swap_args, True))

    def end_off_by_one(node):
        for n in ast.walk(node):
            if isinstance(n, ast.BinOp) and isinstance(n.op, ast.Sub) and isinstance(n.right, ast.Constant) and n.right.value == 1:
                n.right = ast.Constant(0)
                return True
        return False
    out.append(("determineException: exclusive end", de, end_off_by_one, True))

    # ---- benign --------------------------------------------------------------
    def flip_operands(node):
        ch = False
        flip = {ast.GtE: ast.LtE, ast.LtE: ast.GtE, ast.Gt: ast.Lt, ast.Lt: ast.Gt}
        for n in ast.walk(node):
            if isinstance(n, ast.Compare) and len(n.ops) == 1 and type(n.ops[0]) in flip:
                n.left, n.comparators[0] = n.comparators[0], n.left
                n.ops[0] = flip[type(n.ops[0])]()
                ch = True
        return ch
    out.append(("get_exception: operands flipped with mirrored operators", ge, flip_operands, False))

    def rename(old_new):
        def t(node):
            ch = False
            for n in ast.walk(node):
                if isinstance(n, ast.Name) and n.id in old_new:
                    n.id = old_new[n.id]
                    ch = True
                if isinstance(n, ast.arg) and n.arg in old_new:
                    n.arg = old_new[n.arg]
                    ch = True
            return ch
        return t
    out.append(("get_exception: parameters/loop variable renamed", ge,
                rename({"addr_start": "lo", "addr_end": "hi", "i": "entry"}), False))

    def hoist(node):
        for n in ast.walk(node):
            if isinstance(n, ast.For) and any(isinstance(c, ast.Call) and isinstance(c.func, ast.Attribute)
                                                and c.func.attr == "get_exception" for c in ast.walk(n)):
                for c in ast.walk(n):
                    if isinstance(c, ast.Call) and isinstance(c.func, ast.Attribute) and c.func.attr == "get_exception" and len(c.args) == 2:
                        a1 = c.args[1]
                        c.args[1] = ast.Name("last_byte__", ast.Load())
                        stmt = ast.Assign([ast.Name("last_byte__", ast.Store())], a1)
                        n.body.insert(0, stmt)
                        ast.fix_missing_locations(n)
                        return True
        return False
    out.append(("call site: inclusive end hoisted into a local", cb, hoist, False))
    return out


def mutation_adequacy(ctx, repo):
    m = ctx.mod(ANALYSIS)
    d = ctx.mod(DEX)
    base = Sink(ctx)
    core(base, repo)
    base_set = sorted(base.findings)
    killed = total = bsilent = btotal = 0
    for name, func, tr, breaking in _mutants(m, d):
        orig = func.node
        mut = clone_func(orig)
        if not tr(mut):
            raise AnalysisError("mutation %r no longer applies (rule lost its anchor)" % name)
        ast.fix_missing_locations(mut)
        func.node = mut
        if func.cls is not None:
            func.cls.methods[func.node.name] = func
        try:
            s = Sink(ctx)
            try:
                core(s, repo)
                res = sorted(s.findings)
            except AnalysisError as e:
                res = "analysis-error: %s" % e
        finally:
            func.node = orig
        if breaking:
            total += 1
            if res != base_set and not isinstance(res, str):
                killed += 1
                ctx.ob("mutation", name, True, "mutant reported: %s" % (res[0][2] if res else ""))
            else:
                raise AnalysisError("rule lost its teeth: breaking mutant survived: %s (%s)" % (name, res if isinstance(res, str) else "same findings"))
        else:
            btotal += 1
            if res == base_set:
                bsilent += 1
                ctx.ob("mutation", name, True, "benign edit: findings unchanged")
            else:
                raise AnalysisError("benign edit changed the verdict: %s -> %s" % (name, res))
    ctx.extra["mutants_killed"] = killed
    ctx.extra["mutants_total"] = total
    ctx.extra["benign_silent"] = bsilent
    ctx.extra["benign_total"] = btotal


def run(ctx):
    ctx.explanation = __doc__
    repo = ctx.repo
    try:
        core(ctx, repo)
    except PyRaise as e:
        raise AnalysisError("model evaluation raised %s outside a decided clause" % e)
    ctx.floor("orderings", 26)
    ctx.floor("first_match_cases", 52)
    ctx.floor("call_sites", 1)
    ctx.floor("try_items", 1)
    ctx.floor("entry_ranges", 1)
    ctx.assume("try ranges and basic blocks are aligned on instruction boundaries, so byte-interval overlap "
               "is equivalent to 'the block contains an instruction covered by the range'")
    ctx.note("not decided: leaders from try starts/handlers (C10), the handler *blocks* attached to an entry, "
             "multi-valued answers (the API returns only the first matching range)")
    if ctx.tier == "thorough":
        mutation_adequacy(ctx, repo)
