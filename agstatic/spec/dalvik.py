"""Independent Dalvik bytecode specification table.

Written from the public documents "Dalvik bytecode" and "Dalvik executable
instruction formats" (source.android.com), NOT from the repository.
"""

# ---------------------------------------------------------------------------
# formats: name -> dict(units, fields)
# field = (name, role, [(unit, lo, width), ...] low part first, signed)
# roles: reg, lit, off (branch offset, code units), idx (pool index), count, zero (must be zero)
def F(units, *fields):
    return dict(units=units, fields=list(fields))


FORMATS = {
    "10x": F(1, ("pad", "zero", [(0, 8, 8)], False)),
    "12x": F(1, ("A", "reg", [(0, 8, 4)], False), ("B", "reg", [(0, 12, 4)], False)),
    "11n": F(1, ("A", "reg", [(0, 8, 4)], False), ("B", "lit", [(0, 12, 4)], True)),
    "11x": F(1, ("AA", "reg", [(0, 8, 8)], False)),
    "10t": F(1, ("AA", "off", [(0, 8, 8)], True)),
    "20t": F(2, ("pad", "zero", [(0, 8, 8)], False), ("AAAA", "off", [(1, 0, 16)], True)),
    "22x": F(2, ("AA", "reg", [(0, 8, 8)], False), ("BBBB", "reg", [(1, 0, 16)], False)),
    "21t": F(2, ("AA", "reg", [(0, 8, 8)], False), ("BBBB", "off", [(1, 0, 16)], True)),
    "21s": F(2, ("AA", "reg", [(0, 8, 8)], False), ("BBBB", "lit", [(1, 0, 16)], True)),
    # 21h: literal is BBBB sign-extended then shifted (16 for const/high16, 48 for const-wide/high16)
    "21h": F(2, ("AA", "reg", [(0, 8, 8)], False), ("BBBB", "lit_high", [(1, 0, 16)], True)),
    "21c": F(2, ("AA", "reg", [(0, 8, 8)], False), ("BBBB", "idx", [(1, 0, 16)], False)),
    "23x": F(2, ("AA", "reg", [(0, 8, 8)], False), ("BB", "reg", [(1, 0, 8)], False), ("CC", "reg", [(1, 8, 8)], False)),
    "22b": F(2, ("AA", "reg", [(0, 8, 8)], False), ("BB", "reg", [(1, 0, 8)], False), ("CC", "lit", [(1, 8, 8)], True)),
    "22t": F(2, ("A", "reg", [(0, 8, 4)], False), ("B", "reg", [(0, 12, 4)], False), ("CCCC", "off", [(1, 0, 16)], True)),
    "22s": F(2, ("A", "reg", [(0, 8, 4)], False), ("B", "reg", [(0, 12, 4)], False), ("CCCC", "lit", [(1, 0, 16)], True)),
    "22c": F(2, ("A", "reg", [(0, 8, 4)], False), ("B", "reg", [(0, 12, 4)], False), ("CCCC", "idx", [(1, 0, 16)], False)),
    "30t": F(3, ("pad", "zero", [(0, 8, 8)], False), ("AAAAAAAA", "off", [(1, 0, 16), (2, 0, 16)], True)),
    "32x": F(3, ("pad", "zero", [(0, 8, 8)], False), ("AAAA", "reg", [(1, 0, 16)], False), ("BBBB", "reg", [(2, 0, 16)], False)),
    "31i": F(3, ("AA", "reg", [(0, 8, 8)], False), ("BBBBBBBB", "lit", [(1, 0, 16), (2, 0, 16)], True)),
    "31t": F(3, ("AA", "reg", [(0, 8, 8)], False), ("BBBBBBBB", "off", [(1, 0, 16), (2, 0, 16)], True)),
    "31c": F(3, ("AA", "reg", [(0, 8, 8)], False), ("BBBBBBBB", "idx", [(1, 0, 16), (2, 0, 16)], False)),
    "35c": F(3, ("A", "count", [(0, 12, 4)], False), ("G", "reg", [(0, 8, 4)], False), ("BBBB", "idx", [(1, 0, 16)], False),
             ("C", "reg", [(2, 0, 4)], False), ("D", "reg", [(2, 4, 4)], False), ("E", "reg", [(2, 8, 4)], False), ("F", "reg", [(2, 12, 4)], False)),
    "3rc": F(3, ("AA", "count", [(0, 8, 8)], False), ("BBBB", "idx", [(1, 0, 16)], False), ("CCCC", "reg", [(2, 0, 16)], False)),
    "45cc": F(4, ("A", "count", [(0, 12, 4)], False), ("G", "reg", [(0, 8, 4)], False), ("BBBB", "idx", [(1, 0, 16)], False),
              ("C", "reg", [(2, 0, 4)], False), ("D", "reg", [(2, 4, 4)], False), ("E", "reg", [(2, 8, 4)], False), ("F", "reg", [(2, 12, 4)], False),
              ("HHHH", "idx2", [(3, 0, 16)], False)),
    "4rcc": F(4, ("AA", "count", [(0, 8, 8)], False), ("BBBB", "idx", [(1, 0, 16)], False), ("CCCC", "reg", [(2, 0, 16)], False),
              ("HHHH", "idx2", [(3, 0, 16)], False)),
    "51l": F(5, ("AA", "reg", [(0, 8, 8)], False), ("BBBBBBBBBBBBBBBB", "lit", [(1, 0, 16), (2, 0, 16), (3, 0, 16), (4, 0, 16)], True)),
}

# operand order as the instruction is written in the spec syntax ("op vA, vB, #+CCCC"):
# list of field names; for 35c/45cc the register list is the first A of C,D,E,F,G; for 3rc/4rcc CCCC..CCCC+AA-1
OPERAND_ORDER = {
    "10x": [], "12x": ["A", "B"], "11n": ["A", "B"], "11x": ["AA"], "10t": ["AA"], "20t": ["AAAA"],
    "22x": ["AA", "BBBB"], "21t": ["AA", "BBBB"], "21s": ["AA", "BBBB"], "21h": ["AA", "BBBB"], "21c": ["AA", "BBBB"],
    "23x": ["AA", "BB", "CC"], "22b": ["AA", "BB", "CC"], "22t": ["A", "B", "CCCC"], "22s": ["A", "B", "CCCC"],
    "22c": ["A", "B", "CCCC"], "30t": ["AAAAAAAA"], "32x": ["AAAA", "BBBB"], "31i": ["AA", "BBBBBBBB"],
    "31t": ["AA", "BBBBBBBB"], "31c": ["AA", "BBBBBBBB"], "51l": ["AA", "BBBBBBBBBBBBBBBB"],
}

# ---------------------------------------------------------------------------
# opcodes: value -> (mnemonic, format, index kind or None, flow class)
# flow: 'next' (falls through only), 'return', 'throw', 'goto', 'if', 'switch'
OPCODES = {}


def _op(v, name, fmt, kind=None, flow="next"):
    assert v not in OPCODES
    OPCODES[v] = (name, fmt, kind, flow)


_op(0x00, "nop", "10x")
for i, (n, f) in enumerate([("move", "12x"), ("move/from16", "22x"), ("move/16", "32x"),
                            ("move-wide", "12x"), ("move-wide/from16", "22x"), ("move-wide/16", "32x"),
                            ("move-object", "12x"), ("move-object/from16", "22x"), ("move-object/16", "32x")]):
    _op(0x01 + i, n, f)
for i, n in enumerate(["move-result", "move-result-wide", "move-result-object", "move-exception"]):
    _op(0x0A + i, n, "11x")
_op(0x0E, "return-void", "10x", flow="return")
_op(0x0F, "return", "11x", flow="return")
_op(0x10, "return-wide", "11x", flow="return")
_op(0x11, "return-object", "11x", flow="return")
_op(0x12, "const/4", "11n")
_op(0x13, "const/16", "21s")
_op(0x14, "const", "31i")
_op(0x15, "const/high16", "21h")
_op(0x16, "const-wide/16", "21s")
_op(0x17, "const-wide/32", "31i")
_op(0x18, "const-wide", "51l")
_op(0x19, "const-wide/high16", "21h")
_op(0x1A, "const-string", "21c", "string")
_op(0x1B, "const-string/jumbo", "31c", "string")
_op(0x1C, "const-class", "21c", "type")
_op(0x1D, "monitor-enter", "11x")
_op(0x1E, "monitor-exit", "11x")
_op(0x1F, "check-cast", "21c", "type")
_op(0x20, "instance-of", "22c", "type")
_op(0x21, "array-length", "12x")
_op(0x22, "new-instance", "21c", "type")
_op(0x23, "new-array", "22c", "type")
_op(0x24, "filled-new-array", "35c", "type")
_op(0x25, "filled-new-array/range", "3rc", "type")
_op(0x26, "fill-array-data", "31t")
_op(0x27, "throw", "11x", flow="throw")
_op(0x28, "goto", "10t", flow="goto")
_op(0x29, "goto/16", "20t", flow="goto")
_op(0x2A, "goto/32", "30t", flow="goto")
_op(0x2B, "packed-switch", "31t", flow="switch")
_op(0x2C, "sparse-switch", "31t", flow="switch")
for i, n in enumerate(["cmpl-float", "cmpg-float", "cmpl-double", "cmpg-double", "cmp-long"]):
    _op(0x2D + i, n, "23x")
for i, n in enumerate(["if-eq", "if-ne", "if-lt", "if-ge", "if-gt", "if-le"]):
    _op(0x32 + i, n, "22t", flow="if")
for i, n in enumerate(["if-eqz", "if-nez", "if-ltz", "if-gez", "if-gtz", "if-lez"]):
    _op(0x38 + i, n, "21t", flow="if")
_SUFF = ["", "-wide", "-object", "-boolean", "-byte", "-char", "-short"]
for i, s in enumerate(_SUFF):
    _op(0x44 + i, "aget" + s, "23x")
    _op(0x4B + i, "aput" + s, "23x")
    _op(0x52 + i, "iget" + s, "22c", "field")
    _op(0x59 + i, "iput" + s, "22c", "field")
    _op(0x60 + i, "sget" + s, "21c", "field")
    _op(0x67 + i, "sput" + s, "21c", "field")
for i, n in enumerate(["virtual", "super", "direct", "static", "interface"]):
    _op(0x6E + i, "invoke-" + n, "35c", "method")
    _op(0x74 + i, "invoke-" + n + "/range", "3rc", "method")
for i, n in enumerate(["neg-int", "not-int", "neg-long", "not-long", "neg-float", "neg-double",
                       "int-to-long", "int-to-float", "int-to-double", "long-to-int", "long-to-float",
                       "long-to-double", "float-to-int", "float-to-long", "float-to-double",
                       "double-to-int", "double-to-long", "double-to-float", "int-to-byte", "int-to-char",
                       "int-to-short"]):
    _op(0x7B + i, n, "12x")
_INT = ["add", "sub", "mul", "div", "rem", "and", "or", "xor", "shl", "shr", "ushr"]
_FLT = ["add", "sub", "mul", "div", "rem"]
_BINOPS = [b + "-int" for b in _INT] + [b + "-long" for b in _INT] + [b + "-float" for b in _FLT] + [b + "-double" for b in _FLT]
assert len(_BINOPS) == 32
for i, n in enumerate(_BINOPS):
    _op(0x90 + i, n, "23x")
    _op(0xB0 + i, n + "/2addr", "12x")
for i, n in enumerate(["add-int/lit16", "rsub-int", "mul-int/lit16", "div-int/lit16", "rem-int/lit16",
                       "and-int/lit16", "or-int/lit16", "xor-int/lit16"]):
    _op(0xD0 + i, n, "22s")
for i, n in enumerate(["add-int/lit8", "rsub-int/lit8", "mul-int/lit8", "div-int/lit8", "rem-int/lit8",
                       "and-int/lit8", "or-int/lit8", "xor-int/lit8", "shl-int/lit8", "shr-int/lit8", "ushr-int/lit8"]):
    _op(0xD8 + i, n, "22b")
_op(0xFA, "invoke-polymorphic", "45cc", "method+proto")
_op(0xFB, "invoke-polymorphic/range", "4rcc", "method+proto")
_op(0xFC, "invoke-custom", "35c", "call_site")
_op(0xFD, "invoke-custom/range", "3rc", "call_site")
_op(0xFE, "const-method-handle", "21c", "method_handle")
_op(0xFF, "const-method-type", "21c", "proto")

UNUSED = sorted(set(range(256)) - set(OPCODES))
assert UNUSED == list(range(0x3E, 0x44)) + [0x73, 0x79, 0x7A] + list(range(0xE3, 0xFA)), UNUSED
assert len(OPCODES) == 224 and len(UNUSED) == 32

# const/high16 (0x15) shifts by 16, const-wide/high16 (0x19) by 48
HIGH_SHIFT = {0x15: 16, 0x19: 48}

FLOW_OPS = {v for v, o in OPCODES.items() if o[3] != "next"}
INVOKE_OPS = {v for v, o in OPCODES.items() if o[0].startswith("invoke-") and o[2] == "method"}
FIELD_READ_OPS = {v for v, o in OPCODES.items() if o[2] == "field" and o[0][1:4] == "get"}
FIELD_WRITE_OPS = {v for v, o in OPCODES.items() if o[2] == "field" and o[0][1:4] == "put"}
CONST_STRING_OPS = {0x1A, 0x1B}
NEW_INSTANCE_OP = 0x22
CONST_CLASS_OP = 0x1C

# payload pseudo-instructions: ident -> (name, size formula description)
PAYLOADS = {
    0x0100: "packed-switch-payload",   # ident u16, size u16, first_key s32, targets s32[size]      -> (size*2)+4 units
    0x0200: "sparse-switch-payload",   # ident u16, size u16, keys s32[size], targets s32[size]      -> (size*4)+2 units
    0x0300: "fill-array-data-payload", # ident u16, element_width u16, size u32, data u8[size*width] -> (size*width+1)/2+4 units
}
