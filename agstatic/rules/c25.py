"""C25 -- merged short-circuit conditions route control as the original branches did.

The decompiler functions are walked by the checker's own model evaluator over small model
graphs (nothing of the repository is executed).  Conditional leaves are real CondBlock objects
holding a real ConditionalExpression `x OP y`; every leaf ranges over the three order types
x<y, x=y, x>y, so the truth value of a leaf -- and of its negation through CONDS -- is decided
by the printed comparison operator itself.  The *printed* condition text (Writer methods are
interpreted, output collected) is parsed by the checker and evaluated per order type.

 conds-table    CONDS has the six comparison operators, each mapped to its logical complement
                (decided on the three order types) and is an involution; the neg() methods of the
                conditional IR expressions replace op by CONDS[op].
 merge-routing  short_circuit_struct(graph, idom, node_map) is evaluated AS A WHOLE (with the real Graph, Condition,
                ShortCircuitBlock ...; generator functions such as Graph.post_order are evaluated eagerly) on every
                two-node configuration node/then/else over exit targets: when it merges, for every order type of both
                leaves the printed merged condition selects merged.true/false == the successor the original two branches
                select AND evaluates the same leaf conditions in the same order (Java short-circuit semantics);
                merged successors are live nodes; no merge when the second node has another entry.
 node-map       after the pass(es) every value of the caller's node_map is a live node and every merged-away node is mapped
                to the live block that holds its condition (two- and three-node chains, both merge orders).
 neg-contract   merged.neg() complements the printed condition on every order type (De Morgan through
                Condition.neg / CONDS), so neg()+swap of true/false preserves routing.
 chains-3       three-node chains (the third test optionally reachable from both others), merged by one whole pass
                (inner pair first) and by two passes with the third test kept unabsorbable during the first (outer pair
                first, so the merged node becomes a first operand): all 32 combinations of nesting position and
                and/or x negation at both levels arise; routing and evaluation order on all 27 order types, and the
                neg() contract on the nested condition.
 writer-pairing Writer.visit_cond_node (and the pre-test branch of visit_loop_node) is evaluated with a
                merged condition under every combination of follow / loop-follow / next-case /
                numbering: at the moment the condition is printed, `printed ? cond.true : cond.false`
                is still the original routing (neg() and the true/false swap always come together).
"""
from __future__ import annotations

import ast
import collections
import itertools
import re

from ..model import AnalysisError, walk_no_nested
from ..modeleval import (Interp, Env, Obj, PyModel, PyRaise, NotModelled, Sink, clone_func, _Builtin, _Continue, _Break, _Return)

CF = "androguard/decompiler/control_flow.py"
BB = "androguard/decompiler/basic_blocks.py"
WR = "androguard/decompiler/writer.py"
GR = "androguard/decompiler/graph.py"
INS = "androguard/decompiler/instruction.py"
OWN_MUTATION_ADEQUACY = True  # mutation_adequacy() below runs rule-specific breaking and benign edits
LENIENT = ("loguru.logger", "logger", "logging")

OPS = {"==": lambda x, y: x == y, "!=": lambda x, y: x != y, "<": lambda x, y: x < y,
       "<=": lambda x, y: x <= y, ">": lambda x, y: x > y, ">=": lambda x, y: x >= y}
STATES = {"lt": (0, 1), "eq": (1, 1), "gt": (2, 1)}


# --------------------------------------------------------------------------- native model pieces
class TypeModel(PyModel):
    """NodeType/LoopType: mutually exclusive boolean flags (MakeProperties metaclass)"""
    _names = ()

    def __init__(self):
        for n in self._names:
            object.__setattr__(self, n, False)

    def __setattr__(self, k, v):
        if k in self._names:
            for n in self._names:
                object.__setattr__(self, n, (n == k) and v)
        else:
            object.__setattr__(self, k, v)

    def copy(self):
        r = type(self)()
        for n in self._names:
            object.__setattr__(r, n, getattr(self, n))
        return r


class NodeTypeModel(TypeModel):
    _names = ("is_cond", "is_switch", "is_stmt", "is_return", "is_throw")


class LoopTypeModel(TypeModel):
    _names = ("is_pretest", "is_posttest", "is_endless")


class Var(PyModel):
    def __init__(self, name):
        self.v = name
        self.name = name

    def visit(self, visitor):
        visitor.attrs["_out"].append(self.name)

    def get_used_vars(self):
        return [self.v]


def _defaultdict(factory=None, *a):
    if isinstance(factory, _Builtin):
        factory = {"list": list, "dict": dict, "set": set, "int": int}[factory.name]
    elif factory is not None:
        raise NotModelled("defaultdict factory")
    return collections.defaultdict(factory, *a)


def _w_write(it, w, s, data=None):
    out = w.attrs["_out"]
    if isinstance(s, str) and ("if (" in s or "while (" in s or "while(" in s):
        snap = w.attrs.get("_watch")
        if snap is not None:
            w.attrs["_snaps"].append((len(out), snap.attrs.get("true"), snap.attrs.get("false")))
    out.append(s)


def _w_visit_node(it, w, node):
    w.attrs["_out"].append("<visit %s>" % (node.attrs.get("name") if isinstance(node, Obj) else node))


OVERRIDES = {
    ("NodeType", "__new__"): lambda it, cls, *a: NodeTypeModel(),
    ("LoopType", "__new__"): lambda it, cls, *a: LoopTypeModel(),
    ("Writer", "write"): _w_write,
    ("Writer", "write_ext"): lambda it, w, *a, **k: None,
    ("Writer", "space"): lambda it, w: "",
    ("Writer", "inc_ind"): lambda it, w, *a: None,
    ("Writer", "dec_ind"): lambda it, w, *a: None,
    ("Writer", "visit_node"): _w_visit_node,
}


# --------------------------------------------------------------------------- printed-condition evaluator
_TOK = re.compile(r"\s*(&&|\|\||==|!=|<=|>=|<|>|!|\(|\)|[A-Za-z_]\w*)")


def parse_cond(text):
    toks = []
    pos = 0
    text = text.strip()
    while pos < len(text):
        m = _TOK.match(text, pos)
        if not m:
            raise AnalysisError("printed condition %r is outside the checker's expression grammar" % text)
        toks.append(m.group(1))
        pos = m.end()
    i = [0]

    def peek():
        return toks[i[0]] if i[0] < len(toks) else None

    def eat(t=None):
        x = peek()
        if x is None or (t is not None and x != t):
            raise AnalysisError("printed condition %r does not parse (expected %r at token %d)" % (text, t, i[0]))
        i[0] += 1
        return x

    def p_or():
        l = p_and()
        while peek() == "||":
            eat()
            l = ("or", l, p_and())
        return l

    def p_and():
        l = p_un()
        while peek() == "&&":
            eat()
            l = ("and", l, p_un())
        return l

    def p_un():
        if peek() == "!":
            eat()
            return ("not", p_un())
        if peek() == "(":
            eat("(")
            e = p_or()
            eat(")")
            return e
        a = eat()
        if not re.match(r"[A-Za-z_]\w*$", a):
            raise AnalysisError("printed condition %r does not parse" % text)
        op = eat()
        if op not in OPS:
            raise AnalysisError("printed condition %r: %r is not a comparison operator" % (text, op))
        b = eat()
        return ("cmp", op, a, b)

    e = p_or()
    if peek() is not None:
        raise AnalysisError("printed condition %r has trailing tokens" % text)
    return e


def eval_cond(e, vals, trace=None):
    """Java semantics: left to right, && / || short-circuit.  `trace` collects the comparisons actually evaluated."""
    k = e[0]
    if k == "or":
        return eval_cond(e[1], vals, trace) or eval_cond(e[2], vals, trace)
    if k == "and":
        return eval_cond(e[1], vals, trace) and eval_cond(e[2], vals, trace)
    if k == "not":
        return not eval_cond(e[1], vals, trace)
    if trace is not None:
        trace.append(e[2][:-1])
    return OPS[e[1]](vals[e[2]], vals[e[3]])


def leaves_in(text):
    """leaf names in printing order (every leaf prints `<name>x OP <name>y`)"""
    out = []
    for x in re.findall(r"[A-Za-z_]\w*", text):
        if x[:-1] not in out:
            out.append(x[:-1])
    return out


# --------------------------------------------------------------------------- world
class World:
    def __init__(self, repo, sink=None):
        self.repo = repo
        self.it = Interp(repo, natives={"collections.defaultdict": _defaultdict}, lenient=LENIENT, method_overrides=OVERRIDES)
        it = self.it
        self.cf = repo.mod(CF)
        self.bb = repo.mod(BB)
        self.wr = repo.mod(WR)
        self.gr = repo.mod(GR)
        self.ins = repo.mod(INS)
        self.graph = it.instantiate(self.gr.cls("Graph"), [], {})
        self.leaf_op = {}      # leaf name -> original operator
        self.orig = {}         # leaf name -> (true node, false node)
        self.nodes = {}
        self.pass_error = None
        self.node_map = {}   # the caller's node_map / idom, kept across passes as the decompiler does
        self.idom = {}

    # -- construction through the real constructors
    def leaf(self, name, op):
        it = self.it
        ins = it.instantiate(self.ins.cls("ConditionalExpression"), [op, Var(name + "x"), Var(name + "y")], {})
        n = it.instantiate(self.bb.cls("CondBlock"), [name, [ins]], {})
        self.leaf_op[name] = op
        self.nodes[name] = n
        self._add(n)
        return n

    def stmt(self, name):
        n = self.it.instantiate(self.bb.cls("StatementBlock"), [name, []], {})
        self.nodes[name] = n
        self._add(n)
        return n

    def _add(self, n):
        self.it.call(self.it.getattr(self.graph, "add_node"), [n])

    def edge(self, a, b):
        self.it.call(self.it.getattr(self.graph, "add_edge"), [a, b])

    def wire(self, leafname, t, f):
        n = self.nodes[leafname]
        n.attrs["true"] = t
        n.attrs["false"] = f
        self.orig[leafname] = (t, f)
        self.edge(n, t)
        self.edge(n, f)

    def live(self):
        return list(self.graph.attrs["nodes"])

    # -- one evaluation of short_circuit_struct(graph, idom, node_map) as a whole
    def run_pass(self, anchors):
        """-> nodes of the graph that did not exist before the pass"""
        it = self.it
        before = self.live()
        for n in before:
            self.idom.setdefault(n, None)
        try:
            it.call(it.closure_of(anchors.scs), [self.graph, self.idom, self.node_map])
        except PyRaise as e:
            # a crash after a merge is judged on the merged node it left behind (e.g. a successor that was never set);
            # without such positive evidence it is an analysis error, not a verdict
            self.pass_error = e
        new = [n for n in self.live() if not any(n is b for b in before)]
        if self.pass_error is not None and not new:
            raise AnalysisError("short_circuit_struct raised %s on the model graph" % self.pass_error)
        return new

    def settle(self, ok):
        """after the merged nodes were checked: a crash of the pass that the checks did not explain is an analysis error"""
        if self.pass_error is not None and ok:
            raise AnalysisError("short_circuit_struct raised %s on the model graph" % self.pass_error)

    def merge_step(self, anchors, node=None):
        new = self.run_pass(anchors)
        if not new:
            return None
        if len(new) != 1:
            raise AnalysisError("one pass over a single chain left %d new nodes" % len(new))
        return new[0]

    # -- printing
    def writer(self, watch=None):
        w = Obj(self.wr.cls("Writer"))
        w.attrs.update(_out=[], _snaps=[], _watch=watch, loop_follow=[None], if_follow=[None], switch_follow=[None],
                       latch_node=[None], try_follow=[None], next_case=None, visited_nodes=set(), skip=False, need_break=True)
        return w

    def printed(self, cond_node):
        w = self.writer()
        try:
            self.it.call(self.it.getattr(cond_node, "visit_cond"), [w])
        except PyRaise as e:
            raise AnalysisError("printing the condition raised %s in the model" % e)
        return "".join(w.attrs["_out"])

    def leaf_count(self, cond_node):
        """number of conditional leaves inside a (merged) node: one conditional instruction each (non-mutating)"""
        try:
            return len(self.it.iterate(self.it.call(self.it.getattr(cond_node, "get_ins"), [])))
        except PyRaise as e:
            raise AnalysisError("get_ins() of a merged node raised %s in the model" % e)

    # -- original routing
    def leaves_of(self, names):
        return list(names)

    def values(self, state):
        vals = {}
        for name, st in state.items():
            x, y = STATES[st]
            vals[name + "x"] = x
            vals[name + "y"] = y
        return vals

    def route(self, start, state, chain, trace=None):
        """follow the ORIGINAL true/false attributes through the leaves of `chain`"""
        n = start
        for _ in range(len(chain) + 1):
            name = next((k for k in chain if self.nodes[k] is n), None)
            if name is None:
                return n
            if trace is not None:
                trace.append(name)
            x, y = STATES[state[name]]
            t, f = self.orig[name]
            n = t if OPS[self.leaf_op[name]](x, y) else f
        return n

    def head_of(self, chain):
        """the leaf of `chain` that no other leaf of the chain leads to"""
        heads = [k for k in chain if not any(self.nodes[k] is x for j in chain if j != k for x in self.orig[j])]
        if len(heads) != 1:
            raise AnalysisError("merged leaves %s do not form a chain with one head" % (chain,))
        return heads[0]


class Anchors:
    def __init__(self, sink, repo):
        cf = sink.mod(CF)
        for rel in (BB, WR, GR, INS):
            sink.mod(rel)
        self.scs = cf.func("short_circuit_struct")
        sink.analysed(self.scs)
        sink.require(len(self.scs.params()) == 3, "short_circuit_struct no longer takes (graph, idom, node_map)")
        for q, rel in (("Writer.visit_short_circuit_condition", WR), ("Writer.visit_cond_node", WR)):
            sink.analysed(repo.mod(rel).func(q))
        for cname in ("Condition", "ShortCircuitBlock", "CondBlock"):
            repo.mod(BB).cls(cname)


# --------------------------------------------------------------------------- CONDS
def check_conds(sink, repo):
    m = sink.mod(INS)
    it = Interp(repo, lenient=LENIENT)
    table = it.global_lookup(m, "CONDS")
    sink.require(isinstance(table, dict), "CONDS is no longer a dict constant")
    pseudo = _Pseudo("CONDS", m, m.assigns["CONDS"].lineno)
    for op in OPS:
        sink.count("conds_rows")
        got = table.get(op)
        ok = got in OPS and all(OPS[got](*STATES[s]) != OPS[op](*STATES[s]) for s in STATES)
        sink.check("conds-table", "CONDS[%r]" % op, ok, pseudo, "CONDS[%r] = %r" % (op, got),
                   "CONDS[%r] is %r, which is not the logical complement of %r on x<y / x=y / x>y" % (op, got, op),
                   detail="CONDS[%r] = %r is the complement on all three order types" % (op, got))
        sink.check("conds-table", "involution %r" % op, table.get(table.get(op)) == op, pseudo, "CONDS[CONDS[%r]] = %r" % (op, table.get(table.get(op))),
                   "CONDS is not an involution at %r" % op)
    extra = [k for k in table if k not in OPS]
    sink.check("conds-table", "no foreign rows", not extra, pseudo, "CONDS rows %s" % sorted(map(str, extra)), "CONDS has rows for non-comparison operators: %s" % extra)
    # neg() of the conditional IR expressions goes through CONDS
    n = 0
    for cname, cls in sorted(m.classes.items()):
        if "neg" in cls.methods and any(c.name == "IRForm" for c in cls.mro()):
            f = cls.methods["neg"]
            sink.analysed(f)
            for op in OPS:
                o = Obj(cls, op=op)
                try:
                    it.call(it.getattr(o, "neg"), [])
                    got = o.attrs.get("op")
                except PyRaise as e:
                    got = "raises %s" % e.name
                n += 1
                ok = got in OPS and all(OPS[got](*STATES[s]) != OPS[op](*STATES[s]) for s in STATES)
                sink.check("conds-table", "%s.neg() on %r" % (cname, op), ok, f, "%s.neg(): %r -> %r" % (cname, op, got),
                           "%s.neg() turns operator %r into %r, not its complement" % (cname, op, got), node=f.node,
                           detail="%r -> %r" % (op, got))
    sink.count("neg_methods", n // 6)


class _Pseudo:
    def __init__(self, qualname, m, line):
        self.qualname, self.file, self.line = qualname, m.relpath, line


# --------------------------------------------------------------------------- two-node configurations
def _config2(repo, anchors, cfg, ops):
    """build P -> N, N/T wired per cfg; return world"""
    w = World(repo)
    P = w.stmt("P")
    N = w.leaf("N", ops[0])
    T = w.leaf("T", ops[1])
    E = {k: w.stmt(k) for k in ("E1", "E2", "E3")}
    pick = dict(E, N=N, T=T)
    w.graph.attrs["entry"] = P
    w.edge(P, N)
    w.wire("N", pick[cfg[0]], pick[cfg[1]])
    w.wire("T", pick[cfg[2]], pick[cfg[3]])
    if cfg[4]:
        Q = w.stmt("Q")
        w.edge(P, Q)
        w.edge(Q, T)
    return w


def _configs2():
    i = 0
    for nt, nf in itertools.product(("T", "E1", "E2"), repeat=2):
        for tt, tf in itertools.product(("E1", "E2", "E3", "N"), repeat=2):
            for extra in (False, True):
                if extra and "T" not in (nt, nf):
                    continue  # a further predecessor of a node that is not part of the chain changes nothing
                yield i, (nt, nf, tt, tf, extra)
                i += 1


_OPL = list(OPS)


def _name(n):
    return n.attrs.get("name") if isinstance(n, Obj) else repr(n)


def _check_merged(sink, w, M, chain, inst, func, rule, describe):
    """printed condition of M routes like the original chain (same successor, same conditions evaluated in the same
    order); `chain` = leaves expected inside M, or None to take them from the printed text.  returns (ok, text)"""
    live = w.live()
    for side in ("true", "false"):
        tgt = M.attrs.get(side)
        ok = isinstance(tgt, Obj) and any(tgt is n for n in live)
        sink.check(rule, inst + " %s successor live" % side, ok, func, "%s: merged.%s = %s" % (describe, side, _name(tgt)),
                   "after the merge (%s) merged.%s is %s, which is not a node of the graph" % (describe, side, _name(tgt)))
        if not ok:
            return False, ""
    text = w.printed(M)
    expr = parse_cond(text)
    printed_leaves = leaves_in(text)
    if chain is None:
        chain = printed_leaves
    unknown = [k for k in printed_leaves if k not in w.orig]
    if unknown or sorted(printed_leaves) != sorted(chain):
        sink.check(rule, inst + " operands", False, func, "%s: printed `%s` combines %s, merged nodes are %s" % (describe, text, printed_leaves, list(chain)),
                   "merge %s prints `%s`, whose operands %s are not the merged conditions %s" % (describe, text, printed_leaves, list(chain)))
        return False, text
    head = w.nodes[w.head_of(chain)]
    bad = None
    for combo in itertools.product(STATES, repeat=len(chain)):
        state = dict(zip(chain, combo))
        otrace, ptrace = [], []
        want = w.route(head, state, chain, otrace)
        got = M.attrs["true"] if eval_cond(expr, w.values(state), ptrace) else M.attrs["false"]
        if got is not want:
            bad = (state, "goes to %s" % _name(got), "go to %s" % _name(want))
            break
        if otrace != ptrace:
            bad = (state, "evaluates %s" % ptrace, "evaluate %s" % otrace)
            break
    sink.check(rule, inst, bad is None, func,
               "%s: printed `%s` %s, original branches %s" % ((describe, _abstract(text, w)) + ((bad[1], bad[2]) if bad else ("-", "-"))),
               "merge %s prints `%s` with true->%s false->%s; for %s the printed condition %s but the original branches %s"
               % (describe, text, _name(M.attrs["true"]), _name(M.attrs["false"]), bad[0] if bad else "", bad[1] if bad else "", bad[2] if bad else ""),
               witness=dict(printed=text, state=bad[0]) if bad else None,
               detail="%s: `%s` ? %s : %s selects the original successor and evaluates the same conditions in the same order on all %d order types" % (
                   describe, text, _name(M.attrs["true"]), _name(M.attrs["false"]), 3 ** len(chain)))
    return bad is None, text


def _check_node_map(sink, w, inst, func, describe):
    """after the pass(es): every value of node_map is a node of the graph, and every original node that was merged away is
    mapped to the live node that now contains its condition"""
    live = w.live()
    bad = None
    for k, v in w.node_map.items():
        if not any(v is n for n in live):
            bad = "node_map[%s] = %s, which is no longer a node of the graph" % (_name(k), _name(v))
            break
    if bad is None:
        for name in w.orig:
            leaf = w.nodes[name]
            if any(leaf is n for n in live):
                continue
            tgt = w.node_map.get(leaf)
            ins = list(w.it.iterate(w.it.call(w.it.getattr(leaf, "get_ins"), [])))
            inside = isinstance(tgt, Obj) and any(tgt is n for n in live) and all(
                any(i is j for j in w.it.iterate(w.it.call(w.it.getattr(tgt, "get_ins"), []))) for i in ins)
            if not inside:
                bad = "%s was merged away but node_map maps it to %s, not to the live block holding its condition" % (name, _name(tgt))
                break
    sink.count("node_map_checks")
    sink.check("node-map", inst, bad is None, func, bad or "node_map consistent",
               "after merging %s: %s (later passes resolve follow / latch / loop nodes through node_map)" % (describe, bad),
               detail="every node_map value is live; merged-away nodes map to the block that holds them")


def _abstract(text, w):
    """operator-independent rendering of a printed condition (stable construct key)"""
    return re.sub(r"\s+", " ", text)


def _shape(cfg):
    nt, nf, tt, tf, extra = cfg
    return "node(true=%s,false=%s) other(true=%s,false=%s)%s" % (nt, nf, tt, tf, " +pred" if extra else "")


def check_two_nodes(sink, repo, anchors):
    f = anchors.scs
    merged_shapes = set()
    for i, cfg in _configs2():
        ops = (_OPL[i % 6], _OPL[(i // 6 + 2) % 6])
        w = _config2(repo, anchors, cfg, ops)
        M = w.merge_step(anchors, w.nodes["N"])
        sink.count("configs2")
        if M is None:
            sink.ob("merge-routing", "config %s: no merge" % _shape(cfg), True, "")
            continue
        sink.count("merges2")
        cond = M.attrs.get("cond")
        shape = _shape(cfg)
        merged_shapes.add((cfg[0] == "T", cfg[2] if cfg[0] == "T" else cfg[3]))
        ok, text = _check_merged(sink, w, M, ["N", "T"], "config %s ops %s" % (shape, ops), f, "merge-routing", shape)
        w.settle(ok)
        if not ok:
            continue
        _check_node_map(sink, w, "config %s" % shape, f, shape)
        if cfg[4]:
            # the second node had another predecessor: control entering there never evaluated the first condition
            expr = parse_cond(text)
            bad = None
            for combo in itertools.product(STATES, repeat=2):
                state = dict(zip(("N", "T"), combo))
                want = w.route(w.nodes["T"], state, ["T"])
                got = M.attrs["true"] if eval_cond(expr, w.values(state)) else M.attrs["false"]
                if got is not want:
                    bad = (state, _name(got), _name(want))
                    break
            sink.check("merge-routing", "config %s second entry" % shape, bad is None, f,
                       "%s: merged although the second node has another predecessor" % shape,
                       "the second conditional node of %s has a predecessor outside the chain, yet the nodes are merged: control entering "
                       "there now evaluates `%s` and for %s reaches %s instead of %s" % (shape, text, bad[0] if bad else "", bad[1] if bad else "", bad[2] if bad else ""))
        # neg contract on a fresh, identical merge
        w2 = _config2(repo, anchors, cfg, ops)
        M2 = w2.merge_step(anchors, w2.nodes["N"])
        try:
            w2.it.call(w2.it.getattr(M2, "neg"), [])
        except PyRaise as e:
            raise AnalysisError("merged.neg() raised %s in the model" % e)
        t2 = w2.printed(M2)
        e1, e2 = parse_cond(text), parse_cond(t2)
        bad = None
        for combo in itertools.product(STATES, repeat=2):
            state = dict(zip(("N", "T"), combo))
            if eval_cond(e1, w.values(state)) == eval_cond(e2, w2.values(state)):
                bad = state
                break
        sink.count("neg_cases")
        sink.check("neg-contract", "config %s ops %s" % (shape, ops), bad is None, repo.mod(BB).func("Condition.neg"),
                   "%s: `%s` after neg() prints `%s`" % (shape, text, t2),
                   "neg() of the merged condition `%s` prints `%s`, which is not its complement for %s" % (text, t2, bad),
                   detail="`%s` -neg-> `%s` is the complement on all 9 order types" % (text, t2))
    return merged_shapes


# --------------------------------------------------------------------------- three-node chains
def _configs3(full):
    exits2 = ("E1", "E2")
    def slots(child, exits):
        return [(child, e) for e in exits] + [(e, child) for e in exits]
    # the head's other successor may be the third test as well (the third test reachable from both of the
    # first two: shapes like !(x && y) && z, where the inner merged node becomes a negated first operand)
    O_opts = slots("N", exits2 + ("T",))
    N_opts = slots("T", ("E1", "E2", "E3") if full else exits2)
    T_opts = list(itertools.permutations(("E1", "E2", "E3"), 2)) if full else [("E1", "E2"), ("E2", "E1")]
    i = 0
    for o in O_opts:
        for n in N_opts:
            for t in T_opts:
                for order in ("inner-first", "outer-first"):
                    yield i, (o, n, t, order)
                    i += 1


def _build3(repo, anchors, o, n, t, order, ops):
    """-> (world, merged nodes alive after the pass(es))"""
    w = World(repo)
    P = w.stmt("P")
    O = w.leaf("O", ops[0])
    N = w.leaf("N", ops[1])
    T = w.leaf("T", ops[2])
    E = {k: w.stmt(k) for k in ("E1", "E2", "E3")}
    pick = dict(E, N=N, T=T, O=O)
    w.graph.attrs["entry"] = P
    w.edge(P, O)
    w.wire("O", pick[o[0]], pick[o[1]])
    w.wire("N", pick[n[0]], pick[n[1]])
    w.wire("T", pick[t[0]], pick[t[1]])
    if order == "outer-first":
        # keep the third test unabsorbable during a first pass (a further predecessor), so that the first two are merged
        # first and the merged node becomes the FIRST operand of the second merge; then drop that predecessor
        Q = w.stmt("Q")
        w.edge(P, Q)
        w.edge(Q, T)
        w.run_pass(anchors)
        w.it.call(w.it.getattr(w.graph, "remove_node"), [Q])
    w.run_pass(anchors)
    originals = list(w.nodes.values())
    merged = [x for x in w.live() if not any(x is y for y in originals)]
    return w, merged


def check_three_nodes(sink, repo, anchors, full):
    f = anchors.scs
    shapes, negged = set(), set()
    for i, (o, n, t, order) in _configs3(full):
        ops = (_OPL[i % 6], _OPL[(i // 6 + 1) % 6], _OPL[(i // 36 + 3) % 6])
        sink.count("configs3")
        w, merged = _build3(repo, anchors, o, n, t, order, ops)
        desc = "O(true=%s,false=%s) N(true=%s,false=%s) T(true=%s,false=%s) %s" % (o + n + t + (order,))
        second = None
        ok, text = True, ""
        for M in merged:
            ok_m, text_m = _check_merged(sink, w, M, None, "chain %s ops %s node %s" % (desc, ops, _name(M)), f, "chains-3", desc)
            if len(leaves_in(text_m)) == 3:
                second, ok, text = M, ok_m, text_m
            elif not ok_m:
                ok = False
        w.settle(ok)
        if merged and ok:
            _check_node_map(sink, w, "chain %s" % desc, f, desc)
        if second is None:
            continue
        sink.count("merges3")
        skeleton = (re.sub(r"[A-Za-z_]\w*\s*(==|!=|<=|>=|<|>)\s*[A-Za-z_]\w*", "c", text), order)
        shapes.add(skeleton)
        if not ok or (not full and skeleton in negged):
            continue
        negged.add(skeleton)
        # neg contract of the nested condition, on a fresh identical double merge
        w2, merged2 = _build3(repo, anchors, o, n, t, order, ops)
        second2 = next((x for x in merged2 if w2.leaf_count(x) == 3), None)
        if second2 is None:
            raise AnalysisError("the same chain configuration merged differently on a second construction")
        try:
            w2.it.call(w2.it.getattr(second2, "neg"), [])
        except PyRaise as e:
            raise AnalysisError("neg() of a nested merged condition raised %s in the model" % e)
        t2 = w2.printed(second2)
        e1, e2 = parse_cond(text), parse_cond(t2)
        bad = None
        for combo in itertools.product(STATES, repeat=3):
            state = dict(zip(("O", "N", "T"), combo))
            if eval_cond(e1, w.values(state)) == eval_cond(e2, w2.values(state)):
                bad = state
                break
        sink.count("neg_cases3")
        sink.check("neg-contract", "chain %s ops %s" % (desc, ops), bad is None, repo.mod(BB).func("Condition.neg"),
                   "%s: `%s` after neg() prints `%s`" % (desc, text, t2),
                   "neg() of the nested merged condition `%s` prints `%s`, which (read with Java precedence) is not its complement for %s" % (text, t2, bad),
                   detail="`%s` -neg-> `%s` is the complement on all 27 order types" % (text, t2))
    sink.count("chain_shapes", len(shapes))


# --------------------------------------------------------------------------- writer pairing
def _canonical_merges(repo, anchors):
    """one configuration per merge site: (cfg, label)"""
    return [(("T", "E1", "E2", "E1", False), "node && then"), (("T", "E1", "E1", "E2", False), "!node || then"),
            (("E1", "T", "E2", "E1", False), "!node && else"), (("E1", "T", "E1", "E2", False), "node || else")]


_WRITER_QUICK_ALT = {("none", "none"), ("none", "join"), ("true", "true"), ("true", "false"), ("false", "none"), ("false", "join")}


def check_writer(sink, repo, anchors, full=True):
    wr = repo.mod(WR)
    vcn = wr.func("Writer.visit_cond_node")
    vln = wr.func("Writer.visit_loop_node")
    sink.analysed(vln)
    k = 0
    for cfg, label in _canonical_merges(repo, anchors):
        for lf, fo, nc, numgt in itertools.product(("none", "true", "false"), ("none", "true", "false", "join"), ("none", "true"), (False, True)):
            if not full and ((nc == "true") != numgt or (nc == "true") != (((lf, fo) in _WRITER_QUICK_ALT))):
                continue  # quick tier: the follow x loop-follow product, each with one of two (next_case, numbering) combinations
            k += 1
            ops = (_OPL[k % 6], _OPL[(k // 6) % 6])
            w = _config2(repo, anchors, cfg, ops)
            M = w.merge_step(anchors, w.nodes["N"])
            if M is None:
                raise AnalysisError("canonical configuration %s (%s) is no longer merged" % (cfg, label))
            J = w.stmt("J")
            t0, f0 = M.attrs["true"], M.attrs["false"]
            sel = {"none": None, "true": t0, "false": f0, "join": J}
            wobj = w.writer(watch=M)
            wobj.attrs["loop_follow"] = [None, sel[lf]] if lf != "none" else [None]
            wobj.attrs["next_case"] = sel[nc]
            M.attrs["follow"] = dict(M.attrs.get("follow") or {}, **{"if": sel[fo]})
            M.attrs["num"] = 5
            t0.attrs["num"] = 3 if numgt else 7
            f0.attrs["num"] = 9
            try:
                w.it.call(w.it.getattr(wobj, "visit_cond_node"), [M])
            except PyRaise as e:
                raise AnalysisError("Writer.visit_cond_node raised %s in the model" % e)
            sink.count("writer_cases")
            _check_snaps(sink, w, wobj, M, vcn, "visit_cond_node %s loop_follow=%s follow=%s next_case=%s num>%s" % (label, lf, fo, nc, numgt),
                         "merged `%s`, loop_follow=%s, follow=%s, next_case=%s, cond.num %s cond.true.num" % (label, lf, fo, nc, ">" if numgt else "<"))
        # pre-test loop header wrapping the merged condition
        for follow_side in ("true", "false"):
            k += 1
            ops = (_OPL[k % 6], _OPL[(k // 6) % 6])
            w = _config2(repo, anchors, cfg, ops)
            M = w.merge_step(anchors, w.nodes["N"])
            it = w.it
            L = it.instantiate(w.bb.cls("LoopBlock"), ["L", M], {})
            L.attrs["true"], L.attrs["false"] = M.attrs["true"], M.attrs["false"]
            L.attrs["looptype"].is_pretest = True
            L.attrs["follow"] = dict(L.attrs["follow"], loop=L.attrs[follow_side])
            wobj = w.writer(watch=L)
            try:
                it.call(it.getattr(wobj, "visit_loop_node"), [L])
            except PyRaise as e:
                raise AnalysisError("Writer.visit_loop_node raised %s in the model" % e)
            sink.count("writer_cases")
            _check_snaps(sink, w, wobj, M, vln, "visit_loop_node pretest %s follow=%s" % (label, follow_side),
                         "pre-test loop on merged `%s`, loop follow = cond.%s" % (label, follow_side))


def _check_snaps(sink, w, wobj, M, func, inst, describe):
    out = wobj.attrs["_out"]
    snaps = wobj.attrs["_snaps"]
    sink.require(len(snaps) >= 1, "%s: no condition was printed in the model (%s)" % (func.qualname, inst))
    for pos, st, sf in snaps:
        # condition text: from the snapshot position to the closing ') {'
        end = next((j for j in range(pos + 1, len(out)) if isinstance(out[j], str) and out[j].startswith(")") and ("{" in out[j] or ";" in out[j])), None)
        sink.require(end is not None, "%s: cannot delimit the printed condition (%s)" % (func.qualname, inst))
        text = "".join(out[pos + 1:end])
        expr = parse_cond(text)
        bad = None
        for combo in itertools.product(STATES, repeat=2):
            state = dict(zip(("N", "T"), combo))
            want = w.route(w.nodes["N"], state, ["N", "T"])
            got = st if eval_cond(expr, w.values(state)) else sf
            if got is not want:
                bad = (state, _name(got), _name(want))
                break
        sink.check("writer-pairing", inst, bad is None, func,
                   "%s: printed condition selects %s, original branches %s" % ((describe,) + ((bad[1], bad[2]) if bad else ("-", "-"))),
                   "%s prints `%s` while cond.true=%s cond.false=%s; for %s that selects %s but the original branches go to %s "
                   "(neg() and the true/false swap are not paired)" % (func.qualname, text, _name(st), _name(sf), bad[0] if bad else "",
                                                                       bad[1] if bad else "", bad[2] if bad else ""),
                   detail="`%s` ? %s : %s equals the original routing" % (text, _name(st), _name(sf)))


# --------------------------------------------------------------------------- driver
def core(sink, repo, full=False):
    anchors = Anchors(sink, repo)
    check_conds(sink, repo)
    before = len(sink.findings)
    shapes = check_two_nodes(sink, repo, anchors)
    sink.count("merge_shapes", len(shapes))
    if len(sink.findings) > before:
        # the chain and writer checks are built from merged nodes: with a broken two-node merge they would only
        # repeat (or crash on) the same defect
        sink.count("dependent_skipped")
        sink.note("chains-3 and writer-pairing skipped: the two-node merge itself is reported as broken")
        return
    check_three_nodes(sink, repo, anchors, full)
    check_writer(sink, repo, anchors, full)


def _mutants(repo):
    cf, bb, wr, ins = repo.mod(CF), repo.mod(BB), repo.mod(WR), repo.mod(INS)
    scs = cf.func("short_circuit_struct")
    cneg = bb.func("Condition.neg")
    vsc = wr.func("Writer.visit_short_circuit_condition")
    vcn = wr.func("Writer.visit_cond_node")
    out = []

    def flip_const_arg(site, argi):
        def t(node):
            k = 0
            for n in ast.walk(node):
                if isinstance(n, ast.Call) and isinstance(n.func, ast.Name) and n.func.id == "MergeNodes":
                    if k == site:
                        n.args[argi] = ast.Constant(not n.args[argi].value)
                        return True
                    k += 1
            return False
        return t
    for site in range(4):
        out.append(("merge site %d: is_and flipped" % site, scs, flip_const_arg(site, 2), True))
        out.append(("merge site %d: is_not flipped" % site, scs, flip_const_arg(site, 3), True))

    def swap_true_false(node):
        for n in ast.walk(node):
            if isinstance(n, ast.Assign) and isinstance(n.targets[0], ast.Attribute) and n.targets[0].attr == "true" \
                    and isinstance(n.targets[0].value, ast.Name) and n.targets[0].value.id == "merged_node":
                n.targets[0].attr = "false"
                return True
        return False
    out.append(("merge site 0: merged.true assigned to .false", scs, swap_true_false, True))

    def swap_condition_args(node):
        for n in ast.walk(node):
            if isinstance(n, ast.Call) and isinstance(n.func, ast.Name) and n.func.id == "Condition" and len(n.args) >= 2:
                n.args[0], n.args[1] = n.args[1], n.args[0]
                return True
        return False
    out.append(("MergeNodes: Condition(node2, node1, ...)", scs, swap_condition_args, True))

    def neg_keeps_op(node):
        for i, s in enumerate(node.body):
            if isinstance(s, ast.Assign) and isinstance(s.value, ast.UnaryOp):
                del node.body[i]
                return True
        return False
    out.append(("Condition.neg: isand not flipped", cneg, neg_keeps_op, True))

    def neg_one_side(node):
        for i, s in enumerate(node.body):
            if isinstance(s, ast.Expr) and isinstance(s.value, ast.Call) and "cond2" in ast.unparse(s):
                del node.body[i]
                return True
        return False
    out.append(("Condition.neg: cond2 not negated", cneg, neg_one_side, True))

    def ops_swapped(node):
        for n in ast.walk(node):
            if isinstance(n, ast.List) and len(n.elts) == 2 and all(isinstance(e, ast.Constant) for e in n.elts):
                n.elts.reverse()
                return True
        return False
    out.append(("visit_short_circuit_condition: '||'/'&&' swapped", vsc, ops_swapped, True))

    def nnot_cond2(node):
        for n in ast.walk(node):
            if isinstance(n, ast.If) and isinstance(n.test, ast.Name):
                for c in ast.walk(n):
                    if isinstance(c, ast.Name) and c.id == "cond1":
                        c.id = "cond2"
                        return True
        return False
    out.append(("visit_short_circuit_condition: negates cond2 instead of cond1", vsc, nnot_cond2, True))

    def drop_swap(node):
        for n in ast.walk(node):
            if isinstance(n, ast.If):
                for i, s in enumerate(n.body):
                    if isinstance(s, ast.Assign) and isinstance(s.targets[0], ast.Tuple) and "true" in ast.unparse(s) and "false" in ast.unparse(s):
                        del n.body[i]
                        return True
        return False
    out.append(("visit_cond_node: neg() without the true/false swap", vcn, drop_swap, True))

    # benign
    def rename(old_new):
        def t(node):
            ch = False
            for n in ast.walk(node):
                if isinstance(n, ast.Name) and n.id in old_new:
                    n.id = old_new[n.id]
                    ch = True
                if isinstance(n, ast.arg) and n.arg in old_new:
                    n.arg = old_new[n.arg]
                    ch = True
            return ch
        return t
    out.append(("short_circuit_struct: locals renamed", scs, rename({"then": "yes", "els": "no", "merged_node": "joined"}), False))
    out.append(("visit_short_circuit_condition: parameters renamed", vsc, rename({"nnot": "negate_first", "aand": "conj"}), False))
    return out


def mutation_adequacy(ctx, repo):
    base = Sink(ctx)
    core(base, repo)
    base_set = sorted(base.findings)
    killed = total = bsilent = btotal = 0
    for name, func, tr, breaking in _mutants(repo):
        orig = func.node
        mut = clone_func(orig)
        if not tr(mut):
            raise AnalysisError("mutation %r no longer applies (rule lost its anchor)" % name)
        ast.fix_missing_locations(mut)
        func.node = mut
        try:
            s = Sink(ctx)
            try:
                core(s, repo)
                res = sorted(s.findings)
            except AnalysisError as e:
                res = "analysis-error: %s" % e
        finally:
            func.node = orig
        if breaking:
            total += 1
            if not isinstance(res, str) and res != base_set:
                killed += 1
                new = [x for x in res if x not in base_set]
                ctx.ob("mutation", name, True, "mutant reported: %s" % (new[0][2] if new else "finding set changed"))
            else:
                raise AnalysisError("rule lost its teeth: breaking mutant survived: %s (%s)" % (name, res if isinstance(res, str) else "same findings"))
        else:
            btotal += 1
            if res == base_set:
                bsilent += 1
                ctx.ob("mutation", name, True, "benign edit: findings unchanged")
            else:
                raise AnalysisError("benign edit changed the verdict: %s -> %s" % (name, res if isinstance(res, str) else [x for x in res if x not in base_set][:3]))
    ctx.extra.update(mutants_killed=killed, mutants_total=total, benign_silent=bsilent, benign_total=btotal)


def run(ctx):
    ctx.explanation = __doc__
    full = ctx.tier == "thorough"
    try:
        core(ctx, ctx.repo, full)
    except PyRaise as e:
        raise AnalysisError("model evaluation raised %s outside a decided clause" % e)
    ctx.floor("conds_rows", 6)
    ctx.floor("neg_methods", 2)
    ctx.floor("merge_shapes", 4)
    ctx.floor("node_map_checks", 100)
    ctx.floor("configs2", 224)
    ctx.floor("merges2", 8)
    if not ctx.counts.get("dependent_skipped"):
        ctx.floor("merges3", 128 if full else 96)
        ctx.floor("chain_shapes", 8)
        ctx.floor("writer_cases", 200 if full else 56)
    ctx.assume("leaf conditions are side-effect free, so equality of the selected successor for every outcome combination is routing equivalence")
    ctx.assume("back edges into the chain (a conditional node that is its own successor) are outside the quantifier (exit targets only)")
    ctx.note("noted, not a verdict: Writer.visit_short_circuit_condition negates cond1 in place when nnot is set, so printing the same "
             "merged condition twice prints two different conditions; every check prints a freshly merged condition once")
    ctx.note("generator functions (Graph.post_order) are evaluated eagerly: the sweep sees the node list of the graph as it was when the sweep began; "
             "dast.py (the AST back end) applies its own negations and is not covered")
    if full:
        mutation_adequacy(ctx, ctx.repo)
