"""C24 (necessary conditions) -- type descriptors are rendered as the right Java type names.

The two renderers androguard/decompiler/util.py:get_type and
androguard/core/dex/__init__.py:get_type are interpreted *abstractly* on symbolic
descriptor templates (agstatic/sstr.py): the nine primitive letters, `L<Name>;`,
`L<pkg>/<Name>;`, `Ljava/lang/<Name>;` (direct member), `Ljava/lang/<sub>/<Name>;`
(sub-package), the look-alikes `Ljava/language/<Name>;`, `Ljavax/<sub>/<Name>;`,
`Ljava/lang;`, `L<pkg>/java/lang/<Name>;`, and one- and two-dimensional arrays of
them, where <Name>, <pkg>, <sub> are identifiers of unknown text.  Each template
stands for an infinite class of descriptors.  Decided per class:
(1) strip-charset misuse with grammar: a strip/lstrip/rstrip call with a
    multi-character literal must be a no-op or a plain prefix removal on every class
    (the call is flagged when its character set consumes characters beyond the
    literal or meets the first-character alphabet of the name that follows);
(2) prefix guard at a package boundary: the `java.lang.` prefix is only removed for
    direct members (evaluated with the strip call given prefix semantics, so that the
    guard is judged on its own);
(3) TYPE_DESCRIPTOR (both copies) equals the nine primitives of the DEX format;
(4) arrays: exactly one `[]` per dimension around the rendered element type;
(5) `L...;` loses exactly its first and last character and `/` becomes `.`.
Not decided: equality of input and output for every concrete descriptor (that would
be running the function); descriptors outside the DEX TypeDescriptor grammar.
"""
from __future__ import annotations

import ast
import copy

from ..consts import Folder, Unknown
from ..model import DEX, DEX_TYPES, AnalysisError, Module, Repo, norm
from ..sstr import Atom, Garbled, SStr, StringEval, Sym, Raised, IDENT_CHARS, NeedConcrete

UTIL = "androguard/decompiler/util.py"

# DEX format, "TypeDescriptor semantics" / shorty letters (dex-format document)
PRIMITIVES = {"V": "void", "Z": "boolean", "B": "byte", "S": "short", "C": "char",
              "I": "int", "J": "long", "F": "float", "D": "double"}

NAME, PKG, SUB = Atom("Name"), Atom("pkg"), Atom("sub")


# DEX format, "SimpleName": SimpleNameChar = A-Z | a-z | 0-9 | '$' | '-' | '_' | U+00a1..U+1fff | U+2010..U+2027 | U+2030..U+d7ff | ...
# One representative name per cell of that alphabet (used when an operation -- a regular expression -- has no abstract
# meaning on a name of unknown text: it is then decided on these members of the class).
NAME_PROBES = {
    "Name": ["Foo", "Outer$Inner", "-$$Lambda$Main$x1A", "Iface$-CC", "snake_case9", "\u00dcn\u00efcode", "\u03c0"],
    "pkg": ["com", "my-pkg", "x_1", "\u00e9t\u00e9"],
    "sub": ["util", "a-b", "v2$x"],
}


def probe_instantiations(parts_list):
    """name assignments for the atoms occurring in the given templates: every representative of every atom once, the other
    atoms at their first representative"""
    atoms = []
    for sx in parts_list:
        for p in sx.parts:
            if isinstance(p, Atom) and p.name not in atoms:
                atoms.append(p.name)
    if not atoms:
        return [{}]
    base = {a: NAME_PROBES[a][0] for a in atoms}
    out = [dict(base)]
    for a in atoms:
        for alt in NAME_PROBES[a][1:]:
            d = dict(base)
            d[a] = alt
            out.append(d)
    return out


def concretized(sx, names):
    return SStr([sx.concretize(names)])


class Tmpl:
    def __init__(self, label, desc, accept, example, clause):
        self.label = label
        self.desc = SStr(desc)
        self.accept = [SStr(a) for a in accept]
        self.example = example          # atom name -> text of a concrete member
        self.clause = clause
        self.dims = 0

    def witness(self, names=None):
        n = dict(self.example)
        n.update(names or {})
        return self.desc.concretize(n), [a.concretize(n) for a in self.accept]


def class_templates():
    ex = {"Name": "Foo", "pkg": "com", "sub": "util"}
    return [
        Tmpl("class in the default package", ["L", NAME, ";"], [[NAME]], ex, "L...; -> [1:-1]"),
        Tmpl("class in a package", ["L", PKG, "/", NAME, ";"], [[PKG, ".", NAME]], ex, "'/' -> '.'"),
        Tmpl("class in a nested package", ["L", PKG, "/", SUB, "/", NAME, ";"], [[PKG, ".", SUB, ".", NAME]], ex, "'/' -> '.'"),
        Tmpl("direct java.lang member", ["Ljava/lang/", NAME, ";"], [[NAME], ["java.lang.", NAME]],
             {"Name": "String"}, "java.lang prefix"),
        Tmpl("class of a java.lang sub-package", ["Ljava/lang/", SUB, "/", NAME, ";"], [["java.lang.", SUB, ".", NAME]],
             {"sub": "annotation", "Name": "Annotation"}, "java.lang prefix only for direct members"),
        Tmpl("look-alike package java/language", ["Ljava/language/", NAME, ";"], [["java.language.", NAME]],
             {"Name": "Foo"}, "prefix guard at a package boundary"),
        Tmpl("look-alike package javax", ["Ljavax/", SUB, "/", NAME, ";"], [["javax.", SUB, ".", NAME]],
             {"sub": "crypto", "Name": "Cipher"}, "prefix guard at a package boundary"),
        Tmpl("class java/lang itself", ["Ljava/lang;"], [["java.lang"]], {}, "prefix guard at a package boundary"),
        Tmpl("java/lang inside another package", ["L", PKG, "/java/lang/", NAME, ";"], [[PKG, ".java.lang.", NAME]],
             {"pkg": "shadow", "Name": "String"}, "prefix guard anchored at the start"),
    ]


def primitive_templates():
    return [Tmpl("primitive %s" % k, [k], [[v]], {}, "primitive keyword") for k, v in PRIMITIVES.items()]


def array_templates(bases):
    out = []
    for b in bases:
        for dims in (1, 2):
            t = Tmpl("%d-dimensional array of: %s" % (dims, b.label), ["[" * dims, b.desc],
                     [[a, "[]" * dims] for a in b.accept], b.example, "one [] per dimension")
            t.dims = dims
            t.base = b
            out.append(t)
    return out


class Pseudo:
    def __init__(self, m, name):
        self.qualname = name
        self.file = m.relpath
        n = m.assigns.get(name)
        self.line = getattr(n, "lineno", 1)


class Sink:
    def __init__(self, ctx=None):
        self.ctx = ctx
        self.failed = []

    def check(self, rule, instance, ok, func, construct, message, node=None, detail="", witness=None):
        if self.ctx is not None:
            self.ctx.check(rule, instance, ok, func, construct, message, node=node, detail=detail, witness=witness)
        if not ok:
            self.failed.append((rule, getattr(func, "qualname", func), norm(construct), message))

    def count(self, name, n=1):
        if self.ctx is not None:
            self.ctx.count(name, n)

    def analysed(self, f):
        if self.ctx is not None:
            self.ctx.analysed(f)


def strip_sites(func_node):
    out = []
    for n in ast.walk(func_node):
        if (isinstance(n, ast.Call) and isinstance(n.func, ast.Attribute) and n.func.attr in ("strip", "lstrip", "rstrip")
                and len(n.args) == 1 and isinstance(n.args[0], ast.Constant) and isinstance(n.args[0].value, str)
                and len(n.args[0].value) >= 2):
            out.append(n)
    return out


def prefix_intent(lit):
    """a multi-character strip argument that spells something (repeated characters or a word), not a character class"""
    if len(set(lit)) != len(lit):
        return True
    run = 0
    for c in lit:
        run = run + 1 if c.isalnum() else 0
        if run >= 2:
            return True
    return False


def java_literal_guards(events, func=None, folder=None):
    """tests that held on the path and compare with a `java...` literal (also through a hoisted module constant)"""
    def mentions_java(node):
        for x in ast.walk(node):
            if isinstance(x, ast.Constant) and isinstance(x.value, str) and "java" in x.value:
                return True
            if isinstance(x, ast.Name) and func is not None and folder is not None:
                r = func.module.resolve_name(x.id)
                if r is not None and r[0] == "const":
                    v = folder.fold(r[2], r[1])
                    if isinstance(v, str) and "java" in v:
                        return True
        return False

    out = []
    for kind, node, *rest in events:
        if kind == "guard" and rest[0] is True and mentions_java(node):
            out.append(node)
    return out


def strip_witness(tmpl, charset, into):
    """a concrete member of the class on which the character-set semantics shows: the names the call eats into are
    given a first letter from the set"""
    cs = set(charset) & IDENT_CHARS
    names = {}
    known = {"sub": ["annotation", "reflect", "invoke", "ref", "management", "instrument"],
             "Name": ["annotation", "native", "global", "version", "access"], "pkg": ["android", "javax", "net", "gnu", "lang"]}
    for atom in into:
        for cand in known.get(atom, []):
            if cand[0] in cs:
                names[atom] = cand
                break
        else:
            if cs:
                names[atom] = sorted(cs)[0] + "Name"
    return tmpl.witness(names)


def evaluate(repo, folder, func, tmpl, size=None, strip_as_prefix=False, desc=None):
    ev = StringEval(repo, folder, func, strip_as_prefix=strip_as_prefix)
    args = [desc if desc is not None else tmpl.desc] + ([size] if size is not None else [])
    try:
        out = ev.call(args)
    except Raised as r:
        return ev, ("raised", r.node)
    finally:
        EVALUATED.extend(f for f in ev.called if f not in EVALUATED)
    return ev, out


EVALUATED = []   # repository functions the abstract evaluator entered (reported with ctx.analysed)


def check_on_representatives(repo, folder, sink, func, label, tmpl, inst):
    """the function uses an operation without abstract meaning on unknown names: decide this class on representative members"""
    n = 0
    for names in probe_instantiations([tmpl.desc]):
        n += 1
        desc = concretized(tmpl.desc, names)
        accept = [concretized(a, names) for a in tmpl.accept]
        ev, out = evaluate(repo, folder, func, tmpl, desc=desc)
        ok = isinstance(out, SStr) and any(out == a for a in accept)
        prod = ev.producer if isinstance(ev.producer, ast.AST) else func.name
        sink.check("render", "%s [%s]" % (inst, desc), ok, func, prod,
                   "%s renders the %s descriptor `%s` as %s instead of %s (%s)"
                   % (label, tmpl.label, desc, _show_out(out, tmpl), " or ".join(repr(str(a)) for a in accept), tmpl.clause),
                   node=prod if isinstance(prod, ast.AST) else None, detail="%s -> %r" % (desc, out),
                   witness=dict(input=str(desc), expected=[str(a) for a in accept]))
    return n


def check_function(repo, folder, sink, func, label):
    sink.analysed(func)
    sites = strip_sites(func.node)
    site_bad = {id(n): [] for n in sites}
    classes = class_templates()
    prims = primitive_templates()
    arrays = array_templates([prims[5], prims[6], classes[1], classes[3], classes[4]])
    n_eval = 0
    failed_labels = set()
    for tmpl in prims + classes + arrays:
        n_eval += 1
        inst = "%s: %s %r" % (label, tmpl.label, tmpl.desc)
        try:
            ev, out = evaluate(repo, folder, func, tmpl)
        except NeedConcrete:
            check_on_representatives(repo, folder, sink, func, label, tmpl, inst)
            sink.count("representative_classes")
            continue
        ok = isinstance(out, SStr) and any(out == a for a in tmpl.accept)
        wdesc, wacc = tmpl.witness()
        detail = "%r -> %r" % (tmpl.desc, out)
        if ok:
            sink.check("render", inst, True, func, func.name, "", detail=detail)
            continue
        failed_labels.add(tmpl.label)
        if tmpl.dims and tmpl.base.label in failed_labels:
            # the element type is already rendered wrongly (reported there); the array wrapper is not to blame
            if sink.ctx is not None:
                sink.ctx.ob("render", inst, False, "element type already reported: " + detail)
            continue
        # ---- blame -------------------------------------------------------------------------
        strips = [e for e in ev.events if e[0] == "strip"]
        blamed = False
        out2 = out
        ev2 = ev
        if strips:
            ev2, out2 = evaluate(repo, folder, func, tmpl, strip_as_prefix=True)
            differs = not (isinstance(out2, SStr) and isinstance(out, SStr) and out2 == out)
            if differs:
                for kind, node, charset, info in strips:
                    if not (info["removed_left"] or info["removed_right"] or info["into"]):
                        continue
                    w, wa = strip_witness(tmpl, charset, info["into"])
                    removed = info["removed_left"] or info["removed_right"]
                    why = ("its argument %r is a character set, not a prefix: on `%s` it removes %r%s"
                           % (charset, w, removed, (" and then every leading character of the following name that is in the set "
                                                    "(expected result %s)" % " or ".join(repr(x) for x in wa)) if info["into"] else
                              " (expected result %s)" % " or ".join(repr(x) for x in wa)))
                    sink.check("strip-charset", inst, False, func, node,
                               "%s(%r) is applied to a %s descriptor: %s" % (info["which"], charset, tmpl.label, why),
                               node=node, witness=dict(input=w, expected=wa, template=repr(tmpl.desc), abstract_result=repr(out)))
                    site_bad.setdefault(id(node), []).append(tmpl.label)
                    blamed = True
        ok2 = isinstance(out2, SStr) and any(out2 == a for a in tmpl.accept)
        if not ok2:
            guards = java_literal_guards(ev2.events, func, folder)
            if isinstance(out2, tuple) and out2 and out2[0] == "raised":
                rn = out2[1]
                sink.check("render", inst, False, func, rn if rn is not None else func.name,
                           "%s raises on a %s descriptor such as `%s`" % (label, tmpl.label, wdesc), node=rn,
                           witness=dict(input=wdesc, expected=wacc))
            elif guards:
                g = guards[-1]
                sink.check("prefix-guard", inst, False, func, g,
                           "the java.lang prefix is removed under the guard `%s`, which also holds for a %s descriptor: `%s` is rendered "
                           "as %s instead of %s%s" % (norm(g), tmpl.label, wdesc, _show_out(out2, tmpl), " or ".join(repr(x) for x in wacc),
                                                     " (even if the strip call removed exactly its literal)" if strips else ""),
                           node=g, witness=dict(input=wdesc, expected=wacc, template=repr(tmpl.desc), abstract_result=repr(out2)))
            else:
                prod = ev2.producer if ev2.producer is not None else func.node
                cuts = [e for e in ev2.events if e[0] == "cut"]
                if cuts:
                    prod = cuts[-1][1]
                sink.check("render", inst, False, func, prod if isinstance(prod, ast.AST) and not isinstance(prod, ast.FunctionDef) else func.name,
                           "%s renders a %s descriptor such as `%s` as %s instead of %s (%s)"
                           % (label, tmpl.label, wdesc, _show_out(out2, tmpl), " or ".join(repr(x) for x in wacc), tmpl.clause),
                           node=prod if isinstance(prod, ast.AST) else None,
                           witness=dict(input=wdesc, expected=wacc, template=repr(tmpl.desc), abstract_result=repr(out2)))
            blamed = True
        if not blamed:
            raise AnalysisError("internal: failing template without a blamed construct (%s)" % inst)
    # ---- persistent module-level tables (memo tables): every state the code can put them in ------------
    n_eval += state_scenarios(repo, folder, sink, func, label, prims + classes + arrays)
    # ---- arrays with an explicit size ---------------------------------------------------------
    params = func.params()
    if len(params) >= 2:
        size = Sym("size")
        for tmpl in arrays:
            n_eval += 1
            inst = "%s: sized %s %r" % (label, tmpl.label, tmpl.desc)
            if tmpl.label in failed_labels or tmpl.base.label in failed_labels:
                continue  # reported through the unsized run
            try:
                ev, out = evaluate(repo, folder, func, tmpl, size=size)
            except NeedConcrete:
                continue   # decided on representatives in the unsized run
            good = False
            if isinstance(out, SStr):
                for a in tmpl.base.accept:
                    for k in range(tmpl.dims):
                        exp = SStr([a] + ["[]"] * k + ["[", size, "]"] + ["[]"] * (tmpl.dims - 1 - k))
                        if out == exp:
                            good = True
            prod = ev.producer if isinstance(ev.producer, ast.AST) else func.name
            sink.check("render", inst, good, func, prod,
                       "%s(desc, size) renders a %s as %s: expected the element type followed by %d bracket pairs, one holding the size"
                       % (label, tmpl.label, _show_out(out, tmpl), tmpl.dims), node=prod if isinstance(prod, ast.AST) else None,
                       detail="%r, size -> %r" % (tmpl.desc, out))
    # ---- clause (1) per call site ----------------------------------------------------------------
    for n in sites:
        sink.count("strip_sites")
        lit = n.args[0].value
        bad = site_bad.get(id(n), [])
        if not bad:
            sink.check("strip-charset", "%s: %s" % (label, norm(n)), True, func, n, "",
                       detail="%s(%r) is a no-op or an exact prefix removal on all %d descriptor classes" % (n.func.attr, lit, n_eval))
    return n_eval


def state_scenarios(repo, folder, sink, func, label, templates):
    """When the function keeps results in a module-level table that it also empties / evicts from, the table can be in states
    other than its initial one when the next call arrives.  Those states are computed (each class is evaluated with the table
    grown by earlier calls, so that a 'table is full' branch is taken) and every class is evaluated again in each of them."""
    probe = StringEval(repo, folder, func)
    try:
        probe.call([templates[0].desc])
    except (Raised, NeedConcrete):
        pass
    if not any(g.persistent for g in probe.gstate.values()):
        return 0
    snapshots = {}
    n = 0
    for tmpl in templates:
        ev = StringEval(repo, folder, func, size_mode="grown")
        try:
            ev.call([tmpl.desc])
        except (Raised, NeedConcrete):
            continue
        removes = [e for e in ev.events if e[0] == "state-remove"]
        if not removes:
            continue
        for key, g in ev.gstate.items():
            if g.persistent and any(e[2] == g.gname for e in removes):
                kept = frozenset(str(k) for k in g if k in g.initial_keys)
                snapshots.setdefault((key, kept), (dict(g), [e[1] for e in removes if e[2] == g.gname][-1], tmpl))
    for (key, kept), (content, rnode, cause) in sorted(snapshots.items(), key=lambda kv: (kv[0][0], sorted(kv[0][1]))):
        sink.count("table_states")
        lost = [str(k) for k in probe.gstate[key].initial_keys if str(k) not in kept] if key in probe.gstate else []
        for tmpl in templates:
            n += 1
            ev = StringEval(repo, folder, func, initial_state={key: content})
            try:
                out = ev.call([tmpl.desc])
            except Raised as r:
                out = ("raised", r.node)
            except NeedConcrete:
                continue
            ok = isinstance(out, SStr) and any(out == a for a in tmpl.accept)
            wdesc, wacc = tmpl.witness()
            cdesc, _ = cause.witness()
            sink.check("persistent-state", "%s: %s %r after %s removed %s" % (label, tmpl.label, tmpl.desc, norm(rnode), key[1]),
                       ok, func, rnode,
                       "%s keeps results in the module-level table %s; a call such as %s(`%s`) that finds the table full executes `%s`, "
                       "which also removes the initial entries %s; the next call %s(`%s`) then returns %s instead of %s"
                       % (label, key[1], label, cdesc, norm(rnode), lost[:9], label, wdesc, _show_out(out, tmpl),
                          " or ".join(repr(x) for x in wacc)),
                       node=rnode, detail="table %s without %s: %r -> %r" % (key[1], lost[:9], tmpl.desc, out),
                       witness=dict(first_call=cdesc, then=wdesc, expected=wacc))
    return n


def _show_out(out, tmpl):
    if isinstance(out, SStr):
        n = dict(tmpl.example)
        parts = []
        for p in out.parts:
            if isinstance(p, Garbled):
                parts.append("<%s with leading characters removed>" % n.get(p.atom.name, p.atom.name) if "strip" in p.how
                             else "<part of %s>" % n.get(p.atom.name, p.atom.name))
            elif isinstance(p, Atom):
                parts.append(n.get(p.name, p.name))
            elif isinstance(p, str):
                parts.append(p)
            else:
                parts.append(repr(p))
        return repr("".join(parts))
    if isinstance(out, tuple) and out and out[0] == "raised":
        return "an exception"
    return repr(out)


def check_tables(repo, folder, sink):
    for rel in (UTIL, DEX_TYPES):
        m = repo.mod(rel)
        if "TYPE_DESCRIPTOR" not in m.assigns:
            raise AnalysisError("anchor vanished: TYPE_DESCRIPTOR in %s" % rel)
        v = folder.fold(m.assigns["TYPE_DESCRIPTOR"], m)
        if isinstance(v, Unknown) or not isinstance(v, dict):
            raise AnalysisError("TYPE_DESCRIPTOR in %s does not fold to a constant dict" % rel)
        ps = Pseudo(m, "TYPE_DESCRIPTOR")
        sink.count("tables")
        for k in sorted(set(PRIMITIVES) | set(v), key=repr):
            got = v.get(k)
            exp = PRIMITIVES.get(k)
            sink.check("primitive-table", "%s TYPE_DESCRIPTOR[%r]" % (rel, k), got == exp, ps, "TYPE_DESCRIPTOR[%r] = %r" % (k, got),
                       "%s: TYPE_DESCRIPTOR maps %r to %r; the DEX format defines %s" % (
                           rel, k, got, ("%r -> %r" % (k, exp)) if exp else "no primitive type %r" % (k,)),
                       node=m.assigns["TYPE_DESCRIPTOR"], detail="%r -> %r" % (k, got))


def param_list_templates():
    P = lambda *parts: SStr(parts)
    cls = P("L", PKG, "/", NAME, ";")
    lists = [
        ("no parameter", []),
        ("one primitive", [P("I")]),
        ("two primitives", [P("I"), P("J")]),
        ("every primitive", [P(k) for k in "ZBSCIJFD"]),
        ("one class", [cls]),
        ("class in the default package", [P("L", NAME, ";")]),
        ("primitive, class, array", [P("I"), cls, P("[J")]),
        ("arrays of classes and a java.lang member", [P("[[L", NAME, ";"), P("Ljava/lang/", NAME, ";"), P("[L", PKG, "/", SUB, "/", NAME, ";")]),
        ("class between primitives", [P("Z"), cls, P("D")]),
    ]
    out = []
    for label, params in lists:
        inner = []
        for i, x in enumerate(params):
            if i:
                inner.append(" ")
            inner.append(x)
        for ret_label, ret in (("parameter part only", []), ("with return type V", ["V"]), ("with a class return type", [P("L", PKG, "/", NAME, ";")])):
            out.append(("%s, %s" % (label, ret_label), SStr(["("] + inner + [")"] + ret), params))
    return out


def check_params_function(repo, folder, sink, func, label):
    """get_params_type cuts a prototype '(' + ' '.join(parameter descriptors) + ')' [+ return type] (the form
    ProtoIdItem.get_parameters_off_value builds) into exactly its parameter descriptors"""
    sink.analysed(func)
    n = 0
    for tlabel, proto, params in param_list_templates():
        inst = "%s: %s %r" % (label, tlabel, proto)

        def one(desc, expected, where):
            ev = StringEval(repo, folder, func)
            try:
                out = ev.call([desc])
            except Raised as r:
                out = ("raised", r.node)
            finally:
                EVALUATED.extend(f for f in ev.called if f not in EVALUATED)
            ok = isinstance(out, (list, tuple)) and list(out) == list(expected)
            prod = ev.producer if isinstance(ev.producer, ast.AST) else func.name
            if isinstance(out, (list, tuple)) and any(isinstance(x, SStr) and x.garbled() for x in out):
                prod = next((e[1] for e in reversed(ev.events) if e[0] in ("cut", "strip")), prod)
            shown = "an exception" if isinstance(out, tuple) and out and out[0] == "raised" else repr([str(x) for x in out] if isinstance(out, (list, tuple)) else out)
            sink.check("parameter-list", inst + where, ok, func, prod,
                       "%s cuts the prototype `%s` (%s) into %s instead of %s"
                       % (label, desc, tlabel, shown, [str(x) for x in expected]),
                       node=prod if isinstance(prod, ast.AST) else None, detail="%s -> %s" % (desc, shown),
                       witness=dict(input=str(desc), expected=[str(x) for x in expected]))

        n += 1
        try:
            one(proto, params, "")
        except NeedConcrete:
            sink.count("representative_classes")
            for names in probe_instantiations([proto]):
                one(concretized(proto, names), [concretized(x, names) for x in params], " [%s]" % concretized(proto, names))
    return n


def core(repo, sink):
    folder = Folder(repo)
    util = repo.mod(UTIL)
    dex = repo.mod(DEX)
    repo.mod(DEX_TYPES)
    check_tables(repo, folder, sink)
    total = 0
    for m, label in ((util, "decompiler.util.get_type"), (dex, "dex.get_type")):
        f = m.functions.get("get_type")
        if f is None:
            raise AnalysisError("anchor vanished: get_type in %s" % m.relpath)
        sink.count("functions")
        total += check_function(repo, folder, sink, f, label)
    sink.count("templates", total)
    gp = util.functions.get("get_params_type")
    if gp is None:
        raise AnalysisError("anchor vanished: get_params_type in %s" % util.relpath)
    sink.count("prototypes", check_params_function(repo, folder, sink, gp, "decompiler.util.get_params_type"))


def run(ctx):
    ctx.explanation = __doc__
    sink = Sink(ctx)
    for rel in (UTIL, DEX, DEX_TYPES):
        ctx.mod(rel)
    del EVALUATED[:]
    core(ctx.repo, sink)
    for f in EVALUATED:
        ctx.analysed(f)
    ctx.floor("functions", 2)
    ctx.floor("tables", 2)
    ctx.floor("templates", 2 * (9 + 9 + 10 + 10))
    ctx.floor("prototypes", 27)
    ctx.assume("inputs are TypeDescriptors of the DEX format; <Name>, <pkg>, <sub> stand for identifiers that do not themselves spell a "
               "literal the code compares with")
    ctx.note("keeping the java.lang. prefix of a direct member (dex.get_type) is accepted: the fully qualified name is a right Java name")
    if ctx.tier == "thorough":
        thorough(ctx)


# =============================================================================
# thorough tier
# =============================================================================
def package_wide_strip(ctx):
    """generic sub-rule widened to the whole package: multi-character strip literals that spell a prefix"""
    analysed = {(UTIL, "get_type"), (DEX, "get_type")}
    for rel, m in sorted(ctx.repo.modules.items()):
        for f in m.functions.values():
            if (rel, f.qualname) in analysed:
                continue
            for n in strip_sites(f.node):
                lit = n.args[0].value
                ctx.count("package_strip_sites")
                ctx.check("strip-charset/package", "%s:%s %s" % (rel, f.qualname, norm(n)), not prefix_intent(lit), f, n,
                          "%s(%r): the argument is a set of characters, not a prefix/suffix; it spells a word, so prefix removal was "
                          "probably intended (use removeprefix/removesuffix)" % (n.func.attr, lit), node=n,
                          detail="character class %r" % lit)


def clone_repo(repo, edits):
    r = Repo.__new__(Repo)
    r.root = repo.root
    r.consulted = set()
    r.modules = dict(repo.modules)
    for rel, text in edits.items():
        r.modules[rel] = Module(r, rel, text)
    # the dex module imports TYPE_DESCRIPTOR from dex_types: re-parse it so that resolution goes through the clone
    for rel in (DEX, DEX_TYPES, UTIL):
        if rel not in edits:
            r.modules[rel] = Module(r, rel, repo.modules[rel].text)
    r._dotted = {m.dotted: m for m in r.modules.values()}
    return r


def _get_type(tree):
    for n in tree.body:
        if isinstance(n, ast.FunctionDef) and n.name == "get_type":
            return n
    return None


def mutants():
    out = []

    def const_swap(old, new):
        def t(tree):
            f = _get_type(tree)
            hit = False
            for n in ast.walk(f):
                if isinstance(n, ast.Constant) and n.value == old:
                    n.value = new
                    hit = True
            return hit
        return t

    for rel in (UTIL, DEX):
        out.append(("%s: '/' is no longer replaced by '.'" % rel, rel, const_swap(".", "/")))
        out.append(("%s: '%%s[]' loses its brackets" % rel, rel, const_swap("%s[]", "%s")))
        out.append(("%s: '[' test compares with '('" % rel, rel, const_swap("[", "(")))

        def slice_mut(tree):
            f = _get_type(tree)
            for n in ast.walk(f):
                if (isinstance(n, ast.Subscript) and isinstance(n.slice, ast.Slice) and n.slice.upper is not None
                        and isinstance(n.slice.upper, ast.UnaryOp)):
                    n.slice.upper = None
                    return True
            return False
        out.append(("%s: atype[1:-1] becomes atype[1:]" % rel, rel, slice_mut))

        def rec_mut(tree):
            f = _get_type(tree)
            for n in ast.walk(f):
                if (isinstance(n, ast.Call) and isinstance(n.func, ast.Name) and n.func.id == "get_type" and n.args
                        and isinstance(n.args[0], ast.Subscript) and isinstance(n.args[0].slice, ast.Slice)):
                    n.args[0].slice.lower = ast.Constant(2)
                    return True
            return False
        out.append(("%s: recursion on atype[2:]" % rel, rel, rec_mut))

    def table_mut(tree):
        for n in tree.body:
            if isinstance(n, ast.Assign) and isinstance(n.targets[0], ast.Name) and n.targets[0].id == "TYPE_DESCRIPTOR":
                for k, v in zip(n.value.keys, n.value.values):
                    if k.value == "J":
                        v.value = "int"
                        return True
        return False
    out.append(("util TYPE_DESCRIPTOR['J'] = 'int'", UTIL, table_mut))
    out.append(("dex_types TYPE_DESCRIPTOR['J'] = 'int'", DEX_TYPES, table_mut))

    def _java_guard(f):
        """the `if` of util.get_type whose test mentions a java/lang literal"""
        for n in ast.walk(f):
            if isinstance(n, ast.If) and any(isinstance(x, ast.Constant) and isinstance(x.value, str) and "java/lang" in x.value
                                             for x in ast.walk(n.test)):
                return n
        return None

    def guard_no_slash(tree):
        g = _java_guard(_get_type(tree))
        if g is None:
            return False
        for n in ast.walk(g.test):
            if isinstance(n, ast.Constant) and isinstance(n.value, str) and n.value.endswith("java/lang/"):
                n.value = n.value[:-1]
                return True
        return False
    out.append(("util: guard literal loses its trailing '/' (Ljava/lang; becomes '')", UTIL, guard_no_slash))

    def guard_drop_conjunct(tree):
        g = _java_guard(_get_type(tree))
        if g is None or not (isinstance(g.test, ast.BoolOp) and isinstance(g.test.op, ast.And) and len(g.test.values) >= 2):
            return False
        g.test = g.test.values[0]
        return True
    out.append(("util: the 'no further /' conjunct of the java.lang guard is dropped", UTIL, guard_drop_conjunct))

    def slice_start(delta):
        def t(tree):
            g = _java_guard(_get_type(tree))
            if g is None:
                return False
            for st in g.body:
                for n in ast.walk(st):
                    if (isinstance(n, ast.Subscript) and isinstance(n.slice, ast.Slice) and isinstance(n.slice.lower, ast.Constant)
                            and isinstance(n.slice.lower.value, int) and n.slice.lower.value > 1):
                        n.slice.lower = ast.Constant(n.slice.lower.value + delta)
                        return True
            return False
        return t
    out.append(("util: prefix slice starts one character early", UTIL, slice_start(-1)))
    out.append(("util: prefix slice starts one character late", UTIL, slice_start(+1)))

    def reintroduce_lstrip(tree):
        g = _java_guard(_get_type(tree))
        if g is None:
            return False
        for st in g.body:
            if isinstance(st, ast.Assign):
                st.value = ast.parse("atype[1:-1].lstrip('java/lang/').replace('/', '.')", mode="eval").body
                return True
        return False
    out.append(("util: lstrip('java/lang/') re-introduced", UTIL, reintroduce_lstrip))

    def guard_wider(tree):
        g = _java_guard(_get_type(tree))
        if g is None:
            return False
        g.test = ast.parse("atype.startswith('Ljava/lang')", mode="eval").body
        return True
    out.append(("util: guard is only startswith('Ljava/lang')", UTIL, guard_wider))

    def dex_strip_mut(tree):
        f = _get_type(tree)
        for n in ast.walk(f):
            if (isinstance(n, ast.Call) and isinstance(n.func, ast.Attribute) and n.func.attr == "lstrip" and n.args
                    and isinstance(n.args[0], ast.Constant)):
                n.args[0].value = "IJ"
                return True
        return False
    out.append(("dex: the lookup key is lstrip('IJ')-ed (int and long lose their letter)", DEX, dex_strip_mut))

    def _params(tree):
        for n in tree.body:
            if isinstance(n, ast.FunctionDef) and n.name == "get_params_type":
                return n
        return None

    def params_slice(tree):
        f = _params(tree)
        if f is None:
            return False
        for n in ast.walk(f):
            if isinstance(n, ast.Subscript) and isinstance(n.slice, ast.Slice) and isinstance(n.slice.lower, ast.Constant) and n.slice.lower.value == 1:
                n.slice.lower = ast.Constant(2)
                return True
        return False
    out.append(("util.get_params_type drops two leading characters", UTIL, params_slice))

    def params_regex(tree):
        f = _params(tree)
        if f is None:
            return False
        tree.body.insert(tree.body.index(f), ast.parse("import re\nAGSTATIC_PARAM = re.compile(r'\\[*(?:[ZBSCIJFD]|L[\\w$/]+;)')").body[1])
        tree.body.insert(0, ast.parse("import re").body[0])
        f.body = ast.parse("def f(descriptor):\n    return AGSTATIC_PARAM.findall(descriptor.split(')')[0][1:])\n").body[0].body
        return True
    out.append(("util.get_params_type tokenises with a regex whose class names are [\\w$/]+", UTIL, params_regex))
    return out


def benign():
    out = []

    def rename_res(tree):
        f = _get_type(tree)
        hit = False
        for n in ast.walk(f):
            if isinstance(n, ast.Name) and n.id == "res":
                n.id = "rendered"
                hit = True
        return hit
    out.append(("util: local res renamed", UTIL, rename_res))
    out.append(("dex: local res renamed", DEX, rename_res))

    def concat(tree):
        f = _get_type(tree)
        for n in ast.walk(f):
            if isinstance(n, ast.BinOp) and isinstance(n.op, ast.Mod) and isinstance(n.left, ast.Constant) and n.left.value == "%s[]":
                n.op = ast.Add()
                n.left, n.right = n.right, ast.Constant("[]")
                return True
        return False
    out.append(("util: '%s[]' % x written as x + '[]'", UTIL, concat))

    def count_idiom(tree):
        f = _get_type(tree)
        for n in ast.walk(f):
            if (isinstance(n, ast.Compare) and len(n.ops) == 1 and isinstance(n.ops[0], ast.NotIn)
                    and isinstance(n.left, ast.Constant) and n.left.value == "/"):
                rest = n.comparators[0]
                n.left = ast.Call(ast.Attribute(rest, "count", ast.Load()), [ast.Constant("/")], [])
                n.ops = [ast.Eq()]
                n.comparators = [ast.Constant(0)]
                return True
        return False
    out.append(("util: `'/' not in rest` written as rest.count('/') == 0", UTIL, count_idiom))

    def removeprefix_idiom(tree):
        f = _get_type(tree)
        for n in ast.walk(f):
            if (isinstance(n, ast.Assign) and isinstance(n.value, ast.Subscript) and isinstance(n.value.slice, ast.Slice)
                    and isinstance(n.value.slice.lower, ast.Constant) and n.value.slice.lower.value == 11):
                n.value = ast.parse("atype[1:-1].removeprefix('java/lang/')", mode="eval").body
                return True
        return False
    out.append(("util: atype[11:-1] written as atype[1:-1].removeprefix('java/lang/')", UTIL, removeprefix_idiom))

    def swap_branches(tree):
        f = _get_type(tree)
        for n in ast.walk(f):
            if isinstance(n, ast.If) and isinstance(n.test, ast.Compare) and isinstance(n.test.ops[0], ast.Is) and n.orelse:
                n.test.ops[0] = ast.IsNot()
                n.body, n.orelse = n.orelse, n.body
                return True
        return False
    out.append(("dex: `size is None` branches swapped with the negated test", DEX, swap_branches))

    def params_regex_ok(tree):
        for n in tree.body:
            if isinstance(n, ast.FunctionDef) and n.name == "get_params_type":
                tree.body.insert(tree.body.index(n), ast.parse("import re\nAGSTATIC_PARAM = re.compile(r'\\[*(?:[ZBSCIJFD]|L[^;]+;)')").body[1])
                tree.body.insert(0, ast.parse("import re").body[0])
                n.body = ast.parse("def f(descriptor):\n    return AGSTATIC_PARAM.findall(descriptor.split(')')[0][1:])\n").body[0].body
                return True
        return False
    out.append(("util.get_params_type tokenises with a regex whose class names are [^;]+", UTIL, params_regex_ok))
    return out


def _edit(repo, rel, transform):
    tree = ast.parse(repo.modules[rel].text)
    if not transform(tree):
        return None   # the spelling this operator targets is not in today's tree
    ast.fix_missing_locations(tree)
    return {rel: ast.unparse(tree)}


def thorough(ctx):
    package_wide_strip(ctx)
    base = Sink()
    core(ctx.repo, base)
    base_keys = {(r, q, c) for r, q, c, m in base.failed}
    killed = total = 0
    survivors = []
    for name, rel, tr in mutants():
        ed = _edit(ctx.repo, rel, tr)
        if ed is None:
            ctx.note("mutation operator not applicable to this tree: %s" % name)
            continue
        total += 1
        r2 = clone_repo(ctx.repo, ed)
        s = Sink()
        try:
            core(r2, s)
        except AnalysisError as e:
            survivors.append("%s (analysis error: %s)" % (name, e))
            continue
        new = [(r, q, c) for r, q, c, m in s.failed if (r, q, c) not in base_keys]
        if new:
            killed += 1
            ctx.ob("mutation", name, True, "fires: %s %s" % (new[0][0], new[0][2][:70]))
        else:
            survivors.append(name)
    silent = btotal = 0
    noisy = []
    for name, rel, tr in benign():
        ed = _edit(ctx.repo, rel, tr)
        if ed is None:
            ctx.note("benign edit not applicable to this tree: %s" % name)
            continue
        btotal += 1
        r2 = clone_repo(ctx.repo, ed)
        s = Sink()
        core(r2, s)
        new = [(r, q, c) for r, q, c, m in s.failed if (r, q, c) not in base_keys]
        if not new:
            silent += 1
            ctx.ob("benign", name, True, "silent")
        else:
            noisy.append("%s -> %s" % (name, new[0]))
    ctx.extra["mutants_killed"] = killed
    ctx.extra["mutants_total"] = total
    ctx.extra["benign_silent"] = silent
    ctx.extra["benign_total"] = btotal
    if survivors:
        raise AnalysisError("rule lost its teeth: surviving mutants: %s" % "; ".join(survivors))
    if noisy:
        raise AnalysisError("rule fires on behaviour-preserving edits: %s" % "; ".join(noisy))
    if total < 12 or btotal < 4:
        raise AnalysisError("only %d mutation operators and %d benign edits apply to this tree (need >= 12 / 4): "
                            "the mutation set no longer matches the code" % (total, btotal))
