"""C02 -- linear-sweep disassembly recovers the instruction stream and terminates.

Clauses decided:
 (a) dispatch: the three-way split of LinearSweepAlgorithm.get_instructions is abstractly
     interpreted for every 16-bit first code unit (thorough: all 65536; quick: every low byte x
     one representative of every class of high bytes the code can distinguish) and both ODEX
     modes: units 0x0100/0x0200/0x0300 go to payload parsing, every other unit (hi<<8)|op goes
     to get_instruction(op); only a nop with a non-zero high byte may be rejected outright.
 (b) termination: every path round the sweep loop passes `idx += obj.get_length()`, and the
     interval of every reachable get_length() is >= 2 (class `length` constants; payload length
     expressions over unsigned fields); max_idx is clamped to len(insn).
 (c) size agreement + re-encoding of payloads: for a grid of sizes/widths the constructor is
     interpreted over a symbolic buffer: bytes consumed == get_length() == len(get_raw()) and
     get_raw() reproduces every consumed bit.  The expressions involved are checked to lie in the
     affine-with-parity fragment, for which agreement on the grid implies agreement everywhere.
 (d) truncation: on a buffer shorter than the payload the constructor must raise.
 (e) DCode.off_to_pos / get_ins_off accumulate get_length() of the same instruction iterator.
Not decided: equality of the yielded stream with an assembled program.
"""
from __future__ import annotations

import ast
import itertools

from ..absint import Interp, Sym, BufV, BytesV, Obj, Raised, explore, show
from ..bits import Bits
from ..cfg import CFG
from ..consts import Folder, Ref, Unknown
from ..model import DEX, AnalysisError, walk_no_nested, parent
from ..spec import dalvik


def run(ctx):
    ctx.explanation = __doc__
    repo = ctx.repo
    m = ctx.mod(DEX)
    folder = Folder(repo)
    sweep = m.func("LinearSweepAlgorithm.get_instructions")
    ctx.analysed(sweep)
    _dispatch(ctx, repo, folder, m, sweep)
    _termination(ctx, repo, folder, m, sweep)
    _payloads(ctx, repo, folder, m)
    _offsets(ctx, m)


# --------------------------------------------------------------------------- (a)
def _dispatch(ctx, repo, folder, m, sweep):
    loops = [n for n in walk_no_nested(sweep.node) if isinstance(n, ast.While)]
    ctx.require(len(loops) == 1, "LinearSweepAlgorithm.get_instructions: expected one sweep loop")
    loop = loops[0]
    tries = [n for n in loop.body if isinstance(n, ast.Try)]
    ctx.require(len(tries) == 1, "sweep loop: the dispatch try-block was not found")
    tr = tries[0]
    payload_tbl = folder.global_(m, "DALVIK_OPCODES_PAYLOAD")
    opt_tbl = folder.global_(m, "DALVIK_OPCODES_OPTIMIZED")
    ctx.require(isinstance(payload_tbl, dict) and isinstance(opt_tbl, dict), "payload/optimized tables do not fold")
    ctx.check("payload-table", "DALVIK_OPCODES_PAYLOAD keys", set(payload_tbl) == set(dalvik.PAYLOADS), "DALVIK_OPCODES_PAYLOAD", "keys %s" % sorted(map(hex, payload_tbl)),
              "payload pseudo-opcodes are 0x0100, 0x0200, 0x0300; table has %s" % sorted(map(hex, payload_tbl)), file=m.relpath)
    exp_cls = {0x0100: "PackedSwitch", 0x0200: "SparseSwitch", 0x0300: "FillArrayData"}
    for k, v in payload_tbl.items():
        cn = v[0].name if isinstance(v, list) and v and isinstance(v[0], Ref) else None
        ctx.check("payload-table", "0x%04x" % k, exp_cls.get(k) == cn, "DALVIK_OPCODES_PAYLOAD", "0x%04x: %s" % (k, cn),
                  "payload 0x%04x must be parsed by %s, table says %s" % (k, exp_cls.get(k), cn), file=m.relpath)

    # which variable holds the unit? the name unpacked from packer['H'] in the loop body
    unit_var = None
    for n in loop.body:
        if isinstance(n, ast.Assign) and "unpack" in ast.unparse(n.value):
            t = n.targets[0]
            if isinstance(t, ast.Tuple) and len(t.elts) == 1 and isinstance(t.elts[0], ast.Name):
                unit_var = t.elts[0].id
            elif isinstance(t, ast.Name):
                unit_var = t.id
            src = ast.unparse(n.value)
            ctx.check("unit-read", "first code unit is insn[idx:idx+2] as 'H'", "'H'" in src or '"H"' in src, sweep, n, "the first code unit is not read as an unsigned 16-bit value", node=n)
    ctx.require(unit_var is not None, "sweep loop: the 16-bit unit read was not found")
    odex_var = None
    for n in walk_no_nested(sweep.node):
        if isinstance(n, ast.Assign) and "get_odex_format" in ast.unparse(n.value) and isinstance(n.targets[0], ast.Name):
            odex_var = n.targets[0].id

    # classes of high bytes the code can distinguish: every constant in the function and every table key
    consts = {0, 0xFF, 0x100, 0xFFFF}
    for n in ast.walk(sweep.node):
        if isinstance(n, ast.Constant) and isinstance(n.value, int) and not isinstance(n.value, bool) and 0 <= n.value <= 0xFFFF:
            consts.add(n.value)
    consts.update(payload_tbl)
    consts.update(opt_tbl)
    his = sorted({c >> 8 for c in consts} | {(c >> 8) + 1 for c in consts if (c >> 8) < 0xFF} | {max((c >> 8) - 1, 0) for c in consts} | {0x7F, 0x80})
    if ctx.tier == "thorough":
        his = list(range(256))
    ctx.extra["dispatch_high_bytes"] = ["0x%02x" % h for h in his]

    calls = {}

    def call_hook(it, name, callee, args, kwargs, e, func):
        if name in ("get_instruction", "get_instruction_payload", "get_optimized_instruction"):
            return Sym("routed", name, *args)
        return NotImplemented

    def run_unit(unit, odex):
        def r(asg):
            it = Interp(repo, folder, asg=dict(asg), hooks={"call": call_hook})
            it.max_split = 0
            env = {"cm": Sym("cm"), "insn": BufV("insn"), "idx": Sym("idx"), "size": Sym("size"), "max_idx": Sym("max_idx"),
                   unit_var: unit, "__func__": sweep}
            if odex_var:
                env[odex_var] = odex
            it.exec_stmt(tr, env, sweep)
            obj = env.get("obj")
            for k, v in env.items():
                if isinstance(v, Sym) and v.op == "routed":
                    obj = v
            return obj

        outs = set()
        for asg, obj in explore(r):
            if isinstance(obj, Raised):
                outs.add(("raise", obj.exc))
            elif isinstance(obj, Sym) and obj.op == "routed":
                a = list(obj.args[1:])
                if obj.args[0] == "get_instruction":
                    op = a[1]
                    outs.add(("insn", op.value() if isinstance(op, Bits) and op.is_const() else (op if isinstance(op, int) else show(op))))
                elif obj.args[0] == "get_instruction_payload":
                    op = a[0]
                    outs.add(("payload", op.value() if isinstance(op, Bits) and op.is_const() else (op if isinstance(op, int) else show(op))))
                else:
                    outs.add(("optimized", show(a[1])))
            else:
                outs.add(("none", show(obj)))
        if len(outs) == 1:
            return outs.pop()
        return ("depends-on-more-than-the-unit", " | ".join(sorted("%s %s" % o for o in outs)))

    n = 0
    bad = {}
    for odex in (False, True):
        for hi in his:
            for lo in range(256):
                unit = (hi << 8) | lo
                n += 1
                got = run_unit(unit, odex)
                if unit in dalvik.PAYLOADS:
                    ok = got == ("payload", unit)
                    want = "payload 0x%04x" % unit
                elif odex and unit in opt_tbl:
                    ok = got[0] in ("optimized", "insn")
                    want = "optimized decoder"
                else:
                    ok = got == ("insn", lo)
                    want = "get_instruction(0x%02x)" % lo
                    if not ok and lo == 0x00 and hi != 0 and got[0] == "raise" and got[1].endswith("InvalidInstruction"):
                        ok = True  # a nop with a non-zero high byte is invalid anyway
                if not ok:
                    key = (odex, lo if lo in (0x00, 0xFF) else "other", got[0], str(got[1])[:40])
                    bad.setdefault(key, []).append(unit)
    ctx.count("dispatch_units", n)
    ctx.ob("dispatch", "%d (unit, odex) combinations routed" % n, not bad, "each unit goes to the decoder the Dalvik format assigns")
    for (odex, lo, kind, what), units in sorted(bad.items(), key=str):
        ex = units[0]
        ctx.check("dispatch", "unit 0x%04x odex=%s" % (ex, odex), False, sweep,
                  "low byte %s odex=%s -> %s %s" % ("0x%02x" % lo if isinstance(lo, int) else lo, odex, kind, what),
                  "first code unit 0x%04x (and %d more with the same shape, odex=%s) is routed to %s %s; the Dalvik format says %s" % (
                      ex, len(units) - 1, odex, kind, what,
                      "get_instruction(0x%02x)" % (ex & 0xFF)),
                  node=tr, witness={"unit": "0x%04x" % ex, "bytes": "%02x %02x" % (ex & 0xFF, ex >> 8), "count": len(units)})
    ctx.floor("dispatch_units", 2 * 256 * 8)


# --------------------------------------------------------------------------- (b)
def _interval(e, env):
    """interval of a non-negative integer expression; env: ast.unparse(text) -> (lo, hi)"""
    t = ast.unparse(e)
    if t in env:
        return env[t]
    if isinstance(e, ast.Constant) and isinstance(e.value, int):
        return (e.value, e.value)
    if isinstance(e, ast.Call) and ast.unparse(e.func).endswith("calcsize") and e.args and isinstance(e.args[0], ast.Constant):
        import struct
        v = struct.calcsize(e.args[0].value)
        return (v, v)
    if isinstance(e, ast.BinOp):
        a, b = _interval(e.left, env), _interval(e.right, env)
        if a is None or b is None or a[0] < 0 or b[0] < 0:
            return None
        if isinstance(e.op, ast.Add):
            return (a[0] + b[0], a[1] + b[1])
        if isinstance(e.op, ast.Mult):
            return (a[0] * b[0], a[1] * b[1])
        if isinstance(e.op, ast.FloorDiv) and b[0] > 0:
            return (a[0] // b[1], a[1] // b[0])
        if isinstance(e.op, ast.LShift):
            return (a[0] << b[0], a[1] << b[1])
    return None


def _termination(ctx, repo, folder, m, sweep):
    loop = [n for n in walk_no_nested(sweep.node) if isinstance(n, ast.While)][0]
    cfg = CFG(sweep.node)
    # guard: idx < max_idx
    test = loop.test
    ok_guard = isinstance(test, ast.Compare) and len(test.ops) == 1 and isinstance(test.ops[0], (ast.Lt, ast.LtE)) and isinstance(test.left, ast.Name)
    ctx.require(ok_guard, "sweep loop guard is not of the form `idx < bound`")
    counter = test.left.id
    bound = ast.unparse(test.comparators[0])
    def _is_inc(n):
        if isinstance(n, ast.AugAssign) and isinstance(n.op, ast.Add) and isinstance(n.target, ast.Name) and n.target.id == counter:
            return n.value
        if isinstance(n, ast.Assign) and len(n.targets) == 1 and isinstance(n.targets[0], ast.Name) and n.targets[0].id == counter \
                and isinstance(n.value, ast.BinOp) and isinstance(n.value.op, ast.Add):
            if isinstance(n.value.left, ast.Name) and n.value.left.id == counter:
                return n.value.right
            if isinstance(n.value.right, ast.Name) and n.value.right.id == counter:
                return n.value.left
        return None

    incs = [n for n in ast.walk(loop) if isinstance(n, (ast.AugAssign, ast.Assign)) and _is_inc(n) is not None]
    ctx.check("progress", "the loop advances its offset", bool(incs), sweep, "while %s" % ast.unparse(test),
              "the sweep loop never advances `%s`" % counter, node=loop)
    if not incs:
        return
    inc = incs[-1]
    incv = _is_inc(inc)
    ok_inc = all(isinstance(_is_inc(i), ast.Call) and isinstance(_is_inc(i).func, ast.Attribute) and _is_inc(i).func.attr == "get_length" for i in incs)
    ctx.check("progress", "loop counter advances by obj.get_length()", ok_inc, sweep, inc, "the sweep offset is not advanced by the length of the decoded instruction", node=inc)
    # every path from the loop head back to the loop head passes the increment
    body_first = loop.body[0]
    back_ok = cfg.every_path_passes(body_first, loop, incs)
    ctx.check("progress", "every path round the loop passes the increment", back_ok, sweep, "while %s" % ast.unparse(test),
              "a path round the sweep loop skips `%s`" % ast.unparse(inc), node=loop)
    others = [n for n in ast.walk(loop) if isinstance(n, (ast.Assign, ast.AugAssign)) and all(n is not i for i in incs) and any(isinstance(t, ast.Name) and t.id == counter for t in (n.targets if isinstance(n, ast.Assign) else [n.target]))]
    ctx.check("progress", "no other write to the loop counter", not others, sweep, others[0] if others else "none",
              "the sweep offset is also written by `%s`" % (ast.unparse(others[0]) if others else ""), node=others[0] if others else None)
    # bound clamped to len(insn)
    clamp = False
    for n in walk_no_nested(sweep.node):
        if isinstance(n, ast.If) and isinstance(n.test, ast.Compare) and ast.unparse(n.test.left) == bound and isinstance(n.test.ops[0], ast.Gt) and "len(" in ast.unparse(n.test.comparators[0]):
            for s in n.body:
                if isinstance(s, ast.Assign) and ast.unparse(s.targets[0]) == bound and ast.unparse(s.value) == ast.unparse(n.test.comparators[0]):
                    clamp = True
    ctx.check("bound", "%s clamped to len(insn)" % bound, clamp, sweep, "%s clamp" % bound, "the declared code size is not clamped to the real buffer length")
    # get_length intervals
    table = folder.global_(m, "DALVIK_OPCODES_FORMAT")
    seen = set()
    for op, row in sorted(table.items()):
        cls = row[0].obj
        if cls.name in seen:
            continue
        seen.add(cls.name)
        ln = cls.lookup_attr("length")
        v = folder.fold(ln, cls.module) if ln is not None else None
        gl = cls.lookup("get_length")
        simple = gl is not None and any(isinstance(n, ast.Return) and n.value is not None and ast.unparse(n.value) == "self.length" for n in ast.walk(gl.node))
        ctx.require(simple, "%s.get_length is not `return self.length`" % cls.name)
        if cls.name == "Instruction00x":
            init = cls.lookup("__init__")
            from ..cfg import raises_only
            ctx.check("length>=2", cls.name, raises_only(init.node.body), init, "%s.length" % cls.name,
                      "%s has length %s and can be constructed: the sweep would not advance" % (cls.name, v))
            continue
        ctx.count("length_constants")
        ctx.check("length>=2", cls.name, isinstance(v, int) and v >= 2 and v % 2 == 0, cls.lookup("get_length"), "%s.length = %s" % (cls.name, v),
                  "%s.length is %r: the sweep needs an even length >= 2 to make progress" % (cls.name, v), detail="length %s" % v)
    ctx.floor("length_constants", 26)
    for cname in ("FillArrayData", "SparseSwitch", "PackedSwitch"):
        cls = m.cls(cname)
        gl = cls.lookup("get_length")
        init = cls.lookup("__init__")
        ctx.analysed(gl)
        env = _field_intervals(repo, folder, cls, init)
        rets = [n for n in walk_no_nested(gl.node) if isinstance(n, ast.Return) and n.value is not None]
        ctx.require(len(rets) == 1, "%s.get_length: expected a single return" % cname)
        iv = _interval(rets[0].value, env)
        ctx.require(iv is not None, "%s.get_length: expression %s is outside the interval fragment" % (cname, ast.unparse(rets[0].value)))
        ctx.check("length>=2", cname, iv[0] >= 2, gl, "%s.get_length lower bound %d" % (cname, iv[0]),
                  "%s.get_length() can be %d: the sweep would not advance" % (cname, iv[0]), detail="get_length() in [%d, %d]" % iv)


def _field_intervals(repo, folder, cls, init):
    """run the constructor on a symbolic buffer and read the ranges of the unpacked header fields"""
    it = Interp(repo, folder, asg={}, unknown_cond="split")
    o = it.new_obj(cls)
    env = {}
    try:
        def r(asg):
            it2 = Interp(repo, folder, asg=dict(asg))
            it2.max_split = 0
            o2 = it2.new_obj(cls)
            # stop after the header: a zero-length buffer tail makes the payload loops trivial is not possible
            # -> interpret only the statements up to and including the first unpack
            e = {"self": o2, "cm": Sym("cm"), "buff": BufV("buff"), "__func__": init}
            for s in init.node.body:
                it2.exec_stmt(s, e, init)
                if "unpack" in ast.unparse(s):
                    break
            return o2
        res = explore(r)
        o = res[0][1]
    except AnalysisError:
        raise
    for k, v in o.attrs.items():
        if isinstance(v, Bits):
            w = v.width()
            if v.ext == 0:
                env["self." + k] = (v.value(), v.value()) if v.is_const() else (0, (1 << w) - 1)
        elif isinstance(v, int) and not isinstance(v, bool):
            env["self." + k] = (v, v)
    return env


# --------------------------------------------------------------------------- (c)(d)
_ALLOWED_LEN_OPS = (ast.Add, ast.Mult, ast.FloorDiv, ast.Mod)


def _payloads(ctx, repo, folder, m):
    grids = {
        "PackedSwitch": (0x0100, [dict(size=s) for s in (0, 1, 2, 3, 5)]),
        "SparseSwitch": (0x0200, [dict(size=s) for s in (0, 1, 2, 3, 5)]),
        "FillArrayData": (0x0300, [dict(size=s, width=w) for s in (0, 1, 2, 3, 4, 7) for w in (1, 2, 3, 4, 8)]),
    }
    spec_len = {
        "PackedSwitch": lambda p: 8 + 4 * p["size"],
        "SparseSwitch": lambda p: 4 + 8 * p["size"],
        "FillArrayData": lambda p: 8 + 2 * ((p["size"] * p["width"] + 1) // 2),
    }
    for cname, (ident, grid) in grids.items():
        cls = m.cls(cname)
        init, gl, gr = cls.lookup("__init__"), cls.lookup("get_length"), cls.lookup("get_raw")
        for f in (init, gl, gr):
            ctx.require(f is not None, "%s: constructor/get_length/get_raw vanished" % cname)
            ctx.analysed(f)
        # fragment check: the length arithmetic uses only + * //const %const over fields
        for f in (init, gl):
            for n in walk_no_nested(f.node):
                if isinstance(n, ast.BinOp) and isinstance(n.op, ast.Mod) and isinstance(n.left, (ast.Constant, ast.JoinedStr)) and isinstance(getattr(n.left, "value", None), str):
                    continue  # string formatting, not arithmetic
                if isinstance(n, ast.BinOp) and isinstance(n.op, (ast.FloorDiv, ast.Mod)):
                    c = folder.fold(n.right, m)
                    ctx.require(isinstance(c, int) and c in (1, 2), "%s: %s leaves the affine-with-parity fragment" % (f.qualname, ast.unparse(n)))
                if isinstance(n, ast.BinOp) and isinstance(n.op, (ast.Pow, ast.LShift, ast.RShift, ast.Div)) and "size" in ast.unparse(n):
                    raise AnalysisError("%s: %s leaves the affine-with-parity fragment" % (f.qualname, ast.unparse(n)))
        for p in grid:
            ctx.count("payload_cases")
            need = spec_len[cname](p)
            hdr = _header_bytes(cname, ident, p)
            inst = "%s %s" % (cname, " ".join("%s=%d" % kv for kv in sorted(p.items())))
            # full buffer
            r = _run_payload(repo, folder, cls, init, gl, gr, hdr, need + 10)
            if isinstance(r, Raised):
                ctx.check("payload-size", inst, False, init, "%s raises" % cname, "%s raises %s on a complete payload (%s)" % (cname, r, inst), node=r.node)
            else:
                consumed, length, raw, _fields = r
                ok = consumed == need and length == need
                ctx.check("payload-size", inst, ok, gl if length != need else init, "%s size agreement" % cname,
                          "%s: constructor reads %s bytes, get_length() is %s, the Dalvik payload is %d bytes" % (inst, consumed, show(length), need),
                          detail="consumed == get_length() == %d" % need)
                if isinstance(raw, (Sym,)) or (not isinstance(raw, BytesV) and raw is not None and not isinstance(raw, (bytes, bytearray, int, str, list, tuple))):
                    raise AnalysisError("%s.get_raw(): result %s is outside the interpreter's fragment" % (cname, show(raw)[:160]))
                rok = isinstance(raw, BytesV) and len(raw.bytes) == need
                why = ""
                if rok:
                    for k in range(need):
                        exp = hdr.get(k)
                        for i in range(8):
                            e = ((exp >> i) & 1) if exp is not None else ("s", k, i)
                            if raw.bytes[k][i] != e:
                                rok = False
                                why = "byte %d bit %d is %s, input is %s" % (k, i, raw.bytes[k][i], e)
                                break
                        if not rok:
                            break
                else:
                    why = "get_raw() is %s, expected %d bytes" % (show(raw), need)
                ctx.check("payload-raw", inst, rok, gr, "%s re-encoding" % cname,
                          "%s: get_raw() does not reproduce the payload bytes: %s" % (inst, why), detail="get_raw() == the %d input bytes" % need)
            # field meaning: keys/targets/first_key are signed 32-bit values at their payload offsets
            if not isinstance(r, Raised):
                _payload_fields(ctx, cls, cname, inst, p, r[3], init)
            # truncated buffers: must raise
            for avail in sorted({need - 1, need - 2, max(need - 4, 0), 8, 6} - {need}):
                if avail < 0 or avail >= need:
                    continue
                if avail < (8 if cname != "SparseSwitch" else 4):
                    continue  # header itself short: struct.error from the fixed-format unpack (covered by the interpreter's slice rule)
                ctx.count("truncation_cases")
                r = _run_payload(repo, folder, cls, init, gl, gr, hdr, avail)
                ok = isinstance(r, Raised) and (r.exc.endswith("InvalidInstruction") or r.exc.endswith("error"))
                got = "raises %s" % r if isinstance(r, Raised) else "returns an instruction of length %s (re-encodes to %s bytes)" % (
                    show(r[1]), len(r[2].bytes) if isinstance(r[2], BytesV) else "?")
                ctx.check("truncation", "%s on %d of %d bytes" % (inst, avail, need), ok, init, "%s truncated payload accepted" % cname,
                          "%s over a buffer of %d bytes (payload needs %d): constructor %s; a payload that does not lie inside the code must be an invalid instruction" % (
                              inst, avail, need, got),
                          witness={"payload": inst, "available": avail, "needed": need}, detail="raises on %d of %d bytes" % (avail, need))
    ctx.floor("payload_cases", 30)
    ctx.floor("truncation_cases", 30)


def _s32(off):
    return Bits.source([("s", off + k, i) for k in range(4) for i in range(8)], True)


def _payload_fields(ctx, cls, cname, inst, p, fields, init):
    """Dalvik: packed-switch-payload first_key int, targets int[size]; sparse-switch-payload keys int[size], targets int[size]
    (all signed 32-bit, branch targets relative to the switch opcode)"""
    n = p["size"]
    if cname == "PackedSwitch":
        exp = {"get_targets": [_s32(8 + 4 * i) for i in range(n)]}
        fk = fields.get("first_key")
        ctx.check("payload-fields", inst + " first_key", isinstance(fk, Bits) and fk == _s32(4), init, "PackedSwitch.first_key",
                  "%s: first_key is %s; the payload defines a signed 32-bit value at bytes 4..7" % (inst, show(fk)[:160]),
                  detail="first_key = signed bytes 4..7")
        gk = fields.get("get_keys")
        if isinstance(gk, list) and n:
            # keys are first_key + i
            from ..absint import Lin
            ok = len(gk) == n
            for i, k in enumerate(gk if ok else []):
                l = Lin.of(k) if not isinstance(k, Lin) else k
                want = Lin({_s32(4): 1}, i).simplify()
                want = Lin.of(want) if not isinstance(want, Lin) else want
                if l is None or l != want:
                    ok = False
            ctx.check("payload-fields", inst + " keys", ok, cls.lookup("get_keys"), "PackedSwitch.get_keys",
                      "%s: get_keys() is %s; expected first_key + 0..size-1" % (inst, show(gk)[:200]), detail="keys = first_key + i")
    elif cname == "SparseSwitch":
        exp = {"get_keys": [_s32(4 + 4 * i) for i in range(n)], "get_targets": [_s32(4 + 4 * n + 4 * i) for i in range(n)]}
    else:
        return
    for g, want in exp.items():
        got = fields.get(g)
        if isinstance(got, Sym):
            raise AnalysisError("%s.%s(): result %s is outside the interpreter's fragment" % (cname, g, show(got)[:120]))
        ok = isinstance(got, (list, tuple)) and len(got) == len(want) and all(isinstance(a, Bits) and a == b for a, b in zip(got, want))
        bad = ""
        if not ok and isinstance(got, (list, tuple)) and len(got) == len(want):
            for i, (a, b) in enumerate(zip(got, want)):
                if not (isinstance(a, Bits) and a == b):
                    bad = "entry %d is %s, the payload defines %s" % (i, show(a)[:120], b.describe())
                    break
        ctx.check("payload-fields", "%s %s" % (inst, g), ok, cls.lookup(g) or init, "%s.%s" % (cname, g),
                  "%s: %s() does not return the signed 32-bit table entries of the payload: %s" % (inst, g, bad or show(got)[:200]),
                  detail="%s = signed 32-bit entries at their payload offsets" % g)


def _header_bytes(cname, ident, p):
    import struct
    if cname == "FillArrayData":
        b = struct.pack("<HHI", ident, p["width"], p["size"])
    else:
        b = struct.pack("<HH", ident, p["size"])
    return dict(enumerate(b))


def _run_payload(repo, folder, cls, init, gl, gr, hdr, avail):
    asg = {}
    for k, byte in hdr.items():
        for i in range(8):
            asg[("s", k, i)] = (byte >> i) & 1

    def r(extra):
        it = Interp(repo, folder, asg={**asg, **extra})
        it.max_split = 4
        o = it.new_obj(cls)
        buf = BufV("buff", 0, avail)
        it.call_function(init, [Sym("cm"), buf], recv=o)
        consumed = 0
        for ev in it.events:
            if ev[0] == "unpack":
                consumed = max(consumed, ev[1][2] + ev[1][3])
        for v in o.attrs.values():
            if isinstance(v, BufV) and v.length is not None:
                consumed = max(consumed, v.start + v.length)
        length = it.call_function(gl, [], recv=o)
        if isinstance(length, Bits) and length.is_const():
            length = length.value()
        raw = it.call_function(gr, [], recv=o)
        fields = {}
        for g in ("get_keys", "get_targets", "get_values", "get_data"):
            fn = cls.lookup(g)
            if fn is not None:
                try:
                    fields[g] = it.call_function(fn, [], recv=o)
                except Raised as ex:
                    fields[g] = ex
        fields["first_key"] = o.attrs.get("first_key")
        return consumed, length, raw, fields

    res = explore(r)
    if len(res) != 1:
        raise AnalysisError("%s: payload interpretation split into %d paths" % (cls.name, len(res)))
    return res[0][1]


# --------------------------------------------------------------------------- (e)
def _offsets(ctx, m):
    dcode = m.cls("DCode")
    for name in ("off_to_pos", "get_ins_off"):
        f = dcode.lookup(name)
        ctx.require(f is not None, "DCode.%s vanished" % name)
        ctx.analysed(f)
        loops = [n for n in walk_no_nested(f.node) if isinstance(n, ast.For)]
        ok = False
        why = "no loop over self.get_instructions()"
        for lp in loops:
            if "get_instructions" not in ast.unparse(lp.iter):
                continue
            var = ast.unparse(lp.target)
            want = "%s.get_length()" % var
            incs = []
            for n in ast.walk(lp):
                if isinstance(n, ast.AugAssign) and isinstance(n.op, ast.Add) and ast.unparse(n.value) == want:
                    incs.append(n)
                elif isinstance(n, ast.Assign) and len(n.targets) == 1 and isinstance(n.value, ast.BinOp) and isinstance(n.value.op, ast.Add):
                    t = ast.unparse(n.targets[0])
                    l, r = ast.unparse(n.value.left), ast.unparse(n.value.right)
                    if (l == t and r == want) or (r == t and l == want):
                        incs.append(n)
            if not incs:
                why = "offset is not advanced by %s.get_length()" % var
                continue
            acc = ast.unparse(incs[0].target if isinstance(incs[0], ast.AugAssign) else incs[0].targets[0])
            tests = [n for n in lp.body if isinstance(n, ast.If) and isinstance(n.test, ast.Compare) and isinstance(n.test.ops[0], ast.Eq) and acc in (ast.unparse(n.test.left), ast.unparse(n.test.comparators[0]))]
            if not tests:
                why = "no `%s == off` test" % acc
                continue
            # the comparison happens before the increment in the loop body
            order_ok = lp.body.index(tests[0]) < min(lp.body.index(x) for x in lp.body if any(y is incs[0] for y in ast.walk(x)))
            init0 = any(isinstance(n, ast.Assign) and ast.unparse(n.targets[0]) == acc and isinstance(n.value, ast.Constant) and n.value.value == 0 for n in f.node.body)
            ok = order_ok and init0
            why = "offset compared after being advanced, or not started at 0"
        ctx.check("offsets", "DCode.%s" % name, ok, f, "DCode.%s accumulator" % name, "DCode.%s does not walk instruction offsets as the sweep defines them: %s" % (name, why))


MUTATION_TARGETS = [(DEX, "LinearSweepAlgorithm.get_instructions"), (DEX, "get_instruction_payload"),
                    (DEX, "FillArrayData.__init__"), (DEX, "FillArrayData.get_length"), (DEX, "FillArrayData.get_raw"),
                    (DEX, "SparseSwitch.__init__"), (DEX, "SparseSwitch.get_length"), (DEX, "SparseSwitch.get_raw"),
                    (DEX, "PackedSwitch.__init__"), (DEX, "PackedSwitch.get_length"), (DEX, "PackedSwitch.get_raw"),
                    (DEX, "DCode.off_to_pos"), (DEX, "DCode.get_ins_off")]
