#!/venv/bin/python
"""print the prompt for an independent agent that writes behaviour-PRESERVING refactorings (false-alarm probes)"""
import json, sys
pid = sys.argv[1]
for l in open('/verif/properties.jsonl'):
    p = json.loads(l)
    if p['id'] == pid:
        break
a = p['anchors']
mech = "\n".join("  - %s (%s)" % (m['name'], m['where']) for m in a['mechanism'])
print(f"""You are a maintainer of the Python project androguard (a parser for Android DEX/APK/AXML/ARSC files with bytecode
analysis and a decompiler). You have your own scratch git worktree of the repository at /tmp/ben_{pid} (already created; the package
is ./androguard, tests are ./tests, run python as /venv/bin/python). Work ONLY inside /tmp/ben_{pid} and write your results to
/tmp/ben_out/{pid}/. Do NOT read, list or use anything under /verif, and do not touch /repo.

Context: the following property of the code base must keep holding:

  {p['id']}: {p['title']}
  Statement: {p['statement']}
  Code the property is anchored in: {', '.join(a['files'])}
{mech}

Your task: produce THREE independent, realistic, BEHAVIOUR-PRESERVING refactorings (variant A, B, C) of the anchored code — the kind
of clean-up a maintainer would really commit: e.g. extract a helper function or method, inline one, rename locals/private attributes,
reorder independent statements, replace a loop by a comprehension (or vice versa), restructure if/elif chains or use early returns,
replace an expression by an equivalent one (`(x >> 8) & 0xF` vs `(x & 0xF00) >> 8`, `not a or not b` vs `not (a and b)`, `%`-formatting
vs str.format vs f-string), hoist a constant, use a lookup table instead of an if-chain, add type hints/docstrings/logging, split a
long function. Each variant should touch the functions named above (not unrelated code) and should change their *shape* substantially
while keeping the observable behaviour of every public API exactly the same for ALL inputs (including malformed ones: same exceptions).
Make the three variants different in kind. Do not fix bugs and do not change behaviour, however slightly.
For each variant:
  (1) the package must import and the full test suite must give exactly the same per-test outcomes as on the pristine tree
      (`cd /tmp/ben_{pid} && /venv/bin/python -m pytest -q -p no:cacheprovider --timeout=900 -rf tests 2>&1 | tail -15`; a few tests fail
      in any worktree because large APKs are missing - that is the baseline),
  (2) write a differential demo /tmp/ben_out/{pid}/demo.py (one script for all variants) that exercises the refactored functions through the
      public API on a broad set of inputs (boundary values, random values with a fixed seed, malformed inputs) and prints a deterministic
      digest (e.g. sha256 of the repr of all results/exceptions). Run it on the pristine tree and with each variant applied: the digests
      must be identical. It is run as `cd <worktree> && /venv/bin/python /tmp/ben_out/{pid}/demo.py` and must import androguard from the
      current directory (insert os.getcwd() at the front of sys.path).
Deliverables in /tmp/ben_out/{pid}/: variant_A.diff, variant_B.diff, variant_C.diff (`git diff` against the pristine HEAD, each applies on its
own to a clean tree), demo.py, meta.json {{"property": "{pid}", "digest_original": "...", "variants": {{"A": {{"summary": "...", "kind": "...",
"files": [...], "digest": "...", "tests": "..."}}, ...}}}}. Leave the worktree clean (`git checkout -- .`). Reply with a 3-line summary per variant.""")
