"""Bit-provenance domain for Python ints.

A value is a fixed-length tuple of N abstract bits (bit N-1 is the bit that
repeats to infinity -- the sign extension).  An abstract bit is
  0 | 1 | ('s', word, i) | ('n', word, i)   (source bit / negated source bit) | 'T' (unknown)
"""
from __future__ import annotations

N = 192
TOP = "T"


def _not(b):
    if b == 0:
        return 1
    if b == 1:
        return 0
    if b == TOP:
        return TOP
    return (("n" if b[0] == "s" else "s"),) + b[1:]


def _and(a, b):
    if a == 0 or b == 0:
        return 0
    if a == 1:
        return b
    if b == 1:
        return a
    if a == TOP or b == TOP:
        return TOP
    if a == b:
        return a
    if a == _not(b):
        return 0
    return TOP


def _or(a, b):
    if a == 1 or b == 1:
        return 1
    if a == 0:
        return b
    if b == 0:
        return a
    if a == TOP or b == TOP:
        return TOP
    if a == b:
        return a
    if a == _not(b):
        return 1
    return TOP


def _xor(a, b):
    if a == 0:
        return b
    if b == 0:
        return a
    if a == 1:
        return _not(b)
    if b == 1:
        return _not(a)
    if a == TOP or b == TOP:
        return TOP
    if a == b:
        return 0
    if a == _not(b):
        return 1
    return TOP


class Bits:
    __slots__ = ("b", "_si")

    def __init__(self, b):
        assert len(b) == N
        self.b = tuple(b)
        self._si = None

    # ---- constructors -----------------------------------------------
    @staticmethod
    def const(v: int):
        return Bits([(v >> i) & 1 for i in range(N)])

    @staticmethod
    def source(bitlist, signed):
        """bitlist: abstract bits low first (width w); zero- or sign-extended"""
        w = len(bitlist)
        ext = bitlist[-1] if signed else 0
        return Bits(list(bitlist) + [ext] * (N - w))

    @staticmethod
    def top():
        return Bits([TOP] * N)

    # ---- queries ----------------------------------------------------
    @property
    def ext(self):
        return self.b[-1]

    def is_const(self):
        return all(x in (0, 1) for x in self.b)

    def value(self):
        assert self.is_const()
        v = 0
        for i, x in enumerate(self.b[:-1]):
            v |= x << i
        if self.b[-1]:
            v -= 1 << (N - 1)
        return v

    def has_top(self):
        return any(x == TOP for x in self.b)

    def sources(self):
        out = []
        for x in self.b:
            if isinstance(x, tuple):
                k = ("s",) + x[1:]
                if k not in out:
                    out.append(k)
        return out

    def width(self):
        """smallest w such that bits >= w-1 ... all equal bits[w-1] pattern: returns index after
        which everything equals ext (i.e. number of 'significant' bits incl. one ext copy)"""
        i = N - 1
        while i > 0 and self.b[i - 1] == self.b[-1]:
            i -= 1
        return i  # bits[i:] are all == ext

    def fits_unsigned(self, nbits):
        return self.ext == 0 and all(x == 0 for x in self.b[nbits:])

    def fits_signed(self, nbits):
        s = self.b[nbits - 1]
        return all(x == s for x in self.b[nbits - 1:]) and s != TOP

    def low(self, nbits):
        return self.b[:nbits]

    # ---- operations ---------------------------------------------------
    def __and__(self, o):
        return Bits([_and(x, y) for x, y in zip(self.b, o.b)])

    def __or__(self, o):
        return Bits([_or(x, y) for x, y in zip(self.b, o.b)])

    def __xor__(self, o):
        return Bits([_xor(x, y) for x, y in zip(self.b, o.b)])

    def __invert__(self):
        return Bits([_not(x) for x in self.b])

    def shl(self, k):
        if k < 0 or k >= N:
            return Bits.top()
        return Bits([0] * k + list(self.b[: N - k]))

    def shr(self, k):
        if k < 0:
            return Bits.top()
        if k >= N:
            return Bits([self.ext] * N)
        return Bits(list(self.b[k:]) + [self.ext] * k)

    def add(self, o):
        if self.is_const() and o.is_const():
            return Bits.const(self.value() + o.value())
        # exact when supports are disjoint: then + is |
        if all(x == 0 or y == 0 for x, y in zip(self.b, o.b)):
            return self | o
        # x + (-2**k) where x < 2**(k+1) and bit k of x is a single literal L:
        # L = 1 -> bit k cleared; L = 0 -> borrow ripples through the (zero) upper bits: all ones
        for x, c in ((self, o), (o, self)):
            if c.is_const():
                v = c.value()
                if v < 0 and (-v) & (-v - 1) == 0:
                    k = (-v).bit_length() - 1
                    if all(b == 0 for b in x.b[k + 1:]) and x.b[k] != TOP:
                        nb = _not(x.b[k])
                        return Bits(list(x.b[:k]) + [nb] * (N - k))
        return None

    def sub(self, o):
        """self - o, exact cases only (None otherwise)"""
        if o.is_const():
            return self.add(Bits.const(-o.value()))
        # (x & (S-1)) - (x & S), S = 2**k: o has one (literal) bit at position k, self is zero from k upwards.
        # -(b << k) is b replicated from bit k upwards in two's complement, and adding self (below k) produces no carry.
        nz = [i for i, x in enumerate(o.b) if x != 0]
        if len(nz) == 1 and o.b[nz[0]] != TOP:
            k = nz[0]
            if all(x == 0 for x in self.b[k:]):
                return Bits(list(self.b[:k]) + [o.b[k]] * (N - k))
        # x - (x & m) == x & ~m when both are the same literals on m
        if all(y == 0 or y == x for x, y in zip(self.b, o.b)) and not o.has_top():
            return Bits([0 if y != 0 else x for x, y in zip(self.b, o.b)])
        return None

    def neg(self):
        if self.is_const():
            return Bits.const(-self.value())
        return None

    def subst(self, asg):
        if not asg:
            return self
        si = self._si
        if si is None:
            si = self._si = tuple(i for i, x in enumerate(self.b) if isinstance(x, tuple))
        if not si:
            return self
        out = None
        b = self.b
        for i in si:
            x = b[i]
            k = x if x[0] == "s" else ("s",) + x[1:]
            v = asg.get(k)
            if v is not None:
                if out is None:
                    out = list(b)
                out[i] = v if x[0] == "s" else 1 - v
        return self if out is None else Bits(out)

    def __eq__(self, o):
        return isinstance(o, Bits) and self.b == o.b

    def __hash__(self):
        return hash(self.b)

    def describe(self):
        """human readable: fields of contiguous source runs"""
        if self.is_const():
            v = self.value()
            return hex(v) if abs(v) > 9 else str(v)
        w = self.width()
        parts = []
        i = 0
        bs = self.b
        while i < w:
            x = bs[i]
            if isinstance(x, tuple):
                j = i
                while (j + 1 < w and isinstance(bs[j + 1], tuple) and bs[j + 1][0] == x[0]
                       and bs[j + 1][1] == x[1] and bs[j + 1][2] == bs[j][2] + 1):
                    j += 1
                parts.append("[%d:%d]=%s%s[%d:%d]" % (i, j + 1, "~" if x[0] == "n" else "", _wname(x[1]), x[2], bs[j][2] + 1))
                i = j + 1
            else:
                j = i
                while j + 1 < w and bs[j + 1] == x:
                    j += 1
                parts.append("[%d:%d]=%s" % (i, j + 1, x))
                i = j + 1
        e = self.ext
        if isinstance(e, tuple):
            es = "sign=%s%s.%d" % ("~" if e[0] == "n" else "", _wname(e[1]), e[2])
        else:
            es = "ext=%s" % e
        return " ".join(parts) + " " + es


def _wname(w):
    return "byte%d" % w if isinstance(w, int) else str(w)


def bits_relation(got, exp):
    """'equal' | 'different' (some bit is known on both sides and differs) | 'unknown' (only unknown bits stand in the way)"""
    unknown = False
    for g, e in zip(got.b, exp.b):
        if g == e:
            continue
        if g == TOP or e == TOP:
            unknown = True
            continue
        return "different"
    return "unknown" if unknown else "equal"


def src_byte(k):
    return [("s", k, i) for i in range(8)]


def field_bits(byte_bits, signed):
    """byte_bits: list of per-byte bit lists, little endian"""
    flat = [b for by in byte_bits for b in by]
    return Bits.source(flat, signed)


_FMT = {"b": (1, True), "B": (1, False), "h": (2, True), "H": (2, False), "i": (4, True), "I": (4, False),
        "l": (4, True), "L": (4, False), "q": (8, True), "Q": (8, False), "x": (1, None), "c": (1, None), "s": (1, None), "f": (4, "float"), "d": (8, "float")}


def parse_format(fmt):
    """'<BBh' -> (endian, [(code, size, signed)], total) ; only standard-size little endian understood"""
    endian = "@"
    i = 0
    if fmt and fmt[0] in "<>=!@":
        endian = fmt[0]
        i = 1
    slots = []
    cnt = ""
    while i < len(fmt):
        c = fmt[i]
        i += 1
        if c.isdigit():
            cnt += c
            continue
        if c.isspace():
            continue
        if c not in _FMT:
            raise ValueError("format char %r" % c)
        n = int(cnt) if cnt else 1
        cnt = ""
        size, signed = _FMT[c]
        if c == "s":
            slots.append(("s", n, None))
        else:
            for _ in range(n):
                slots.append((c, size, signed))
    total = sum(s[1] for s in slots)
    return endian, slots, total
