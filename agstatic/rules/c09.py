"""C09 -- corrupted or non-DEX input is rejected at the header, before any structure is parsed.

Rule (CFG path rule + provenance, nothing is executed):
(1) roles.  In HeaderItem.__init__ the one `unpack` of `<buffer param>.read(N)` is located;
    its format literal is laid out with struct.calcsize and the targets that receive the bytes
    at offsets 0 (magic, 8s), 8 (checksum, u32), 36 (header_size, u32) are the *role holders*
    (found by offset, not by name).  `read_at` (androguard/util.py) is symbolically executed
    once to establish that it returns `size` bytes from `offset` (default size -1 = to EOF)
    and restores the position.
(2) guards.  For each of size / magic / checksum / header_size there must be an `if` whose
    test, evaluated with the checker's own semantics at every point of a finite partition of
    the wrong values (all lengths 0..0x6f; every wrong byte at the magic positions 0,1,2,3,7;
    every order type of (adler32, checksum, constants of the test); every cell of the integer
    partition induced by the constants for header_size), selects an arm from which the normal
    exit of the function is unreachable in the CFG, and which lies on every path entry->exit.
    A guard inside a `try` whose handler may catch the exception and does not re-raise fails.
(3) checksum operand: adler32 is applied to read_at(buffer, offset+12) with no size (to EOF)
    and compared with the checksum role holder.
(4) endian tag: DalvikPacker.__init__ is executed path by path for every cell of the integer
    partition induced by its constants: 0x12345678 falls through, every other value raises
    (NotImplementedError/ValueError); HeaderItem.__init__ calls it on every path to the exit
    with the little-endian u32 read at header offset 40.
(5) ordering: in DEX._load the HeaderItem(...) statement lies on every path to the exit and
    dominates every other construction of a class that reads a buffer and every use of the
    buffer; DEX.__init__ reaches _load on every path, with nothing reading the buffer before;
    neither call sits in a `try` that swallows ValueError/NotImplementedError.
"""
from __future__ import annotations

import ast
import re
import struct

from ..cfg import CFG, raises_only
from ..model import DEX, AnalysisError, norm, parent, walk_no_nested
from ..pathkit import (Ev, truths, NotEvaluable, Opaque, Defs, reach, branch_edges, swallowed_by,
                       non_catching_handlers, int_consts, order_points, exec_path, stmt_of,
                       run_mutants, rename_locals, flip_ifs, neq_to_not_eq)

UTIL = "androguard/util.py"

# ---- specification (Dalvik executable format, header_item) -------------------------------
HEADER_LEN = 0x70
OFF_MAGIC, OFF_CHECKSUM, OFF_HEADER_SIZE, OFF_ENDIAN = 0, 8, 36, 40
CHECKSUM_FROM = 12
ENDIAN_CONSTANT = 0x12345678
GOOD_MAGICS = [b"dex\n035\x00", b"dey\n036\x00"]
MAGIC_CONSTRAINED = {0: {0x64}, 1: {0x65}, 2: {0x78, 0x79}, 3: {0x0A}, 7: {0x00}}
REJECT_EXC = ("ValueError", "NotImplementedError")


def _fmt_slots(fmt):
    """'<8sI20s20I' -> [(offset, size, code)] one entry per unpacked value"""
    order = fmt[0] if fmt and fmt[0] in "<>=!@" else ""
    body = fmt[len(order):]
    if order not in ("<",):
        raise AnalysisError("header format %r is not explicitly little-endian" % fmt)
    out = []
    pos = 0
    for cnt, code in re.findall(r"\s*(\d*)([xcbB?hHiIlLqQefdsp])", body):
        n = int(cnt) if cnt else 1
        if code in "sp":
            out.append((pos, n, code))
            pos += n
        elif code == "x":
            pos += n
        else:
            sz = struct.calcsize("<" + code)
            for _ in range(n):
                out.append((pos, sz, code))
                pos += sz
    if pos != struct.calcsize(fmt):
        raise AnalysisError("cannot lay out format %r" % fmt)
    return out


def _root_name(e):
    while True:
        if isinstance(e, ast.Name):
            return e.id
        if isinstance(e, ast.Attribute):
            e = e.value
        elif isinstance(e, ast.Call):
            e = e.func
        elif isinstance(e, ast.Subscript):
            e = e.value
        else:
            return None


def _mentions(expr, keys):
    return [n for n in ast.walk(expr) if isinstance(n, ast.expr) and ast.unparse(n) in keys]


class Core:
    def __init__(self, ctx):
        self.ctx = ctx
        self.m = ctx.mod(DEX)
        self.util = ctx.mod(UTIL)

    # ------------------------------------------------------------------ read_at contract
    def check_read_at(self):
        ctx = self.ctx
        r = self.m.resolve_name("read_at")
        ctx.require(r is not None and r[0] == "func", "anchor vanished: read_at is not a repository function")
        f = r[1]
        self.read_at = f
        ctx.analysed(f)
        a = f.node.args
        names = [x.arg for x in a.args]
        ctx.require(len(names) == 3 and len(a.defaults) >= 1, "read_at(buff, offset, size=...) signature changed")
        pb, po, ps = names
        dflt = a.defaults[-1]
        self.read_at_params = names
        pos = "POS0"
        saved = {}
        result = None
        ret = None
        for s in f.node.body:
            if isinstance(s, ast.Expr) and isinstance(s.value, ast.Constant):
                continue
            call = s.value if isinstance(s, (ast.Assign, ast.Expr)) else (s.value if isinstance(s, ast.Return) else None)
            if isinstance(s, ast.Return):
                if isinstance(s.value, ast.Name) and s.value.id in saved:
                    ret = saved[s.value.id]
                elif isinstance(s.value, ast.Call) and ast.unparse(s.value.func) == pb + ".read":
                    raise AnalysisError("read_at returns without restoring the position (outside the analysed shape)")
                else:
                    raise AnalysisError("read_at: unexpected return %s" % ast.unparse(s))
                continue
            if not (isinstance(call, ast.Call) and isinstance(call.func, ast.Attribute) and ast.unparse(call.func.value) == pb):
                raise AnalysisError("read_at: statement outside the straight-line tell/seek/read shape: %s" % norm(s))
            meth = call.func.attr
            arg = ast.unparse(call.args[0]) if call.args else None
            if meth == "tell":
                val = pos
            elif meth == "seek":
                pos = saved.get(arg, arg)
                val = None
            elif meth == "read":
                val = ("read", pos, arg)
                pos = "AFTER"
            else:
                raise AnalysisError("read_at: unknown buffer call %s" % meth)
            if isinstance(s, ast.Assign) and len(s.targets) == 1 and isinstance(s.targets[0], ast.Name):
                saved[s.targets[0].id] = val
        ok = ret == ("read", po, ps) and pos == "POS0"
        ctx.check("read_at", "read_at returns buff[offset:offset+size] and restores the position", ok, f, f.node.name,
                  "read_at no longer returns `size` bytes from `offset` with the position restored (got %r, final position %r)" % (ret, pos),
                  detail="symbolic run: returns read(start=%s, size=%s), position restored" % (po, ps))
        dv = None
        try:
            dv = Ev()(dflt)
        except NotEvaluable:
            pass
        self.read_at_default_to_eof = dv in (-1, None)
        ctx.check("read_at", "default size reads to EOF", self.read_at_default_to_eof, f, "size=%s" % ast.unparse(dflt),
                  "read_at's default size is %s, not -1: callers that omit it no longer read to the end of the buffer" % ast.unparse(dflt),
                  detail="default size = %s" % ast.unparse(dflt))

    def read_at_call(self, call):
        """-> (buffer expr, offset expr, size expr|None) if `call` calls read_at"""
        if not (isinstance(call, ast.Call) and isinstance(call.func, ast.Name)):
            return None
        r = self.m.resolve_name(call.func.id)
        if not (r and r[0] == "func" and r[1] is self.read_at):
            return None
        vals = dict(zip(self.read_at_params, call.args))
        for k in call.keywords:
            vals[k.arg] = k.value
        pb, po, ps = self.read_at_params
        return vals.get(pb), vals.get(po), vals.get(ps)

    # ------------------------------------------------------------------ DalvikPacker
    def check_packer(self):
        ctx = self.ctx
        pk = self.m.func("DalvikPacker.__init__")
        ctx.analysed(pk)
        params = pk.params()
        ctx.require(len(params) == 2, "DalvikPacker.__init__(self, endian_tag) signature changed")
        tag = params[1]
        consts = set()
        for n in walk_no_nested(pk.node):
            if isinstance(n, ast.If):
                consts |= int_consts(n.test)
        pts = order_points(consts | {ENDIAN_CONSTANT, 0x78563412}, extra=(0xFFFFFFFF,))
        attrs = {}
        body = [s for s in pk.node.body if not (isinstance(s, ast.Expr) and isinstance(s.value, ast.Constant))]
        bad = []
        outcomes = {}
        for v in pts:
            if v > 0xFFFFFFFF:
                continue
            attrs.clear()

            def on_assign(s, ev, attrs=attrs):
                for t in s.targets:
                    if isinstance(t, ast.Attribute) and isinstance(s.value, ast.Constant):
                        attrs[ast.unparse(t)] = s.value.value
            try:
                r = exec_path(body, Ev({tag: v}), on_assign)
            except NotEvaluable as e:
                raise AnalysisError("DalvikPacker.__init__ left the analysable fragment (%s)" % e)
            outcomes[v] = r
            if v == ENDIAN_CONSTANT:
                ctx.count("guards")
                ctx.check("endian/accept", "endian_tag 0x12345678 is accepted", r[0] != "raise", pk, "endian_tag == 0x%08x" % v,
                          "DalvikPacker rejects the little-endian constant 0x12345678", node=r[2] if r[0] == "raise" else pk.node,
                          detail="path for 0x12345678 falls through; struct prefix attribute = %r" % dict(attrs))
                self.packer_prefix = dict(attrs)
            elif not (r[0] == "raise" and r[1] in REJECT_EXC):
                bad.append((v, r))
        sw = swallowed = None
        for n in walk_no_nested(pk.node):
            if isinstance(n, ast.Raise):
                sw = swallowed_by(n, pk.node, REJECT_EXC)
                if sw:
                    swallowed = n
        ctx.count("guards")
        wit = ["0x%08x -> %s" % (v, r[0] if r[0] != "raise" else "raise " + str(r[1])) for v, r in bad[:4]]
        ctx.check("endian/reject", "every endian_tag != 0x12345678 raises (%d cells of the constant partition)" % (len(outcomes) - 1),
                  not bad and not swallowed, pk, "endian_tag != 0x12345678",
                  "DalvikPacker.__init__ does not raise ValueError/NotImplementedError for endian tag(s): %s" % (", ".join(wit) or "raise is swallowed by an enclosing try"),
                  node=pk.node, witness=wit,
                  detail="cells evaluated: %s" % ", ".join("0x%x:%s" % (v, r[1] if r[0] == "raise" else r[0]) for v, r in sorted(outcomes.items())))
        # the prefix DalvikPacker hands to struct
        gi = self.m.func("DalvikPacker.__getitem__")
        pref = None
        for n in ast.walk(gi.node):
            if isinstance(n, ast.Call) and ast.unparse(n.func).endswith("Struct") and n.args and isinstance(n.args[0], ast.BinOp) \
                    and isinstance(n.args[0].op, ast.Add):
                key = ast.unparse(n.args[0].left)
                pref = getattr(self, "packer_prefix", {}).get(key)
                if pref is None:
                    # the accepting path was not found (already reported): fall back to the constants ever stored there
                    vals = {d[1].value for d in Defs(pk.node).of(key) if d[0] == "assign" and isinstance(d[1], ast.Constant)}
                    pref = vals.pop() if len(vals) == 1 else None
        self.packer_le = pref == "<"
        ctx.ob("endian/prefix", "DalvikPacker[fmt] is struct.Struct('<' + fmt) on the accepting path", self.packer_le,
               "prefix attribute constant on the accepting path: %r" % pref)
        ctx.require(self.packer_le, "DalvikPacker.__getitem__ no longer builds struct.Struct('<' + fmt): header layout cannot be derived")

    # ------------------------------------------------------------------ HeaderItem.__init__
    def _unpack_call(self, call):
        """-> (fmt, data_expr, via_packer) for the recognised spellings of struct unpacking"""
        if not isinstance(call, ast.Call):
            return None
        f = call.func
        if isinstance(f, ast.Attribute) and f.attr == "unpack" and len(call.args) == 1:
            if isinstance(f.value, ast.Subscript) and isinstance(f.value.slice, ast.Constant) and isinstance(f.value.slice.value, str):
                return "<" + f.value.slice.value, call.args[0], True
            if isinstance(f.value, ast.Call) and ast.unparse(f.value.func).endswith("Struct") and f.value.args \
                    and isinstance(f.value.args[0], ast.Constant):
                return f.value.args[0].value, call.args[0], False
        if (ast.unparse(f) in ("unpack", "struct.unpack")) and len(call.args) == 2 and isinstance(call.args[0], ast.Constant) \
                and isinstance(call.args[0].value, str):
            return call.args[0].value, call.args[1], False
        return None

    def roles_header(self):
        ctx = self.ctx
        hdr = self.hdr = self.m.func("HeaderItem.__init__")
        ctx.analysed(hdr)
        node = hdr.node
        self.hcfg = CFG(node)
        self.hdefs = Defs(node)
        params = hdr.params()
        # ---- the header unpack
        cands = []
        for n in walk_no_nested(node):
            if isinstance(n, ast.Assign) and isinstance(n.value, ast.Call):
                u = self._unpack_call(n.value)
                if u and isinstance(u[1], ast.Call) and isinstance(u[1].func, ast.Attribute) and u[1].func.attr == "read" \
                        and isinstance(u[1].func.value, ast.Name) and u[1].func.value.id in params:
                    cands.append((n, u))
        ctx.require(len(cands) == 1, "HeaderItem.__init__: expected exactly one unpack of <buffer>.read(N), found %d" % len(cands))
        self.unpack_stmt, (fmt, data, via_packer) = cands[0]
        self.buff = data.func.value.id
        slots = _fmt_slots(fmt)
        tgt = self.unpack_stmt.targets[0]
        ctx.require(isinstance(tgt, (ast.Tuple, ast.List)) and len(tgt.elts) == len(slots),
                    "header unpack: %d targets for %d format slots" % (len(getattr(tgt, "elts", [])), len(slots)))
        try:
            nread = Ev()(data.args[0]) if data.args else -1
        except NotEvaluable:
            raise AnalysisError("header unpack: read size is not a constant")
        ctx.require(nread == struct.calcsize(fmt), "header unpack reads %r bytes for a %d byte format" % (nread, struct.calcsize(fmt)))
        by_off = {o: (t, sz, code) for (o, sz, code), t in zip(slots, tgt.elts)}
        self.role = {}
        for name, off, sz, codes in (("magic", OFF_MAGIC, 8, "s"), ("checksum", OFF_CHECKSUM, 4, "IL"),
                                     ("header_size", OFF_HEADER_SIZE, 4, "IL"), ("endian_slot", OFF_ENDIAN, 4, "IL")):
            got = by_off.get(off)
            ok = got is not None and got[1] == sz and got[2] in codes
            ctx.check("layout", "header field %s at offset %d (%d bytes, unsigned)" % (name, off, sz), ok, hdr,
                      "%s @%d" % (name, off), "the header format %r has no unsigned %d-byte slot at offset %d for %s" % (fmt, sz, off, name),
                      node=self.unpack_stmt, detail="format %s -> %s receives bytes [%d,%d)" % (fmt, ast.unparse(got[0]) if got else "?", off, off + sz))
            if not ok:
                raise AnalysisError("header layout cannot be derived; guards cannot be attributed")
            self.role[name] = {ast.unparse(got[0])}
        if via_packer:
            ctx.require(self.packer_le, "header unpack goes through a packer whose prefix is unknown")
        # ---- offset role: T = buff.tell() dominating the unpack
        self.role["offset"] = set()
        for n in walk_no_nested(node):
            if isinstance(n, ast.Assign) and isinstance(n.value, ast.Call) and ast.unparse(n.value.func) == self.buff + ".tell":
                if self.hcfg.dominates(n, self.unpack_stmt) and not reach(self.hcfg, self.unpack_stmt, n):
                    for t in n.targets:
                        self.role["offset"].add(ast.unparse(t))
        # ---- buffer discipline: nothing else moves the position
        for c in (x for x in walk_no_nested(node) if isinstance(x, ast.Call)):
            if isinstance(c.func, ast.Attribute) and isinstance(c.func.value, ast.Name) and c.func.value.id == self.buff:
                if c.func.attr == "seek" or (c.func.attr == "read" and c is not data):
                    raise AnalysisError("HeaderItem.__init__ moves the buffer position (%s): outside the analysed fragment" % norm(c))
            elif any(isinstance(a, ast.Name) and a.id == self.buff for a in c.args) and self.read_at_call(c) is None:
                raise AnalysisError("HeaderItem.__init__ passes the buffer to %s: outside the analysed fragment" % norm(c.func))
        # ---- words read ahead with read_at
        self.words = {}
        for n in walk_no_nested(node):
            if isinstance(n, ast.Assign) and isinstance(n.value, (ast.Call, ast.Subscript)):
                call = n.value.value if isinstance(n.value, ast.Subscript) else n.value
                u = self._unpack_call(call)
                if not u:
                    continue
                ra = self.read_at_call(self._resolve(u[1]))
                if not ra:
                    continue
                t = n.targets[0]
                if isinstance(t, (ast.Tuple, ast.List)) and len(t.elts) == 1:
                    t = t.elts[0]
                elif not isinstance(n.value, ast.Subscript):
                    continue
                self.words[ast.unparse(t)] = (u[0], ra, n)
        # ---- aliases (x = <holder>)
        changed = True
        while changed:
            changed = False
            for n in walk_no_nested(node):
                if isinstance(n, ast.Assign) and len(n.targets) == 1 and isinstance(n.targets[0], (ast.Name, ast.Attribute)):
                    src, dst = ast.unparse(n.value), ast.unparse(n.targets[0])
                    for r, keys in self.role.items():
                        if src in keys and dst not in keys:
                            keys.add(dst)
                            changed = True
                    if src in self.words and dst not in self.words:
                        self.words[dst] = self.words[src]
                        changed = True
        for r, keys in self.role.items():
            for k in keys:
                if len(self.hdefs.of(k)) > 1:
                    raise AnalysisError("HeaderItem.__init__ assigns %s more than once: role tracking is flow-insensitive" % k)
        # ---- buffer size expressions
        self.role["nbytes"] = set()
        for n in walk_no_nested(node):
            if isinstance(n, ast.Attribute) and n.attr == "nbytes" and _root_name(n) == self.buff:
                self.role["nbytes"].add(ast.unparse(n))
            if isinstance(n, ast.Call) and ast.unparse(n.func) == "len" and n.args and _root_name(n.args[0]) == self.buff \
                    and ".read(" not in ast.unparse(n):
                self.role["nbytes"].add(ast.unparse(n))

    def _resolve(self, e, depth=3):
        """a local with a single plain assignment stands for the assigned expression"""
        while depth and isinstance(e, ast.Name):
            ds = self.hdefs.of(e.id)
            if len(ds) == 1 and ds[0][0] == "assign":
                e = ds[0][1]
                depth -= 1
            else:
                break
        return e

    def lin(self, e):
        """expression -> (k, c) meaning k*OFFSET + c"""
        if ast.unparse(e) in self.role["offset"]:
            return (1, 0)
        if isinstance(e, ast.Constant) and isinstance(e.value, int):
            return (0, e.value)
        if isinstance(e, ast.BinOp) and isinstance(e.op, (ast.Add, ast.Sub)):
            a, b = self.lin(e.left), self.lin(e.right)
            s = 1 if isinstance(e.op, ast.Add) else -1
            return (a[0] + s * b[0], a[1] + s * b[1])
        if isinstance(e, ast.Name):
            ds = self.hdefs.of(e.id)
            if len(ds) == 1 and ds[0][0] == "assign":
                return self.lin(ds[0][1])
        raise NotEvaluable("offset expression %s" % ast.unparse(e))

    def _self_const_call(self):
        """self.m() where HeaderItem.m is `return <constant expression>`"""
        cls = self.hdr.cls

        def match(c):
            return isinstance(c.func, ast.Attribute) and isinstance(c.func.value, ast.Name) and c.func.value.id == "self" \
                and not c.args and cls is not None and cls.lookup(c.func.attr) is not None

        def provide(c, ev):
            f = cls.lookup(c.func.attr)
            body = [s for s in f.node.body if not (isinstance(s, ast.Expr) and isinstance(s.value, ast.Constant))]
            if len(body) == 1 and isinstance(body[0], ast.Return) and body[0].value is not None:
                return Ev()(body[0].value)
            raise NotEvaluable("self.%s() is not a constant getter" % c.func.attr)
        return (match, provide)

    def _is_adler(self, c):
        if not isinstance(c, ast.Call):
            return False
        f = c.func
        if isinstance(f, ast.Attribute) and f.attr == "adler32" and isinstance(f.value, ast.Name):
            return self.m.imports.get(f.value.id, (None,))[0] == "zlib"
        if isinstance(f, ast.Name):
            return self.m.imports.get(f.id) == ("zlib", "adler32")
        return False

    def _tv(self, desc, G, env, calls):
        """truth values of G.test at one abstract point, over all assignments of opaque atoms
        (sub-expressions that mention no role holder and no adler32 call)"""
        keys = set(env)

        def atom_ok(e):
            return not _mentions(e, keys) and not any(self._is_adler(n) for n in ast.walk(e))
        out = []
        for atoms, v in truths(G.test, env, calls, atom_ok):
            d = desc + ("" if not atoms else " when " + ", ".join("`%s` is %s" % (k[:50], a) for k, a in atoms.items()))
            out.append((d, v))
        return out

    def _guard(self, role, label, G, evaluate_wrong, exc=("ValueError",)):
        """evaluate_wrong() -> list of (point description, bool arm)  for every wrong point.
        -> (ok, reason, raises)"""
        cfg = self.hcfg
        try:
            arms = evaluate_wrong(G)
        except NotEvaluable as e:
            return None, "not evaluable: %s" % e, []
        avoid = non_catching_handlers(self.hdr.node, exc)
        if reach(cfg, cfg.entry, cfg.exit, avoid_nodes=[G]):
            return False, "the guard is not on every path to the normal exit", []
        vals = {}
        for desc, v in arms:
            vals.setdefault(bool(v), desc)
        raises = []
        for v, desc in vals.items():
            for (_, tgt) in branch_edges(cfg, G, v):
                if tgt is cfg.exit or reach(cfg, tgt, cfg.exit, avoid_nodes=avoid):
                    return False, "for %s the test is %s and that arm reaches the normal exit (no raise, or the raise is caught)" % (desc, v), []
            arm = G.body if v else G.orelse
            for s in arm:
                for n in walk_no_nested(s):
                    if isinstance(n, ast.Raise):
                        raises.append(n)
        for r in raises:
            sw = swallowed_by(r, self.hdr.node, exc)
            if sw:
                return False, "the raise is inside a try whose `except %s` arm does not re-raise" % (ast.unparse(sw[1].type) if sw[1].type else ""), []
        return True, "", raises

    def _decide(self, role, label, keys, evaluate_wrong, what_wrong):
        ctx, hdr = self.ctx, self.hdr
        ifs = [n for n in walk_no_nested(hdr.node) if isinstance(n, ast.If) and _mentions(n.test, keys)]
        results = [(G,) + tuple(self._guard(role, label, G, evaluate_wrong)) for G in ifs]
        good = [r for r in results if r[1] is True]
        ctx.count("guards")
        if good:
            G = good[0][0]
            exc = sorted({ast.unparse(r.exc.func if isinstance(r.exc, ast.Call) else r.exc) for r in good[0][3] if r.exc is not None})
            ctx.check("guard/" + role, label, True, hdr, G.test, "", node=G,
                      detail="`if %s` raises %s for %s and lies on every path to the exit" % (norm(G.test)[:80], "/".join(exc), what_wrong))
            return G
        # a mention that cannot be evaluated only matters if it looks like a guard (has a raise in an arm)
        uneval = [r for r in results if r[1] is None and any(isinstance(x, ast.Raise) for s in r[0].body + r[0].orelse for x in walk_no_nested(s))]
        failing = [r for r in results if r[1] is False]
        if uneval and not failing:
            raise AnalysisError("HeaderItem.__init__: the %s guard `%s` left the analysable fragment (%s)" % (role, norm(uneval[0][0].test)[:80], uneval[0][2]))
        if failing:
            G, _, why, _ = failing[0]
            ctx.check("guard/" + role, label, False, hdr, "if %s" % norm(G.test), "header guard on %s does not reject %s: %s" % (role, what_wrong, why), node=G)
        else:
            self._maybe_in_helper(role, keys)
            ctx.check("guard/" + role, label, False, hdr, "no guard on %s" % role,
                      "HeaderItem.__init__ has no `if` on %s (%s): %s is not rejected" % (role, ", ".join(sorted(keys)) or "no expression", what_wrong), node=hdr.node)
        return None

    def _maybe_in_helper(self, role, keys):
        """the guard may have been extracted into a helper: that is outside the fragment
        this rule evaluates (exit 2), not evidence that the guard is gone"""
        hdr = self.hdr
        for c in (x for x in walk_no_nested(hdr.node) if isinstance(x, ast.Call)):
            passes = any(_mentions(a, keys) for a in c.args) or any(_mentions(k.value, keys) for k in c.keywords)
            callee = None
            if isinstance(c.func, ast.Attribute) and isinstance(c.func.value, ast.Name) and c.func.value.id == "self" and hdr.cls is not None:
                callee = hdr.cls.lookup(c.func.attr)
            elif isinstance(c.func, ast.Name):
                r = self.m.resolve_name(c.func.id)
                callee = r[1] if r and r[0] == "func" else None
            if callee is None or callee is self.read_at:
                continue
            has_raise = any(isinstance(n, ast.Raise) for n in walk_no_nested(callee.node))
            mentions = any(isinstance(n, ast.If) and _mentions(n.test, keys) for n in walk_no_nested(callee.node))
            if has_raise and (mentions or passes):
                raise AnalysisError("HeaderItem.__init__: the %s check seems to have moved into helper %s; "
                                    "guards inside helpers are outside the analysed fragment" % (role, callee.qualname))

    def check_header(self):
        ctx, hdr = self.ctx, self.hdr
        sc = self._self_const_call()

        # size
        def ev_size(G):
            out = []
            for n in range(0, HEADER_LEN):
                env = {k: n for k in self.role["nbytes"]}
                out += self._tv("a %d byte buffer" % n, G, env, [sc])
            return out
        self._decide("size", "buffer shorter than 0x70 bytes raises", self.role["nbytes"], ev_size, "buffers shorter than the 0x70 byte header")

        # magic
        def ev_magic(G):
            out = []
            for base in GOOD_MAGICS:
                for pos, allowed in MAGIC_CONSTRAINED.items():
                    for v in range(256):
                        if v in allowed:
                            continue
                        mg = base[:pos] + bytes([v]) + base[pos + 1:]
                        env = {k: mg for k in self.role["magic"]}
                        out += self._tv("magic %r" % mg, G, env, [sc])
            return out
        self._decide("magic", "wrong magic byte at positions 0,1,2,3,7 raises", self.role["magic"], ev_magic,
                     "a magic whose bytes 0-3 are not 'dex\\n'/'dey\\n' or whose byte 7 is not NUL")
        ctx.assume("the version digits magic[4:7] are deliberately tolerated by the code (warning, version 35 assumed); "
                   "the magic clause is decided for the bytes the format fixes: 'dex'/'dey', '\\n', NUL")

        # checksum
        MASK = 0xFFFFFFFF

        def ev_cs(G):
            if not any(self._is_adler(n) for n in ast.walk(G.test)):
                raise NotEvaluable("no adler32 call in the test")
            consts = int_consts(G.test) - {MASK}
            pts = [p for p in order_points(consts, extra=(MASK,)) if p <= MASK]
            out = []
            for a in pts:
                for c in pts:
                    if a == c:
                        continue
                    env = {k: c for k in self.role["checksum"]}
                    out += self._tv("adler32=0x%x, stored checksum=0x%x" % (a, c), G, env, [(self._is_adler, lambda call, ev, a=a: a), sc])
            return out
        Gc = self._decide("checksum", "adler32 != stored checksum raises", self.role["checksum"], ev_cs, "a stored checksum different from the computed Adler-32")
        self.check_checksum_operand()

        # header size
        def ev_hs(G):
            consts = int_consts(G.test) | {HEADER_LEN}
            out = []
            for v in order_points(consts, extra=(0xFFFFFFFF,)):
                if v == HEADER_LEN or v > 0xFFFFFFFF:
                    continue
                env = {k: v for k in self.role["header_size"]}
                out += self._tv("header_size=0x%x" % v, G, env, [sc])
            return out
        self._decide("header_size", "header_size != 0x70 raises", self.role["header_size"], ev_hs, "every header_size other than 0x70")

        self.check_packer_call()

    def check_checksum_operand(self):
        ctx, hdr = self.ctx, self.hdr
        calls = [n for n in walk_no_nested(hdr.node) if self._is_adler(n)]
        for c in calls:
            ctx.count("checksum_operands")
            arg = c.args[0] if c.args else None
            src = self._resolve(arg) if arg is not None else None
            ra = self.read_at_call(src) if src is not None else None
            inst = "checksum operand is read_at(buffer, offset+12) to EOF"
            if ra is None:
                ctx.check("checksum/operand", inst, False, hdr, c, "adler32 is not applied to a read_at(...) of the buffer: %s" % norm(c), node=c)
                continue
            b, o, s = ra
            try:
                k, cst = self.lin(o)
            except NotEvaluable as e:
                raise AnalysisError("checksum operand offset left the fragment: %s" % e)
            ok_b = isinstance(b, ast.Name) and b.id == self.buff
            ok_o = cst == CHECKSUM_FROM and (k == 1 or (k == 0 and self.offset_zero))
            if s is None:
                ok_s = self.read_at_default_to_eof
            else:
                try:
                    ok_s = Ev()(s) in (-1, None)
                except NotEvaluable:
                    ok_s = False
            ctx.check("checksum/operand", inst, ok_b and ok_o and ok_s, hdr, c,
                      "the Adler-32 is not computed over the bytes from header offset 12 to the end of the buffer: %s (start %s*offset+%s, size %s)"
                      % (norm(c), k, cst, "default" if s is None else ast.unparse(s)), node=c,
                      detail="adler32(read_at(%s, %s*offset+%d, size=%s))" % (ast.unparse(b), k, cst, "default -1" if s is None else ast.unparse(s)))

    def check_packer_call(self):
        ctx, hdr = self.ctx, self.hdr
        cfg = self.hcfg
        calls = []
        for n in walk_no_nested(hdr.node):
            if isinstance(n, ast.Call) and isinstance(n.func, ast.Name):
                r = self.m.resolve_name(n.func.id)
                if r and r[0] == "class" and r[1].name == "DalvikPacker":
                    calls.append(n)
        ctx.count("packer_calls", len(calls))
        if not calls:
            ctx.check("endian/call", "HeaderItem.__init__ constructs DalvikPacker", False, hdr, "no DalvikPacker(...) call",
                      "HeaderItem.__init__ never constructs DalvikPacker: the endian tag is not checked", node=hdr.node)
            return
        ok_any = False
        why = ""
        for c in calls:
            st = stmt_of(c, hdr.node)
            arg = c.args[0] if c.args else (c.keywords[0].value if c.keywords else None)
            key = ast.unparse(arg) if arg is not None else None
            prov = None
            if key in self.words:
                fmt, (b, o, s), _ = self.words[key]
                try:
                    k, cst = self.lin(o)
                    size = Ev()(s) if s is not None else None
                except NotEvaluable as e:
                    raise AnalysisError("endian tag read left the fragment: %s" % e)
                good = fmt in ("<I", "<L") and cst == OFF_ENDIAN and (k == 1 or (k == 0 and self.offset_zero)) and size == 4 \
                    and isinstance(b, ast.Name) and b.id == self.buff
                prov = "unpack(%r, read_at(%s, %d*offset+%d, %s))" % (fmt, ast.unparse(b), k, cst, size)
            elif key in self.role["endian_slot"]:
                good = True
                prov = "slot at offset 40 of the header unpack"
            else:
                good = False
                prov = "%s (not the word at header offset 40)" % key
            on_all = not reach(cfg, cfg.entry, cfg.exit, avoid_nodes=[st])
            sw = swallowed_by(st, hdr.node, REJECT_EXC)
            if good and on_all and not sw:
                ok_any = True
                detail = "DalvikPacker(%s) with %s on every path to the exit" % (key, prov)
            else:
                why = ("argument is %s" % prov) if not good else ("not on every path to the exit" if not on_all else "inside a try that swallows the rejection")
                bad = c
        ctx.count("guards")
        if ok_any:
            ctx.check("endian/call", "DalvikPacker is built from the u32 at header offset 40 on every path", True, hdr, calls[0], "", detail=detail)
        else:
            ctx.check("endian/call", "DalvikPacker is built from the u32 at header offset 40 on every path", False, hdr, bad,
                      "the endian tag check does not see the little-endian u32 at header offset 40 on every path: %s" % why, node=bad)

    # ------------------------------------------------------------------ ordering
    def parser_classes(self):
        out = {}
        for c in self.m.classes.values():
            f = c.methods.get("__init__")
            if f is None:
                continue
            a = f.node.args
            for p in a.args:
                ann = ast.unparse(p.annotation) if p.annotation is not None else ""
                if p.arg in ("buff", "buf") or "BinaryIO" in ann or ann.startswith("IO"):
                    out[c.name] = c
        return out

    def _ctor(self, call, pcs):
        if isinstance(call.func, ast.Name):
            r = self.m.resolve_name(call.func.id)
            if r and r[0] == "class" and r[1].name in pcs:
                return r[1].name
        return None

    def _touches(self, func, buf_keys, pcs, depth, seen):
        """does DEX.<method> (transitively through self.m() calls) construct a parser class or use the buffer?"""
        for c in (x for x in walk_no_nested(func.node) if isinstance(x, ast.Call)):
            if self._ctor(c, pcs):
                return "%s constructs %s" % (func.qualname, self._ctor(c, pcs))
            txt = [ast.unparse(a) for a in c.args] + [ast.unparse(k.value) for k in c.keywords]
            if any(t in buf_keys for t in txt) or (isinstance(c.func, ast.Attribute) and ast.unparse(c.func.value) in buf_keys):
                return "%s uses the buffer in %s" % (func.qualname, norm(c)[:60])
            if isinstance(c.func, ast.Attribute) and isinstance(c.func.value, ast.Name) and c.func.value.id == "self":
                g = func.cls.lookup(c.func.attr) if func.cls else None
                if g is not None and g.qualname not in seen:
                    if depth <= 0:
                        raise AnalysisError("call chain from %s too deep to classify" % func.qualname)
                    seen.add(g.qualname)
                    r = self._touches(g, buf_keys, pcs, depth - 1, seen)
                    if r:
                        return r
        return None

    def check_order(self):
        ctx = self.ctx
        load = self.m.func("DEX._load")
        init = self.m.func("DEX.__init__")
        ctx.analysed(load)
        ctx.analysed(init)
        pcs = self.parser_classes()
        ctx.count("parser_classes", len(pcs))
        ctx.require("HeaderItem" in pcs and "MapList" in pcs, "HeaderItem/MapList are no longer recognised as buffer-reading classes")
        cfg = CFG(load.node)
        hcalls = [c for c in walk_no_nested(load.node) if isinstance(c, ast.Call) and self._ctor(c, pcs) == "HeaderItem"]
        ctx.count("header_calls", len(hcalls))
        if not hcalls:
            ctx.check("order/header-first", "DEX._load constructs HeaderItem", False, load, "no HeaderItem(...) in DEX._load",
                      "DEX._load does not construct HeaderItem: nothing validates the header", node=load.node)
            self.offset_zero = False
            return
        H = stmt_of(hcalls[0], load.node)
        hcall = hcalls[0]
        hp = self.hdr.params()[1:] if hasattr(self, "hdr") else self.m.func("HeaderItem.__init__").params()[1:]
        bidx = hp.index(self.buff) if hasattr(self, "buff") and self.buff in hp else 1
        ctx.require(len(hcall.args) > bidx, "HeaderItem(...) call does not pass the buffer positionally")
        bufexpr = ast.unparse(hcall.args[bidx])
        buf_keys = {bufexpr}
        on_all = not reach(cfg, cfg.entry, cfg.exit, avoid_nodes=[H])
        ctx.check("order/header-first", "HeaderItem(...) lies on every path through DEX._load", on_all, load, H,
                  "DEX._load can reach its exit without constructing HeaderItem: the header checks are skipped on some path", node=H,
                  detail="every path entry->exit of DEX._load passes `%s`" % norm(H)[:70])
        sw = swallowed_by(H, load.node, REJECT_EXC)
        ctx.check("order/not-swallowed", "HeaderItem(...) is not under a swallowing try in DEX._load", not sw, load, H,
                  "the HeaderItem(...) call sits in a try whose handler catches the rejection and continues", node=H)
        n_other = 0
        for c in (x for x in walk_no_nested(load.node) if isinstance(x, ast.Call)):
            if c is hcall:
                continue
            st = stmt_of(c, load.node)
            what = None
            if self._ctor(c, pcs):
                what = "constructs %s" % self._ctor(c, pcs)
            elif any(ast.unparse(a) in buf_keys for a in c.args) or (isinstance(c.func, ast.Attribute) and ast.unparse(c.func.value) in buf_keys):
                what = "uses the buffer"
            elif isinstance(c.func, ast.Attribute) and isinstance(c.func.value, ast.Name) and c.func.value.id == "self":
                g = load.cls.lookup(c.func.attr)
                if g is not None:
                    what = self._touches(g, buf_keys, pcs, 3, {g.qualname})
            if what is None:
                continue
            n_other += 1
            ctx.count("ordered_constructions")
            dom = st is not H and cfg.dominates(H, st) and not reach(cfg, st, H)
            ctx.check("order/header-first", "%s is dominated by HeaderItem(...)" % norm(c)[:60], dom, load, c,
                      "DEX._load %s (`%s`) on a path where HeaderItem(...) has not run yet: structures are parsed before the header is validated"
                      % (what, norm(c)[:80]), node=c, detail="%s only after `%s`" % (what, norm(H)[:50]))
        # ---- DEX.__init__
        icfg = CFG(init.node)
        lcalls = [c for c in walk_no_nested(init.node) if isinstance(c, ast.Call) and isinstance(c.func, ast.Attribute)
                  and isinstance(c.func.value, ast.Name) and c.func.value.id == "self" and c.func.attr == load.node.name]
        ctx.count("load_calls", len(lcalls))
        if not lcalls:
            ctx.check("order/load-called", "DEX.__init__ calls _load", False, init, "no self._load(...)", "DEX.__init__ never calls _load", node=init.node)
            self.offset_zero = False
            return
        L = stmt_of(lcalls[0], init.node)
        on_all = not reach(icfg, icfg.entry, icfg.exit, avoid_nodes=[L])
        sw = swallowed_by(L, init.node, REJECT_EXC)
        ctx.check("order/load-called", "self._load(...) lies on every path through DEX.__init__ and is not swallowed", on_all and not sw, init, L,
                  "DEX.__init__ %s" % ("can finish without calling _load" if not on_all else "catches the header rejection raised below _load and continues"),
                  node=L, detail="every path entry->exit passes `%s`; no enclosing try catches ValueError/NotImplementedError" % norm(L))
        for c in (x for x in walk_no_nested(init.node) if isinstance(x, ast.Call)):
            st = stmt_of(c, init.node)
            if st is L or (icfg.dominates(L, st) and not reach(icfg, st, L)):
                continue
            what = None
            if self._ctor(c, pcs):
                what = "constructs %s" % self._ctor(c, pcs)
            elif isinstance(c.func, ast.Attribute) and ast.unparse(c.func.value) in buf_keys:
                what = "uses the buffer"
            elif isinstance(c.func, ast.Attribute) and isinstance(c.func.value, ast.Name) and c.func.value.id == "self":
                g = init.cls.lookup(c.func.attr)
                if g is not None:
                    what = self._touches(g, buf_keys, pcs, 3, {g.qualname})
            if what:
                ctx.check("order/header-first", "nothing parses before _load in DEX.__init__", False, init, c,
                          "DEX.__init__ %s (`%s`) before _load validates the header" % (what, norm(c)[:80]), node=c)
        ctx.ob("order/header-first", "no buffer-reading construction in DEX.__init__ before _load", True,
               "calls before `%s` neither construct a buffer-reading class nor touch %s" % (norm(L), bufexpr))
        # ---- is the buffer fresh (position 0) when HeaderItem runs?
        idefs = Defs(init.node)
        ds = idefs.of(bufexpr)
        fresh = False
        if len(ds) == 1 and ds[0][0] == "assign" and isinstance(ds[0][1], ast.Call):
            v = ds[0][1]
            if ast.unparse(v.func) in ("io.BufferedReader", "BufferedReader") and v.args and isinstance(v.args[0], ast.Call) \
                    and ast.unparse(v.args[0].func) in ("io.BytesIO", "BytesIO"):
                fresh = True
            if ast.unparse(v.func) in ("io.BytesIO", "BytesIO"):
                fresh = True
        self.offset_zero = fresh
        if fresh:
            ctx.assume("the header is parsed from a freshly created reader (%s = %s, nothing reads it before HeaderItem), "
                       "so HeaderItem.offset is 0 and absolute header offsets equal offset-relative ones" % (bufexpr, norm(ds[0][1])))

    # ------------------------------------------------------------------
    def run(self):
        ctx = self.ctx
        self.check_read_at()
        self.check_packer()
        self.roles_header()
        self.check_order()
        self.check_header()


OWN_MUTATION_ADEQUACY = True   # thorough() below mutates the anchored functions in memory (pathkit.run_mutants)


def core(ctx):
    Core(ctx).run()


def run(ctx):
    ctx.explanation = __doc__
    core(ctx)
    ctx.floor("guards", 7)            # size, magic, checksum, header_size, endian accept, endian reject, endian call
    ctx.floor("checksum_operands", 1)
    ctx.floor("parser_classes", 20)
    ctx.floor("ordered_constructions", 1)
    ctx.floor("header_calls", 1)
    ctx.floor("load_calls", 1)
    ctx.note("ODEX._preload (a different entry point, it parses the ODEX wrapper before the embedded DEX header) is outside the property")
    if ctx.tier == "thorough":
        thorough(ctx)


# ---------------------------------------------------------------------------- thorough tier
def _raise_to_pass(pred):
    def tr(fn):
        done = 0
        for n in list(walk_no_nested(fn)):
            if isinstance(n, ast.If) and pred(n):
                for i, s in enumerate(n.body):
                    if isinstance(s, ast.Raise):
                        n.body[i] = ast.Expr(value=ast.Call(func=ast.Attribute(value=ast.Name(id="logger", ctx=ast.Load()), attr="warning", ctx=ast.Load()),
                                                            args=[ast.Constant(value="ignored")], keywords=[]))
                        done += 1
        if not done:
            raise LookupError
    return tr


def _negate(pred):
    def tr(fn):
        done = 0
        for n in list(walk_no_nested(fn)):
            if isinstance(n, ast.If) and pred(n):
                n.test = ast.UnaryOp(op=ast.Not(), operand=n.test)
                done += 1
        if not done:
            raise LookupError
    return tr


def _delete(pred):
    def tr(fn):
        done = 0
        for n in list(walk_no_nested(fn)):
            for f in ("body", "orelse"):
                b = getattr(n, f, None)
                if isinstance(b, list):
                    for i, s in enumerate(list(b)):
                        if isinstance(s, ast.If) and pred(s):
                            b[b.index(s)] = ast.Pass()
                            done += 1
        if not done:
            raise LookupError
    return tr


def _wrap_try(pred):
    def tr(fn):
        done = 0
        for n in list(walk_no_nested(fn)):
            b = getattr(n, "body", None)
            if isinstance(b, list):
                for i, s in enumerate(list(b)):
                    if isinstance(s, ast.stmt) and not isinstance(s, ast.Try) and pred(s):
                        b[i] = ast.Try(body=[s], handlers=[ast.ExceptHandler(type=ast.Name(id="Exception", ctx=ast.Load()), name=None, body=[ast.Pass()])],
                                       orelse=[], finalbody=[])
                        done += 1
        if not done:
            raise LookupError
    return tr


def _replace_const(old, new, where=lambda n: True):
    def tr(fn):
        done = 0
        roots = [x for x in walk_no_nested(fn) if where(x)]
        for n in (y for r in roots for y in ast.walk(r)):
            if isinstance(n, ast.Constant) and n.value == old and not isinstance(n.value, bool):
                n.value = new
                done += 1
        if not done:
            raise LookupError
    return tr


def _move_first_to_end(pred):
    def tr(fn):
        for i, s in enumerate(fn.body):
            if pred(s):
                fn.body.append(fn.body.pop(i))
                return
        raise LookupError
    return tr


def thorough(ctx):
    m = ctx.mod(DEX)
    hdr = m.func("HeaderItem.__init__")
    pk = m.func("DalvikPacker.__init__")
    load = m.func("DEX._load")
    init = m.func("DEX.__init__")
    c0 = Core(_quiet(ctx))
    c0.check_read_at(); c0.check_packer(); c0.roles_header()
    role = c0.role

    def on(rolename):
        keys = role[rolename]
        return lambda n: isinstance(n, ast.If) and bool(_mentions(n.test, keys)) and any(isinstance(s, ast.Raise) for s in n.body)
    mutants = []
    for r in ("nbytes", "magic", "checksum", "header_size"):
        mutants.append(("%s guard: raise -> logger.warning" % r, hdr, _raise_to_pass(on(r))))
        mutants.append(("%s guard: test negated" % r, hdr, _negate(on(r))))
        mutants.append(("%s guard: deleted" % r, hdr, _delete(on(r))))
        mutants.append(("%s guard: wrapped in try/except Exception: pass" % r, hdr, _wrap_try(on(r))))
    mutants.append(("checksum from offset+8", hdr, _replace_const(12, 8, lambda n: isinstance(n, ast.Call) and ast.unparse(n.func) == "read_at")))
    mutants.append(("endian word read at 44", hdr, _replace_const(40, 44, lambda n: isinstance(n, ast.Call) and ast.unparse(n.func) == "read_at")))
    mutants.append(("header_size compared with 0x74", hdr, _replace_const(0x70, 0x74, lambda n: isinstance(n, ast.If))))
    mutants.append(("DalvikPacker: else-raise -> warning", pk, _raise_to_pass(lambda n: True)))
    mutants.append(("DalvikPacker: accepts 0x12345679 instead", pk, _replace_const(0x12345678, 0x12345679)))
    mutants.append(("DalvikPacker call wrapped in try", hdr, _wrap_try(lambda s: "DalvikPacker(" in ast.unparse(s) and isinstance(s, ast.Assign))))
    mutants.append(("_load: HeaderItem moved after the map", load, _move_first_to_end(lambda s: "HeaderItem(" in ast.unparse(s))))
    mutants.append(("_load: HeaderItem wrapped in try", load, _wrap_try(lambda s: "HeaderItem(" in ast.unparse(s))))
    mutants.append(("__init__: _load wrapped in try", init, _wrap_try(lambda s: "self._load(" in ast.unparse(s))))
    benign = [
        ("HeaderItem.__init__: locals renamed", hdr, rename_locals()),
        ("HeaderItem.__init__: a != b -> not (a == b)", hdr, neq_to_not_eq()),
        ("DalvikPacker.__init__: if/else arms flipped", pk, flip_ifs()),
        ("DEX._load: if/else arms flipped", load, flip_ifs()),
        ("DEX._load: locals renamed", load, rename_locals()),
    ]
    run_mutants(ctx, core, mutants, benign)


def _quiet(ctx):
    from ..pathkit import Sink
    return Sink(ctx)
